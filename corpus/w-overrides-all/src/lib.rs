//@ props: C06 C12 C04
//@ expect: pass
//@ what: all 64 override subsets x migrate/reply handlers present/absent x replies feature on/off
#![allow(dead_code, unused_imports, deprecated, clippy::new_without_default)]
use sylvia::ctx::{ExecCtx, InstantiateCtx, MigrateCtx, QueryCtx, ReplyCtx, SudoCtx};
use sylvia::cw_std::{Binary, Deps, DepsMut, Empty, Env, MessageInfo, Reply, Response, StdError, StdResult};
use sylvia::{contract, entry_points};

#[sylvia::cw_schema::cw_serde]
pub struct Resp {}

pub mod s_none_mr_r {
    use super::*;
    pub mod eps {
        use super::super::*;


    }

    pub struct Contract;

    #[entry_points]
    #[contract]
    #[sv::features(replies)]

    impl Contract {
        pub fn new() -> Self { Self }
        #[sv::msg(instantiate)]
        fn instantiate(&self, _ctx: InstantiateCtx) -> StdResult<Response> { Ok(Response::new()) }
        #[sv::msg(exec)]
        fn do_exec(&self, _ctx: ExecCtx) -> StdResult<Response> { Ok(Response::new()) }
        #[sv::msg(query)]
        fn do_query(&self, _ctx: QueryCtx) -> StdResult<Resp> { Ok(Resp {}) }
        #[sv::msg(sudo)]
        fn do_sudo(&self, _ctx: SudoCtx) -> StdResult<Response> { Ok(Response::new()) }
        #[sv::msg(migrate)]
        fn migrate(&self, _ctx: MigrateCtx) -> StdResult<Response> { Ok(Response::new()) }
        #[sv::msg(reply, handlers=[on_done], reply_on=success)]
        fn on_done(&self, _ctx: ReplyCtx, #[sv::payload(raw)] _payload: Binary) -> StdResult<Response> { Ok(Response::new()) }
    }
}

pub mod s_none_mr_l {
    use super::*;
    pub mod eps {
        use super::super::*;


    }

    pub struct Contract;

    #[entry_points]
    #[contract]

    impl Contract {
        pub fn new() -> Self { Self }
        #[sv::msg(instantiate)]
        fn instantiate(&self, _ctx: InstantiateCtx) -> StdResult<Response> { Ok(Response::new()) }
        #[sv::msg(exec)]
        fn do_exec(&self, _ctx: ExecCtx) -> StdResult<Response> { Ok(Response::new()) }
        #[sv::msg(query)]
        fn do_query(&self, _ctx: QueryCtx) -> StdResult<Resp> { Ok(Resp {}) }
        #[sv::msg(sudo)]
        fn do_sudo(&self, _ctx: SudoCtx) -> StdResult<Response> { Ok(Response::new()) }
        #[sv::msg(migrate)]
        fn migrate(&self, _ctx: MigrateCtx) -> StdResult<Response> { Ok(Response::new()) }
        #[sv::msg(reply)]
        fn reply(&self, _ctx: sylvia::types::ReplyCtx, _msg: Reply) -> StdResult<Response> { Ok(Response::new()) }
    }
}

pub mod s_none_nomr_r {
    use super::*;
    pub mod eps {
        use super::super::*;


    }

    pub struct Contract;

    #[entry_points]
    #[contract]
    #[sv::features(replies)]

    impl Contract {
        pub fn new() -> Self { Self }
        #[sv::msg(instantiate)]
        fn instantiate(&self, _ctx: InstantiateCtx) -> StdResult<Response> { Ok(Response::new()) }
        #[sv::msg(exec)]
        fn do_exec(&self, _ctx: ExecCtx) -> StdResult<Response> { Ok(Response::new()) }
        #[sv::msg(query)]
        fn do_query(&self, _ctx: QueryCtx) -> StdResult<Resp> { Ok(Resp {}) }
        #[sv::msg(sudo)]
        fn do_sudo(&self, _ctx: SudoCtx) -> StdResult<Response> { Ok(Response::new()) }
    }
}

pub mod s_none_nomr_l {
    use super::*;
    pub mod eps {
        use super::super::*;


    }

    pub struct Contract;

    #[entry_points]
    #[contract]

    impl Contract {
        pub fn new() -> Self { Self }
        #[sv::msg(instantiate)]
        fn instantiate(&self, _ctx: InstantiateCtx) -> StdResult<Response> { Ok(Response::new()) }
        #[sv::msg(exec)]
        fn do_exec(&self, _ctx: ExecCtx) -> StdResult<Response> { Ok(Response::new()) }
        #[sv::msg(query)]
        fn do_query(&self, _ctx: QueryCtx) -> StdResult<Resp> { Ok(Resp {}) }
        #[sv::msg(sudo)]
        fn do_sudo(&self, _ctx: SudoCtx) -> StdResult<Response> { Ok(Response::new()) }
    }
}

pub mod s_inst_mr_r {
    use super::*;
    pub mod eps {
        use super::super::*;
        #[sylvia::cw_schema::cw_serde]
        pub struct CustomInstantiate {}
        pub fn instantiate(_deps: DepsMut, _env: Env, _info: MessageInfo, _msg: CustomInstantiate) -> StdResult<Response> { Ok(Response::new()) }
    }

    pub struct Contract;

    #[entry_points]
    #[contract]
    #[sv::features(replies)]
    #[sv::override_entry_point(instantiate=eps::instantiate(eps::CustomInstantiate))]
    impl Contract {
        pub fn new() -> Self { Self }
        #[sv::msg(instantiate)]
        fn instantiate(&self, _ctx: InstantiateCtx) -> StdResult<Response> { Ok(Response::new()) }
        #[sv::msg(exec)]
        fn do_exec(&self, _ctx: ExecCtx) -> StdResult<Response> { Ok(Response::new()) }
        #[sv::msg(query)]
        fn do_query(&self, _ctx: QueryCtx) -> StdResult<Resp> { Ok(Resp {}) }
        #[sv::msg(sudo)]
        fn do_sudo(&self, _ctx: SudoCtx) -> StdResult<Response> { Ok(Response::new()) }
        #[sv::msg(migrate)]
        fn migrate(&self, _ctx: MigrateCtx) -> StdResult<Response> { Ok(Response::new()) }
        #[sv::msg(reply, handlers=[on_done], reply_on=success)]
        fn on_done(&self, _ctx: ReplyCtx, #[sv::payload(raw)] _payload: Binary) -> StdResult<Response> { Ok(Response::new()) }
    }
}

pub mod s_inst_mr_l {
    use super::*;
    pub mod eps {
        use super::super::*;
        #[sylvia::cw_schema::cw_serde]
        pub struct CustomInstantiate {}
        pub fn instantiate(_deps: DepsMut, _env: Env, _info: MessageInfo, _msg: CustomInstantiate) -> StdResult<Response> { Ok(Response::new()) }
    }

    pub struct Contract;

    #[entry_points]
    #[contract]
    #[sv::override_entry_point(instantiate=eps::instantiate(eps::CustomInstantiate))]
    impl Contract {
        pub fn new() -> Self { Self }
        #[sv::msg(instantiate)]
        fn instantiate(&self, _ctx: InstantiateCtx) -> StdResult<Response> { Ok(Response::new()) }
        #[sv::msg(exec)]
        fn do_exec(&self, _ctx: ExecCtx) -> StdResult<Response> { Ok(Response::new()) }
        #[sv::msg(query)]
        fn do_query(&self, _ctx: QueryCtx) -> StdResult<Resp> { Ok(Resp {}) }
        #[sv::msg(sudo)]
        fn do_sudo(&self, _ctx: SudoCtx) -> StdResult<Response> { Ok(Response::new()) }
        #[sv::msg(migrate)]
        fn migrate(&self, _ctx: MigrateCtx) -> StdResult<Response> { Ok(Response::new()) }
        #[sv::msg(reply)]
        fn reply(&self, _ctx: sylvia::types::ReplyCtx, _msg: Reply) -> StdResult<Response> { Ok(Response::new()) }
    }
}

pub mod s_inst_nomr_r {
    use super::*;
    pub mod eps {
        use super::super::*;
        #[sylvia::cw_schema::cw_serde]
        pub struct CustomInstantiate {}
        pub fn instantiate(_deps: DepsMut, _env: Env, _info: MessageInfo, _msg: CustomInstantiate) -> StdResult<Response> { Ok(Response::new()) }
    }

    pub struct Contract;

    #[entry_points]
    #[contract]
    #[sv::features(replies)]
    #[sv::override_entry_point(instantiate=eps::instantiate(eps::CustomInstantiate))]
    impl Contract {
        pub fn new() -> Self { Self }
        #[sv::msg(instantiate)]
        fn instantiate(&self, _ctx: InstantiateCtx) -> StdResult<Response> { Ok(Response::new()) }
        #[sv::msg(exec)]
        fn do_exec(&self, _ctx: ExecCtx) -> StdResult<Response> { Ok(Response::new()) }
        #[sv::msg(query)]
        fn do_query(&self, _ctx: QueryCtx) -> StdResult<Resp> { Ok(Resp {}) }
        #[sv::msg(sudo)]
        fn do_sudo(&self, _ctx: SudoCtx) -> StdResult<Response> { Ok(Response::new()) }
    }
}

pub mod s_inst_nomr_l {
    use super::*;
    pub mod eps {
        use super::super::*;
        #[sylvia::cw_schema::cw_serde]
        pub struct CustomInstantiate {}
        pub fn instantiate(_deps: DepsMut, _env: Env, _info: MessageInfo, _msg: CustomInstantiate) -> StdResult<Response> { Ok(Response::new()) }
    }

    pub struct Contract;

    #[entry_points]
    #[contract]
    #[sv::override_entry_point(instantiate=eps::instantiate(eps::CustomInstantiate))]
    impl Contract {
        pub fn new() -> Self { Self }
        #[sv::msg(instantiate)]
        fn instantiate(&self, _ctx: InstantiateCtx) -> StdResult<Response> { Ok(Response::new()) }
        #[sv::msg(exec)]
        fn do_exec(&self, _ctx: ExecCtx) -> StdResult<Response> { Ok(Response::new()) }
        #[sv::msg(query)]
        fn do_query(&self, _ctx: QueryCtx) -> StdResult<Resp> { Ok(Resp {}) }
        #[sv::msg(sudo)]
        fn do_sudo(&self, _ctx: SudoCtx) -> StdResult<Response> { Ok(Response::new()) }
    }
}

pub mod s_exec_mr_r {
    use super::*;
    pub mod eps {
        use super::super::*;
        #[sylvia::cw_schema::cw_serde]
        pub struct CustomExec {}
        pub fn execute(_deps: DepsMut, _env: Env, _info: MessageInfo, _msg: CustomExec) -> StdResult<Response> { Ok(Response::new()) }
    }

    pub struct Contract;

    #[entry_points]
    #[contract]
    #[sv::features(replies)]
    #[sv::override_entry_point(exec=eps::execute(eps::CustomExec))]
    impl Contract {
        pub fn new() -> Self { Self }
        #[sv::msg(instantiate)]
        fn instantiate(&self, _ctx: InstantiateCtx) -> StdResult<Response> { Ok(Response::new()) }
        #[sv::msg(exec)]
        fn do_exec(&self, _ctx: ExecCtx) -> StdResult<Response> { Ok(Response::new()) }
        #[sv::msg(query)]
        fn do_query(&self, _ctx: QueryCtx) -> StdResult<Resp> { Ok(Resp {}) }
        #[sv::msg(sudo)]
        fn do_sudo(&self, _ctx: SudoCtx) -> StdResult<Response> { Ok(Response::new()) }
        #[sv::msg(migrate)]
        fn migrate(&self, _ctx: MigrateCtx) -> StdResult<Response> { Ok(Response::new()) }
        #[sv::msg(reply, handlers=[on_done], reply_on=success)]
        fn on_done(&self, _ctx: ReplyCtx, #[sv::payload(raw)] _payload: Binary) -> StdResult<Response> { Ok(Response::new()) }
    }
}

pub mod s_exec_mr_l {
    use super::*;
    pub mod eps {
        use super::super::*;
        #[sylvia::cw_schema::cw_serde]
        pub struct CustomExec {}
        pub fn execute(_deps: DepsMut, _env: Env, _info: MessageInfo, _msg: CustomExec) -> StdResult<Response> { Ok(Response::new()) }
    }

    pub struct Contract;

    #[entry_points]
    #[contract]
    #[sv::override_entry_point(exec=eps::execute(eps::CustomExec))]
    impl Contract {
        pub fn new() -> Self { Self }
        #[sv::msg(instantiate)]
        fn instantiate(&self, _ctx: InstantiateCtx) -> StdResult<Response> { Ok(Response::new()) }
        #[sv::msg(exec)]
        fn do_exec(&self, _ctx: ExecCtx) -> StdResult<Response> { Ok(Response::new()) }
        #[sv::msg(query)]
        fn do_query(&self, _ctx: QueryCtx) -> StdResult<Resp> { Ok(Resp {}) }
        #[sv::msg(sudo)]
        fn do_sudo(&self, _ctx: SudoCtx) -> StdResult<Response> { Ok(Response::new()) }
        #[sv::msg(migrate)]
        fn migrate(&self, _ctx: MigrateCtx) -> StdResult<Response> { Ok(Response::new()) }
        #[sv::msg(reply)]
        fn reply(&self, _ctx: sylvia::types::ReplyCtx, _msg: Reply) -> StdResult<Response> { Ok(Response::new()) }
    }
}

pub mod s_exec_nomr_r {
    use super::*;
    pub mod eps {
        use super::super::*;
        #[sylvia::cw_schema::cw_serde]
        pub struct CustomExec {}
        pub fn execute(_deps: DepsMut, _env: Env, _info: MessageInfo, _msg: CustomExec) -> StdResult<Response> { Ok(Response::new()) }
    }

    pub struct Contract;

    #[entry_points]
    #[contract]
    #[sv::features(replies)]
    #[sv::override_entry_point(exec=eps::execute(eps::CustomExec))]
    impl Contract {
        pub fn new() -> Self { Self }
        #[sv::msg(instantiate)]
        fn instantiate(&self, _ctx: InstantiateCtx) -> StdResult<Response> { Ok(Response::new()) }
        #[sv::msg(exec)]
        fn do_exec(&self, _ctx: ExecCtx) -> StdResult<Response> { Ok(Response::new()) }
        #[sv::msg(query)]
        fn do_query(&self, _ctx: QueryCtx) -> StdResult<Resp> { Ok(Resp {}) }
        #[sv::msg(sudo)]
        fn do_sudo(&self, _ctx: SudoCtx) -> StdResult<Response> { Ok(Response::new()) }
    }
}

pub mod s_exec_nomr_l {
    use super::*;
    pub mod eps {
        use super::super::*;
        #[sylvia::cw_schema::cw_serde]
        pub struct CustomExec {}
        pub fn execute(_deps: DepsMut, _env: Env, _info: MessageInfo, _msg: CustomExec) -> StdResult<Response> { Ok(Response::new()) }
    }

    pub struct Contract;

    #[entry_points]
    #[contract]
    #[sv::override_entry_point(exec=eps::execute(eps::CustomExec))]
    impl Contract {
        pub fn new() -> Self { Self }
        #[sv::msg(instantiate)]
        fn instantiate(&self, _ctx: InstantiateCtx) -> StdResult<Response> { Ok(Response::new()) }
        #[sv::msg(exec)]
        fn do_exec(&self, _ctx: ExecCtx) -> StdResult<Response> { Ok(Response::new()) }
        #[sv::msg(query)]
        fn do_query(&self, _ctx: QueryCtx) -> StdResult<Resp> { Ok(Resp {}) }
        #[sv::msg(sudo)]
        fn do_sudo(&self, _ctx: SudoCtx) -> StdResult<Response> { Ok(Response::new()) }
    }
}

pub mod s_quer_mr_r {
    use super::*;
    pub mod eps {
        use super::super::*;
        #[sylvia::cw_schema::cw_serde]
        pub struct CustomQuery {}
        pub fn query(_deps: Deps, _env: Env, _msg: CustomQuery) -> StdResult<Binary> { Ok(Binary::default()) }
    }

    pub struct Contract;

    #[entry_points]
    #[contract]
    #[sv::features(replies)]
    #[sv::override_entry_point(query=eps::query(eps::CustomQuery))]
    impl Contract {
        pub fn new() -> Self { Self }
        #[sv::msg(instantiate)]
        fn instantiate(&self, _ctx: InstantiateCtx) -> StdResult<Response> { Ok(Response::new()) }
        #[sv::msg(exec)]
        fn do_exec(&self, _ctx: ExecCtx) -> StdResult<Response> { Ok(Response::new()) }
        #[sv::msg(query)]
        fn do_query(&self, _ctx: QueryCtx) -> StdResult<Resp> { Ok(Resp {}) }
        #[sv::msg(sudo)]
        fn do_sudo(&self, _ctx: SudoCtx) -> StdResult<Response> { Ok(Response::new()) }
        #[sv::msg(migrate)]
        fn migrate(&self, _ctx: MigrateCtx) -> StdResult<Response> { Ok(Response::new()) }
        #[sv::msg(reply, handlers=[on_done], reply_on=success)]
        fn on_done(&self, _ctx: ReplyCtx, #[sv::payload(raw)] _payload: Binary) -> StdResult<Response> { Ok(Response::new()) }
    }
}

pub mod s_quer_mr_l {
    use super::*;
    pub mod eps {
        use super::super::*;
        #[sylvia::cw_schema::cw_serde]
        pub struct CustomQuery {}
        pub fn query(_deps: Deps, _env: Env, _msg: CustomQuery) -> StdResult<Binary> { Ok(Binary::default()) }
    }

    pub struct Contract;

    #[entry_points]
    #[contract]
    #[sv::override_entry_point(query=eps::query(eps::CustomQuery))]
    impl Contract {
        pub fn new() -> Self { Self }
        #[sv::msg(instantiate)]
        fn instantiate(&self, _ctx: InstantiateCtx) -> StdResult<Response> { Ok(Response::new()) }
        #[sv::msg(exec)]
        fn do_exec(&self, _ctx: ExecCtx) -> StdResult<Response> { Ok(Response::new()) }
        #[sv::msg(query)]
        fn do_query(&self, _ctx: QueryCtx) -> StdResult<Resp> { Ok(Resp {}) }
        #[sv::msg(sudo)]
        fn do_sudo(&self, _ctx: SudoCtx) -> StdResult<Response> { Ok(Response::new()) }
        #[sv::msg(migrate)]
        fn migrate(&self, _ctx: MigrateCtx) -> StdResult<Response> { Ok(Response::new()) }
        #[sv::msg(reply)]
        fn reply(&self, _ctx: sylvia::types::ReplyCtx, _msg: Reply) -> StdResult<Response> { Ok(Response::new()) }
    }
}

pub mod s_quer_nomr_r {
    use super::*;
    pub mod eps {
        use super::super::*;
        #[sylvia::cw_schema::cw_serde]
        pub struct CustomQuery {}
        pub fn query(_deps: Deps, _env: Env, _msg: CustomQuery) -> StdResult<Binary> { Ok(Binary::default()) }
    }

    pub struct Contract;

    #[entry_points]
    #[contract]
    #[sv::features(replies)]
    #[sv::override_entry_point(query=eps::query(eps::CustomQuery))]
    impl Contract {
        pub fn new() -> Self { Self }
        #[sv::msg(instantiate)]
        fn instantiate(&self, _ctx: InstantiateCtx) -> StdResult<Response> { Ok(Response::new()) }
        #[sv::msg(exec)]
        fn do_exec(&self, _ctx: ExecCtx) -> StdResult<Response> { Ok(Response::new()) }
        #[sv::msg(query)]
        fn do_query(&self, _ctx: QueryCtx) -> StdResult<Resp> { Ok(Resp {}) }
        #[sv::msg(sudo)]
        fn do_sudo(&self, _ctx: SudoCtx) -> StdResult<Response> { Ok(Response::new()) }
    }
}

pub mod s_quer_nomr_l {
    use super::*;
    pub mod eps {
        use super::super::*;
        #[sylvia::cw_schema::cw_serde]
        pub struct CustomQuery {}
        pub fn query(_deps: Deps, _env: Env, _msg: CustomQuery) -> StdResult<Binary> { Ok(Binary::default()) }
    }

    pub struct Contract;

    #[entry_points]
    #[contract]
    #[sv::override_entry_point(query=eps::query(eps::CustomQuery))]
    impl Contract {
        pub fn new() -> Self { Self }
        #[sv::msg(instantiate)]
        fn instantiate(&self, _ctx: InstantiateCtx) -> StdResult<Response> { Ok(Response::new()) }
        #[sv::msg(exec)]
        fn do_exec(&self, _ctx: ExecCtx) -> StdResult<Response> { Ok(Response::new()) }
        #[sv::msg(query)]
        fn do_query(&self, _ctx: QueryCtx) -> StdResult<Resp> { Ok(Resp {}) }
        #[sv::msg(sudo)]
        fn do_sudo(&self, _ctx: SudoCtx) -> StdResult<Response> { Ok(Response::new()) }
    }
}

pub mod s_sudo_mr_r {
    use super::*;
    pub mod eps {
        use super::super::*;
        #[sylvia::cw_schema::cw_serde]
        pub struct CustomSudo {}
        pub fn sudo(_deps: DepsMut, _env: Env, _msg: CustomSudo) -> StdResult<Response> { Ok(Response::new()) }
    }

    pub struct Contract;

    #[entry_points]
    #[contract]
    #[sv::features(replies)]
    #[sv::override_entry_point(sudo=eps::sudo(eps::CustomSudo))]
    impl Contract {
        pub fn new() -> Self { Self }
        #[sv::msg(instantiate)]
        fn instantiate(&self, _ctx: InstantiateCtx) -> StdResult<Response> { Ok(Response::new()) }
        #[sv::msg(exec)]
        fn do_exec(&self, _ctx: ExecCtx) -> StdResult<Response> { Ok(Response::new()) }
        #[sv::msg(query)]
        fn do_query(&self, _ctx: QueryCtx) -> StdResult<Resp> { Ok(Resp {}) }
        #[sv::msg(sudo)]
        fn do_sudo(&self, _ctx: SudoCtx) -> StdResult<Response> { Ok(Response::new()) }
        #[sv::msg(migrate)]
        fn migrate(&self, _ctx: MigrateCtx) -> StdResult<Response> { Ok(Response::new()) }
        #[sv::msg(reply, handlers=[on_done], reply_on=success)]
        fn on_done(&self, _ctx: ReplyCtx, #[sv::payload(raw)] _payload: Binary) -> StdResult<Response> { Ok(Response::new()) }
    }
}

pub mod s_sudo_mr_l {
    use super::*;
    pub mod eps {
        use super::super::*;
        #[sylvia::cw_schema::cw_serde]
        pub struct CustomSudo {}
        pub fn sudo(_deps: DepsMut, _env: Env, _msg: CustomSudo) -> StdResult<Response> { Ok(Response::new()) }
    }

    pub struct Contract;

    #[entry_points]
    #[contract]
    #[sv::override_entry_point(sudo=eps::sudo(eps::CustomSudo))]
    impl Contract {
        pub fn new() -> Self { Self }
        #[sv::msg(instantiate)]
        fn instantiate(&self, _ctx: InstantiateCtx) -> StdResult<Response> { Ok(Response::new()) }
        #[sv::msg(exec)]
        fn do_exec(&self, _ctx: ExecCtx) -> StdResult<Response> { Ok(Response::new()) }
        #[sv::msg(query)]
        fn do_query(&self, _ctx: QueryCtx) -> StdResult<Resp> { Ok(Resp {}) }
        #[sv::msg(sudo)]
        fn do_sudo(&self, _ctx: SudoCtx) -> StdResult<Response> { Ok(Response::new()) }
        #[sv::msg(migrate)]
        fn migrate(&self, _ctx: MigrateCtx) -> StdResult<Response> { Ok(Response::new()) }
        #[sv::msg(reply)]
        fn reply(&self, _ctx: sylvia::types::ReplyCtx, _msg: Reply) -> StdResult<Response> { Ok(Response::new()) }
    }
}

pub mod s_sudo_nomr_r {
    use super::*;
    pub mod eps {
        use super::super::*;
        #[sylvia::cw_schema::cw_serde]
        pub struct CustomSudo {}
        pub fn sudo(_deps: DepsMut, _env: Env, _msg: CustomSudo) -> StdResult<Response> { Ok(Response::new()) }
    }

    pub struct Contract;

    #[entry_points]
    #[contract]
    #[sv::features(replies)]
    #[sv::override_entry_point(sudo=eps::sudo(eps::CustomSudo))]
    impl Contract {
        pub fn new() -> Self { Self }
        #[sv::msg(instantiate)]
        fn instantiate(&self, _ctx: InstantiateCtx) -> StdResult<Response> { Ok(Response::new()) }
        #[sv::msg(exec)]
        fn do_exec(&self, _ctx: ExecCtx) -> StdResult<Response> { Ok(Response::new()) }
        #[sv::msg(query)]
        fn do_query(&self, _ctx: QueryCtx) -> StdResult<Resp> { Ok(Resp {}) }
        #[sv::msg(sudo)]
        fn do_sudo(&self, _ctx: SudoCtx) -> StdResult<Response> { Ok(Response::new()) }
    }
}

pub mod s_sudo_nomr_l {
    use super::*;
    pub mod eps {
        use super::super::*;
        #[sylvia::cw_schema::cw_serde]
        pub struct CustomSudo {}
        pub fn sudo(_deps: DepsMut, _env: Env, _msg: CustomSudo) -> StdResult<Response> { Ok(Response::new()) }
    }

    pub struct Contract;

    #[entry_points]
    #[contract]
    #[sv::override_entry_point(sudo=eps::sudo(eps::CustomSudo))]
    impl Contract {
        pub fn new() -> Self { Self }
        #[sv::msg(instantiate)]
        fn instantiate(&self, _ctx: InstantiateCtx) -> StdResult<Response> { Ok(Response::new()) }
        #[sv::msg(exec)]
        fn do_exec(&self, _ctx: ExecCtx) -> StdResult<Response> { Ok(Response::new()) }
        #[sv::msg(query)]
        fn do_query(&self, _ctx: QueryCtx) -> StdResult<Resp> { Ok(Resp {}) }
        #[sv::msg(sudo)]
        fn do_sudo(&self, _ctx: SudoCtx) -> StdResult<Response> { Ok(Response::new()) }
    }
}

pub mod s_migr_mr_r {
    use super::*;
    pub mod eps {
        use super::super::*;
        #[sylvia::cw_schema::cw_serde]
        pub struct CustomMigrate {}
        pub fn migrate(_deps: DepsMut, _env: Env, _msg: CustomMigrate) -> StdResult<Response> { Ok(Response::new()) }
    }

    pub struct Contract;

    #[entry_points]
    #[contract]
    #[sv::features(replies)]
    #[sv::override_entry_point(migrate=eps::migrate(eps::CustomMigrate))]
    impl Contract {
        pub fn new() -> Self { Self }
        #[sv::msg(instantiate)]
        fn instantiate(&self, _ctx: InstantiateCtx) -> StdResult<Response> { Ok(Response::new()) }
        #[sv::msg(exec)]
        fn do_exec(&self, _ctx: ExecCtx) -> StdResult<Response> { Ok(Response::new()) }
        #[sv::msg(query)]
        fn do_query(&self, _ctx: QueryCtx) -> StdResult<Resp> { Ok(Resp {}) }
        #[sv::msg(sudo)]
        fn do_sudo(&self, _ctx: SudoCtx) -> StdResult<Response> { Ok(Response::new()) }
        #[sv::msg(migrate)]
        fn migrate(&self, _ctx: MigrateCtx) -> StdResult<Response> { Ok(Response::new()) }
        #[sv::msg(reply, handlers=[on_done], reply_on=success)]
        fn on_done(&self, _ctx: ReplyCtx, #[sv::payload(raw)] _payload: Binary) -> StdResult<Response> { Ok(Response::new()) }
    }
}

pub mod s_migr_mr_l {
    use super::*;
    pub mod eps {
        use super::super::*;
        #[sylvia::cw_schema::cw_serde]
        pub struct CustomMigrate {}
        pub fn migrate(_deps: DepsMut, _env: Env, _msg: CustomMigrate) -> StdResult<Response> { Ok(Response::new()) }
    }

    pub struct Contract;

    #[entry_points]
    #[contract]
    #[sv::override_entry_point(migrate=eps::migrate(eps::CustomMigrate))]
    impl Contract {
        pub fn new() -> Self { Self }
        #[sv::msg(instantiate)]
        fn instantiate(&self, _ctx: InstantiateCtx) -> StdResult<Response> { Ok(Response::new()) }
        #[sv::msg(exec)]
        fn do_exec(&self, _ctx: ExecCtx) -> StdResult<Response> { Ok(Response::new()) }
        #[sv::msg(query)]
        fn do_query(&self, _ctx: QueryCtx) -> StdResult<Resp> { Ok(Resp {}) }
        #[sv::msg(sudo)]
        fn do_sudo(&self, _ctx: SudoCtx) -> StdResult<Response> { Ok(Response::new()) }
        #[sv::msg(migrate)]
        fn migrate(&self, _ctx: MigrateCtx) -> StdResult<Response> { Ok(Response::new()) }
        #[sv::msg(reply)]
        fn reply(&self, _ctx: sylvia::types::ReplyCtx, _msg: Reply) -> StdResult<Response> { Ok(Response::new()) }
    }
}

pub mod s_migr_nomr_r {
    use super::*;
    pub mod eps {
        use super::super::*;
        #[sylvia::cw_schema::cw_serde]
        pub struct CustomMigrate {}
        pub fn migrate(_deps: DepsMut, _env: Env, _msg: CustomMigrate) -> StdResult<Response> { Ok(Response::new()) }
    }

    pub struct Contract;

    #[entry_points]
    #[contract]
    #[sv::features(replies)]
    #[sv::override_entry_point(migrate=eps::migrate(eps::CustomMigrate))]
    impl Contract {
        pub fn new() -> Self { Self }
        #[sv::msg(instantiate)]
        fn instantiate(&self, _ctx: InstantiateCtx) -> StdResult<Response> { Ok(Response::new()) }
        #[sv::msg(exec)]
        fn do_exec(&self, _ctx: ExecCtx) -> StdResult<Response> { Ok(Response::new()) }
        #[sv::msg(query)]
        fn do_query(&self, _ctx: QueryCtx) -> StdResult<Resp> { Ok(Resp {}) }
        #[sv::msg(sudo)]
        fn do_sudo(&self, _ctx: SudoCtx) -> StdResult<Response> { Ok(Response::new()) }
    }
}

pub mod s_migr_nomr_l {
    use super::*;
    pub mod eps {
        use super::super::*;
        #[sylvia::cw_schema::cw_serde]
        pub struct CustomMigrate {}
        pub fn migrate(_deps: DepsMut, _env: Env, _msg: CustomMigrate) -> StdResult<Response> { Ok(Response::new()) }
    }

    pub struct Contract;

    #[entry_points]
    #[contract]
    #[sv::override_entry_point(migrate=eps::migrate(eps::CustomMigrate))]
    impl Contract {
        pub fn new() -> Self { Self }
        #[sv::msg(instantiate)]
        fn instantiate(&self, _ctx: InstantiateCtx) -> StdResult<Response> { Ok(Response::new()) }
        #[sv::msg(exec)]
        fn do_exec(&self, _ctx: ExecCtx) -> StdResult<Response> { Ok(Response::new()) }
        #[sv::msg(query)]
        fn do_query(&self, _ctx: QueryCtx) -> StdResult<Resp> { Ok(Resp {}) }
        #[sv::msg(sudo)]
        fn do_sudo(&self, _ctx: SudoCtx) -> StdResult<Response> { Ok(Response::new()) }
    }
}

pub mod s_repl_mr_r {
    use super::*;
    pub mod eps {
        use super::super::*;

        pub fn reply(_deps: DepsMut, _env: Env, _msg: Reply) -> StdResult<Response> { Ok(Response::new()) }
    }

    pub struct Contract;

    #[entry_points]
    #[contract]
    #[sv::features(replies)]
    #[sv::override_entry_point(reply=eps::reply(sylvia::cw_std::Reply))]
    impl Contract {
        pub fn new() -> Self { Self }
        #[sv::msg(instantiate)]
        fn instantiate(&self, _ctx: InstantiateCtx) -> StdResult<Response> { Ok(Response::new()) }
        #[sv::msg(exec)]
        fn do_exec(&self, _ctx: ExecCtx) -> StdResult<Response> { Ok(Response::new()) }
        #[sv::msg(query)]
        fn do_query(&self, _ctx: QueryCtx) -> StdResult<Resp> { Ok(Resp {}) }
        #[sv::msg(sudo)]
        fn do_sudo(&self, _ctx: SudoCtx) -> StdResult<Response> { Ok(Response::new()) }
        #[sv::msg(migrate)]
        fn migrate(&self, _ctx: MigrateCtx) -> StdResult<Response> { Ok(Response::new()) }
        #[sv::msg(reply, handlers=[on_done], reply_on=success)]
        fn on_done(&self, _ctx: ReplyCtx, #[sv::payload(raw)] _payload: Binary) -> StdResult<Response> { Ok(Response::new()) }
    }
}

pub mod s_repl_mr_l {
    use super::*;
    pub mod eps {
        use super::super::*;

        pub fn reply(_deps: DepsMut, _env: Env, _msg: Reply) -> StdResult<Response> { Ok(Response::new()) }
    }

    pub struct Contract;

    #[entry_points]
    #[contract]
    #[sv::override_entry_point(reply=eps::reply(sylvia::cw_std::Reply))]
    impl Contract {
        pub fn new() -> Self { Self }
        #[sv::msg(instantiate)]
        fn instantiate(&self, _ctx: InstantiateCtx) -> StdResult<Response> { Ok(Response::new()) }
        #[sv::msg(exec)]
        fn do_exec(&self, _ctx: ExecCtx) -> StdResult<Response> { Ok(Response::new()) }
        #[sv::msg(query)]
        fn do_query(&self, _ctx: QueryCtx) -> StdResult<Resp> { Ok(Resp {}) }
        #[sv::msg(sudo)]
        fn do_sudo(&self, _ctx: SudoCtx) -> StdResult<Response> { Ok(Response::new()) }
        #[sv::msg(migrate)]
        fn migrate(&self, _ctx: MigrateCtx) -> StdResult<Response> { Ok(Response::new()) }
        #[sv::msg(reply)]
        fn reply(&self, _ctx: sylvia::types::ReplyCtx, _msg: Reply) -> StdResult<Response> { Ok(Response::new()) }
    }
}

pub mod s_repl_nomr_r {
    use super::*;
    pub mod eps {
        use super::super::*;

        pub fn reply(_deps: DepsMut, _env: Env, _msg: Reply) -> StdResult<Response> { Ok(Response::new()) }
    }

    pub struct Contract;

    #[entry_points]
    #[contract]
    #[sv::features(replies)]
    #[sv::override_entry_point(reply=eps::reply(sylvia::cw_std::Reply))]
    impl Contract {
        pub fn new() -> Self { Self }
        #[sv::msg(instantiate)]
        fn instantiate(&self, _ctx: InstantiateCtx) -> StdResult<Response> { Ok(Response::new()) }
        #[sv::msg(exec)]
        fn do_exec(&self, _ctx: ExecCtx) -> StdResult<Response> { Ok(Response::new()) }
        #[sv::msg(query)]
        fn do_query(&self, _ctx: QueryCtx) -> StdResult<Resp> { Ok(Resp {}) }
        #[sv::msg(sudo)]
        fn do_sudo(&self, _ctx: SudoCtx) -> StdResult<Response> { Ok(Response::new()) }
    }
}

pub mod s_repl_nomr_l {
    use super::*;
    pub mod eps {
        use super::super::*;

        pub fn reply(_deps: DepsMut, _env: Env, _msg: Reply) -> StdResult<Response> { Ok(Response::new()) }
    }

    pub struct Contract;

    #[entry_points]
    #[contract]
    #[sv::override_entry_point(reply=eps::reply(sylvia::cw_std::Reply))]
    impl Contract {
        pub fn new() -> Self { Self }
        #[sv::msg(instantiate)]
        fn instantiate(&self, _ctx: InstantiateCtx) -> StdResult<Response> { Ok(Response::new()) }
        #[sv::msg(exec)]
        fn do_exec(&self, _ctx: ExecCtx) -> StdResult<Response> { Ok(Response::new()) }
        #[sv::msg(query)]
        fn do_query(&self, _ctx: QueryCtx) -> StdResult<Resp> { Ok(Resp {}) }
        #[sv::msg(sudo)]
        fn do_sudo(&self, _ctx: SudoCtx) -> StdResult<Response> { Ok(Response::new()) }
    }
}

pub mod s_inst_exec_mr_r {
    use super::*;
    pub mod eps {
        use super::super::*;
        #[sylvia::cw_schema::cw_serde]
        pub struct CustomInstantiate {}
        #[sylvia::cw_schema::cw_serde]
        pub struct CustomExec {}
        pub fn instantiate(_deps: DepsMut, _env: Env, _info: MessageInfo, _msg: CustomInstantiate) -> StdResult<Response> { Ok(Response::new()) }
        pub fn execute(_deps: DepsMut, _env: Env, _info: MessageInfo, _msg: CustomExec) -> StdResult<Response> { Ok(Response::new()) }
    }

    pub struct Contract;

    #[entry_points]
    #[contract]
    #[sv::features(replies)]
    #[sv::override_entry_point(instantiate=eps::instantiate(eps::CustomInstantiate))]
    #[sv::override_entry_point(exec=eps::execute(eps::CustomExec))]
    impl Contract {
        pub fn new() -> Self { Self }
        #[sv::msg(instantiate)]
        fn instantiate(&self, _ctx: InstantiateCtx) -> StdResult<Response> { Ok(Response::new()) }
        #[sv::msg(exec)]
        fn do_exec(&self, _ctx: ExecCtx) -> StdResult<Response> { Ok(Response::new()) }
        #[sv::msg(query)]
        fn do_query(&self, _ctx: QueryCtx) -> StdResult<Resp> { Ok(Resp {}) }
        #[sv::msg(sudo)]
        fn do_sudo(&self, _ctx: SudoCtx) -> StdResult<Response> { Ok(Response::new()) }
        #[sv::msg(migrate)]
        fn migrate(&self, _ctx: MigrateCtx) -> StdResult<Response> { Ok(Response::new()) }
        #[sv::msg(reply, handlers=[on_done], reply_on=success)]
        fn on_done(&self, _ctx: ReplyCtx, #[sv::payload(raw)] _payload: Binary) -> StdResult<Response> { Ok(Response::new()) }
    }
}

pub mod s_inst_exec_mr_l {
    use super::*;
    pub mod eps {
        use super::super::*;
        #[sylvia::cw_schema::cw_serde]
        pub struct CustomInstantiate {}
        #[sylvia::cw_schema::cw_serde]
        pub struct CustomExec {}
        pub fn instantiate(_deps: DepsMut, _env: Env, _info: MessageInfo, _msg: CustomInstantiate) -> StdResult<Response> { Ok(Response::new()) }
        pub fn execute(_deps: DepsMut, _env: Env, _info: MessageInfo, _msg: CustomExec) -> StdResult<Response> { Ok(Response::new()) }
    }

    pub struct Contract;

    #[entry_points]
    #[contract]
    #[sv::override_entry_point(instantiate=eps::instantiate(eps::CustomInstantiate))]
    #[sv::override_entry_point(exec=eps::execute(eps::CustomExec))]
    impl Contract {
        pub fn new() -> Self { Self }
        #[sv::msg(instantiate)]
        fn instantiate(&self, _ctx: InstantiateCtx) -> StdResult<Response> { Ok(Response::new()) }
        #[sv::msg(exec)]
        fn do_exec(&self, _ctx: ExecCtx) -> StdResult<Response> { Ok(Response::new()) }
        #[sv::msg(query)]
        fn do_query(&self, _ctx: QueryCtx) -> StdResult<Resp> { Ok(Resp {}) }
        #[sv::msg(sudo)]
        fn do_sudo(&self, _ctx: SudoCtx) -> StdResult<Response> { Ok(Response::new()) }
        #[sv::msg(migrate)]
        fn migrate(&self, _ctx: MigrateCtx) -> StdResult<Response> { Ok(Response::new()) }
        #[sv::msg(reply)]
        fn reply(&self, _ctx: sylvia::types::ReplyCtx, _msg: Reply) -> StdResult<Response> { Ok(Response::new()) }
    }
}

pub mod s_inst_exec_nomr_r {
    use super::*;
    pub mod eps {
        use super::super::*;
        #[sylvia::cw_schema::cw_serde]
        pub struct CustomInstantiate {}
        #[sylvia::cw_schema::cw_serde]
        pub struct CustomExec {}
        pub fn instantiate(_deps: DepsMut, _env: Env, _info: MessageInfo, _msg: CustomInstantiate) -> StdResult<Response> { Ok(Response::new()) }
        pub fn execute(_deps: DepsMut, _env: Env, _info: MessageInfo, _msg: CustomExec) -> StdResult<Response> { Ok(Response::new()) }
    }

    pub struct Contract;

    #[entry_points]
    #[contract]
    #[sv::features(replies)]
    #[sv::override_entry_point(instantiate=eps::instantiate(eps::CustomInstantiate))]
    #[sv::override_entry_point(exec=eps::execute(eps::CustomExec))]
    impl Contract {
        pub fn new() -> Self { Self }
        #[sv::msg(instantiate)]
        fn instantiate(&self, _ctx: InstantiateCtx) -> StdResult<Response> { Ok(Response::new()) }
        #[sv::msg(exec)]
        fn do_exec(&self, _ctx: ExecCtx) -> StdResult<Response> { Ok(Response::new()) }
        #[sv::msg(query)]
        fn do_query(&self, _ctx: QueryCtx) -> StdResult<Resp> { Ok(Resp {}) }
        #[sv::msg(sudo)]
        fn do_sudo(&self, _ctx: SudoCtx) -> StdResult<Response> { Ok(Response::new()) }
    }
}

pub mod s_inst_exec_nomr_l {
    use super::*;
    pub mod eps {
        use super::super::*;
        #[sylvia::cw_schema::cw_serde]
        pub struct CustomInstantiate {}
        #[sylvia::cw_schema::cw_serde]
        pub struct CustomExec {}
        pub fn instantiate(_deps: DepsMut, _env: Env, _info: MessageInfo, _msg: CustomInstantiate) -> StdResult<Response> { Ok(Response::new()) }
        pub fn execute(_deps: DepsMut, _env: Env, _info: MessageInfo, _msg: CustomExec) -> StdResult<Response> { Ok(Response::new()) }
    }

    pub struct Contract;

    #[entry_points]
    #[contract]
    #[sv::override_entry_point(instantiate=eps::instantiate(eps::CustomInstantiate))]
    #[sv::override_entry_point(exec=eps::execute(eps::CustomExec))]
    impl Contract {
        pub fn new() -> Self { Self }
        #[sv::msg(instantiate)]
        fn instantiate(&self, _ctx: InstantiateCtx) -> StdResult<Response> { Ok(Response::new()) }
        #[sv::msg(exec)]
        fn do_exec(&self, _ctx: ExecCtx) -> StdResult<Response> { Ok(Response::new()) }
        #[sv::msg(query)]
        fn do_query(&self, _ctx: QueryCtx) -> StdResult<Resp> { Ok(Resp {}) }
        #[sv::msg(sudo)]
        fn do_sudo(&self, _ctx: SudoCtx) -> StdResult<Response> { Ok(Response::new()) }
    }
}

pub mod s_inst_quer_mr_r {
    use super::*;
    pub mod eps {
        use super::super::*;
        #[sylvia::cw_schema::cw_serde]
        pub struct CustomInstantiate {}
        #[sylvia::cw_schema::cw_serde]
        pub struct CustomQuery {}
        pub fn instantiate(_deps: DepsMut, _env: Env, _info: MessageInfo, _msg: CustomInstantiate) -> StdResult<Response> { Ok(Response::new()) }
        pub fn query(_deps: Deps, _env: Env, _msg: CustomQuery) -> StdResult<Binary> { Ok(Binary::default()) }
    }

    pub struct Contract;

    #[entry_points]
    #[contract]
    #[sv::features(replies)]
    #[sv::override_entry_point(instantiate=eps::instantiate(eps::CustomInstantiate))]
    #[sv::override_entry_point(query=eps::query(eps::CustomQuery))]
    impl Contract {
        pub fn new() -> Self { Self }
        #[sv::msg(instantiate)]
        fn instantiate(&self, _ctx: InstantiateCtx) -> StdResult<Response> { Ok(Response::new()) }
        #[sv::msg(exec)]
        fn do_exec(&self, _ctx: ExecCtx) -> StdResult<Response> { Ok(Response::new()) }
        #[sv::msg(query)]
        fn do_query(&self, _ctx: QueryCtx) -> StdResult<Resp> { Ok(Resp {}) }
        #[sv::msg(sudo)]
        fn do_sudo(&self, _ctx: SudoCtx) -> StdResult<Response> { Ok(Response::new()) }
        #[sv::msg(migrate)]
        fn migrate(&self, _ctx: MigrateCtx) -> StdResult<Response> { Ok(Response::new()) }
        #[sv::msg(reply, handlers=[on_done], reply_on=success)]
        fn on_done(&self, _ctx: ReplyCtx, #[sv::payload(raw)] _payload: Binary) -> StdResult<Response> { Ok(Response::new()) }
    }
}

pub mod s_inst_quer_mr_l {
    use super::*;
    pub mod eps {
        use super::super::*;
        #[sylvia::cw_schema::cw_serde]
        pub struct CustomInstantiate {}
        #[sylvia::cw_schema::cw_serde]
        pub struct CustomQuery {}
        pub fn instantiate(_deps: DepsMut, _env: Env, _info: MessageInfo, _msg: CustomInstantiate) -> StdResult<Response> { Ok(Response::new()) }
        pub fn query(_deps: Deps, _env: Env, _msg: CustomQuery) -> StdResult<Binary> { Ok(Binary::default()) }
    }

    pub struct Contract;

    #[entry_points]
    #[contract]
    #[sv::override_entry_point(instantiate=eps::instantiate(eps::CustomInstantiate))]
    #[sv::override_entry_point(query=eps::query(eps::CustomQuery))]
    impl Contract {
        pub fn new() -> Self { Self }
        #[sv::msg(instantiate)]
        fn instantiate(&self, _ctx: InstantiateCtx) -> StdResult<Response> { Ok(Response::new()) }
        #[sv::msg(exec)]
        fn do_exec(&self, _ctx: ExecCtx) -> StdResult<Response> { Ok(Response::new()) }
        #[sv::msg(query)]
        fn do_query(&self, _ctx: QueryCtx) -> StdResult<Resp> { Ok(Resp {}) }
        #[sv::msg(sudo)]
        fn do_sudo(&self, _ctx: SudoCtx) -> StdResult<Response> { Ok(Response::new()) }
        #[sv::msg(migrate)]
        fn migrate(&self, _ctx: MigrateCtx) -> StdResult<Response> { Ok(Response::new()) }
        #[sv::msg(reply)]
        fn reply(&self, _ctx: sylvia::types::ReplyCtx, _msg: Reply) -> StdResult<Response> { Ok(Response::new()) }
    }
}

pub mod s_inst_quer_nomr_r {
    use super::*;
    pub mod eps {
        use super::super::*;
        #[sylvia::cw_schema::cw_serde]
        pub struct CustomInstantiate {}
        #[sylvia::cw_schema::cw_serde]
        pub struct CustomQuery {}
        pub fn instantiate(_deps: DepsMut, _env: Env, _info: MessageInfo, _msg: CustomInstantiate) -> StdResult<Response> { Ok(Response::new()) }
        pub fn query(_deps: Deps, _env: Env, _msg: CustomQuery) -> StdResult<Binary> { Ok(Binary::default()) }
    }

    pub struct Contract;

    #[entry_points]
    #[contract]
    #[sv::features(replies)]
    #[sv::override_entry_point(instantiate=eps::instantiate(eps::CustomInstantiate))]
    #[sv::override_entry_point(query=eps::query(eps::CustomQuery))]
    impl Contract {
        pub fn new() -> Self { Self }
        #[sv::msg(instantiate)]
        fn instantiate(&self, _ctx: InstantiateCtx) -> StdResult<Response> { Ok(Response::new()) }
        #[sv::msg(exec)]
        fn do_exec(&self, _ctx: ExecCtx) -> StdResult<Response> { Ok(Response::new()) }
        #[sv::msg(query)]
        fn do_query(&self, _ctx: QueryCtx) -> StdResult<Resp> { Ok(Resp {}) }
        #[sv::msg(sudo)]
        fn do_sudo(&self, _ctx: SudoCtx) -> StdResult<Response> { Ok(Response::new()) }
    }
}

pub mod s_inst_quer_nomr_l {
    use super::*;
    pub mod eps {
        use super::super::*;
        #[sylvia::cw_schema::cw_serde]
        pub struct CustomInstantiate {}
        #[sylvia::cw_schema::cw_serde]
        pub struct CustomQuery {}
        pub fn instantiate(_deps: DepsMut, _env: Env, _info: MessageInfo, _msg: CustomInstantiate) -> StdResult<Response> { Ok(Response::new()) }
        pub fn query(_deps: Deps, _env: Env, _msg: CustomQuery) -> StdResult<Binary> { Ok(Binary::default()) }
    }

    pub struct Contract;

    #[entry_points]
    #[contract]
    #[sv::override_entry_point(instantiate=eps::instantiate(eps::CustomInstantiate))]
    #[sv::override_entry_point(query=eps::query(eps::CustomQuery))]
    impl Contract {
        pub fn new() -> Self { Self }
        #[sv::msg(instantiate)]
        fn instantiate(&self, _ctx: InstantiateCtx) -> StdResult<Response> { Ok(Response::new()) }
        #[sv::msg(exec)]
        fn do_exec(&self, _ctx: ExecCtx) -> StdResult<Response> { Ok(Response::new()) }
        #[sv::msg(query)]
        fn do_query(&self, _ctx: QueryCtx) -> StdResult<Resp> { Ok(Resp {}) }
        #[sv::msg(sudo)]
        fn do_sudo(&self, _ctx: SudoCtx) -> StdResult<Response> { Ok(Response::new()) }
    }
}

pub mod s_inst_sudo_mr_r {
    use super::*;
    pub mod eps {
        use super::super::*;
        #[sylvia::cw_schema::cw_serde]
        pub struct CustomInstantiate {}
        #[sylvia::cw_schema::cw_serde]
        pub struct CustomSudo {}
        pub fn instantiate(_deps: DepsMut, _env: Env, _info: MessageInfo, _msg: CustomInstantiate) -> StdResult<Response> { Ok(Response::new()) }
        pub fn sudo(_deps: DepsMut, _env: Env, _msg: CustomSudo) -> StdResult<Response> { Ok(Response::new()) }
    }

    pub struct Contract;

    #[entry_points]
    #[contract]
    #[sv::features(replies)]
    #[sv::override_entry_point(instantiate=eps::instantiate(eps::CustomInstantiate))]
    #[sv::override_entry_point(sudo=eps::sudo(eps::CustomSudo))]
    impl Contract {
        pub fn new() -> Self { Self }
        #[sv::msg(instantiate)]
        fn instantiate(&self, _ctx: InstantiateCtx) -> StdResult<Response> { Ok(Response::new()) }
        #[sv::msg(exec)]
        fn do_exec(&self, _ctx: ExecCtx) -> StdResult<Response> { Ok(Response::new()) }
        #[sv::msg(query)]
        fn do_query(&self, _ctx: QueryCtx) -> StdResult<Resp> { Ok(Resp {}) }
        #[sv::msg(sudo)]
        fn do_sudo(&self, _ctx: SudoCtx) -> StdResult<Response> { Ok(Response::new()) }
        #[sv::msg(migrate)]
        fn migrate(&self, _ctx: MigrateCtx) -> StdResult<Response> { Ok(Response::new()) }
        #[sv::msg(reply, handlers=[on_done], reply_on=success)]
        fn on_done(&self, _ctx: ReplyCtx, #[sv::payload(raw)] _payload: Binary) -> StdResult<Response> { Ok(Response::new()) }
    }
}

pub mod s_inst_sudo_mr_l {
    use super::*;
    pub mod eps {
        use super::super::*;
        #[sylvia::cw_schema::cw_serde]
        pub struct CustomInstantiate {}
        #[sylvia::cw_schema::cw_serde]
        pub struct CustomSudo {}
        pub fn instantiate(_deps: DepsMut, _env: Env, _info: MessageInfo, _msg: CustomInstantiate) -> StdResult<Response> { Ok(Response::new()) }
        pub fn sudo(_deps: DepsMut, _env: Env, _msg: CustomSudo) -> StdResult<Response> { Ok(Response::new()) }
    }

    pub struct Contract;

    #[entry_points]
    #[contract]
    #[sv::override_entry_point(instantiate=eps::instantiate(eps::CustomInstantiate))]
    #[sv::override_entry_point(sudo=eps::sudo(eps::CustomSudo))]
    impl Contract {
        pub fn new() -> Self { Self }
        #[sv::msg(instantiate)]
        fn instantiate(&self, _ctx: InstantiateCtx) -> StdResult<Response> { Ok(Response::new()) }
        #[sv::msg(exec)]
        fn do_exec(&self, _ctx: ExecCtx) -> StdResult<Response> { Ok(Response::new()) }
        #[sv::msg(query)]
        fn do_query(&self, _ctx: QueryCtx) -> StdResult<Resp> { Ok(Resp {}) }
        #[sv::msg(sudo)]
        fn do_sudo(&self, _ctx: SudoCtx) -> StdResult<Response> { Ok(Response::new()) }
        #[sv::msg(migrate)]
        fn migrate(&self, _ctx: MigrateCtx) -> StdResult<Response> { Ok(Response::new()) }
        #[sv::msg(reply)]
        fn reply(&self, _ctx: sylvia::types::ReplyCtx, _msg: Reply) -> StdResult<Response> { Ok(Response::new()) }
    }
}

pub mod s_inst_sudo_nomr_r {
    use super::*;
    pub mod eps {
        use super::super::*;
        #[sylvia::cw_schema::cw_serde]
        pub struct CustomInstantiate {}
        #[sylvia::cw_schema::cw_serde]
        pub struct CustomSudo {}
        pub fn instantiate(_deps: DepsMut, _env: Env, _info: MessageInfo, _msg: CustomInstantiate) -> StdResult<Response> { Ok(Response::new()) }
        pub fn sudo(_deps: DepsMut, _env: Env, _msg: CustomSudo) -> StdResult<Response> { Ok(Response::new()) }
    }

    pub struct Contract;

    #[entry_points]
    #[contract]
    #[sv::features(replies)]
    #[sv::override_entry_point(instantiate=eps::instantiate(eps::CustomInstantiate))]
    #[sv::override_entry_point(sudo=eps::sudo(eps::CustomSudo))]
    impl Contract {
        pub fn new() -> Self { Self }
        #[sv::msg(instantiate)]
        fn instantiate(&self, _ctx: InstantiateCtx) -> StdResult<Response> { Ok(Response::new()) }
        #[sv::msg(exec)]
        fn do_exec(&self, _ctx: ExecCtx) -> StdResult<Response> { Ok(Response::new()) }
        #[sv::msg(query)]
        fn do_query(&self, _ctx: QueryCtx) -> StdResult<Resp> { Ok(Resp {}) }
        #[sv::msg(sudo)]
        fn do_sudo(&self, _ctx: SudoCtx) -> StdResult<Response> { Ok(Response::new()) }
    }
}

pub mod s_inst_sudo_nomr_l {
    use super::*;
    pub mod eps {
        use super::super::*;
        #[sylvia::cw_schema::cw_serde]
        pub struct CustomInstantiate {}
        #[sylvia::cw_schema::cw_serde]
        pub struct CustomSudo {}
        pub fn instantiate(_deps: DepsMut, _env: Env, _info: MessageInfo, _msg: CustomInstantiate) -> StdResult<Response> { Ok(Response::new()) }
        pub fn sudo(_deps: DepsMut, _env: Env, _msg: CustomSudo) -> StdResult<Response> { Ok(Response::new()) }
    }

    pub struct Contract;

    #[entry_points]
    #[contract]
    #[sv::override_entry_point(instantiate=eps::instantiate(eps::CustomInstantiate))]
    #[sv::override_entry_point(sudo=eps::sudo(eps::CustomSudo))]
    impl Contract {
        pub fn new() -> Self { Self }
        #[sv::msg(instantiate)]
        fn instantiate(&self, _ctx: InstantiateCtx) -> StdResult<Response> { Ok(Response::new()) }
        #[sv::msg(exec)]
        fn do_exec(&self, _ctx: ExecCtx) -> StdResult<Response> { Ok(Response::new()) }
        #[sv::msg(query)]
        fn do_query(&self, _ctx: QueryCtx) -> StdResult<Resp> { Ok(Resp {}) }
        #[sv::msg(sudo)]
        fn do_sudo(&self, _ctx: SudoCtx) -> StdResult<Response> { Ok(Response::new()) }
    }
}

pub mod s_inst_migr_mr_r {
    use super::*;
    pub mod eps {
        use super::super::*;
        #[sylvia::cw_schema::cw_serde]
        pub struct CustomInstantiate {}
        #[sylvia::cw_schema::cw_serde]
        pub struct CustomMigrate {}
        pub fn instantiate(_deps: DepsMut, _env: Env, _info: MessageInfo, _msg: CustomInstantiate) -> StdResult<Response> { Ok(Response::new()) }
        pub fn migrate(_deps: DepsMut, _env: Env, _msg: CustomMigrate) -> StdResult<Response> { Ok(Response::new()) }
    }

    pub struct Contract;

    #[entry_points]
    #[contract]
    #[sv::features(replies)]
    #[sv::override_entry_point(instantiate=eps::instantiate(eps::CustomInstantiate))]
    #[sv::override_entry_point(migrate=eps::migrate(eps::CustomMigrate))]
    impl Contract {
        pub fn new() -> Self { Self }
        #[sv::msg(instantiate)]
        fn instantiate(&self, _ctx: InstantiateCtx) -> StdResult<Response> { Ok(Response::new()) }
        #[sv::msg(exec)]
        fn do_exec(&self, _ctx: ExecCtx) -> StdResult<Response> { Ok(Response::new()) }
        #[sv::msg(query)]
        fn do_query(&self, _ctx: QueryCtx) -> StdResult<Resp> { Ok(Resp {}) }
        #[sv::msg(sudo)]
        fn do_sudo(&self, _ctx: SudoCtx) -> StdResult<Response> { Ok(Response::new()) }
        #[sv::msg(migrate)]
        fn migrate(&self, _ctx: MigrateCtx) -> StdResult<Response> { Ok(Response::new()) }
        #[sv::msg(reply, handlers=[on_done], reply_on=success)]
        fn on_done(&self, _ctx: ReplyCtx, #[sv::payload(raw)] _payload: Binary) -> StdResult<Response> { Ok(Response::new()) }
    }
}

pub mod s_inst_migr_mr_l {
    use super::*;
    pub mod eps {
        use super::super::*;
        #[sylvia::cw_schema::cw_serde]
        pub struct CustomInstantiate {}
        #[sylvia::cw_schema::cw_serde]
        pub struct CustomMigrate {}
        pub fn instantiate(_deps: DepsMut, _env: Env, _info: MessageInfo, _msg: CustomInstantiate) -> StdResult<Response> { Ok(Response::new()) }
        pub fn migrate(_deps: DepsMut, _env: Env, _msg: CustomMigrate) -> StdResult<Response> { Ok(Response::new()) }
    }

    pub struct Contract;

    #[entry_points]
    #[contract]
    #[sv::override_entry_point(instantiate=eps::instantiate(eps::CustomInstantiate))]
    #[sv::override_entry_point(migrate=eps::migrate(eps::CustomMigrate))]
    impl Contract {
        pub fn new() -> Self { Self }
        #[sv::msg(instantiate)]
        fn instantiate(&self, _ctx: InstantiateCtx) -> StdResult<Response> { Ok(Response::new()) }
        #[sv::msg(exec)]
        fn do_exec(&self, _ctx: ExecCtx) -> StdResult<Response> { Ok(Response::new()) }
        #[sv::msg(query)]
        fn do_query(&self, _ctx: QueryCtx) -> StdResult<Resp> { Ok(Resp {}) }
        #[sv::msg(sudo)]
        fn do_sudo(&self, _ctx: SudoCtx) -> StdResult<Response> { Ok(Response::new()) }
        #[sv::msg(migrate)]
        fn migrate(&self, _ctx: MigrateCtx) -> StdResult<Response> { Ok(Response::new()) }
        #[sv::msg(reply)]
        fn reply(&self, _ctx: sylvia::types::ReplyCtx, _msg: Reply) -> StdResult<Response> { Ok(Response::new()) }
    }
}

pub mod s_inst_migr_nomr_r {
    use super::*;
    pub mod eps {
        use super::super::*;
        #[sylvia::cw_schema::cw_serde]
        pub struct CustomInstantiate {}
        #[sylvia::cw_schema::cw_serde]
        pub struct CustomMigrate {}
        pub fn instantiate(_deps: DepsMut, _env: Env, _info: MessageInfo, _msg: CustomInstantiate) -> StdResult<Response> { Ok(Response::new()) }
        pub fn migrate(_deps: DepsMut, _env: Env, _msg: CustomMigrate) -> StdResult<Response> { Ok(Response::new()) }
    }

    pub struct Contract;

    #[entry_points]
    #[contract]
    #[sv::features(replies)]
    #[sv::override_entry_point(instantiate=eps::instantiate(eps::CustomInstantiate))]
    #[sv::override_entry_point(migrate=eps::migrate(eps::CustomMigrate))]
    impl Contract {
        pub fn new() -> Self { Self }
        #[sv::msg(instantiate)]
        fn instantiate(&self, _ctx: InstantiateCtx) -> StdResult<Response> { Ok(Response::new()) }
        #[sv::msg(exec)]
        fn do_exec(&self, _ctx: ExecCtx) -> StdResult<Response> { Ok(Response::new()) }
        #[sv::msg(query)]
        fn do_query(&self, _ctx: QueryCtx) -> StdResult<Resp> { Ok(Resp {}) }
        #[sv::msg(sudo)]
        fn do_sudo(&self, _ctx: SudoCtx) -> StdResult<Response> { Ok(Response::new()) }
    }
}

pub mod s_inst_migr_nomr_l {
    use super::*;
    pub mod eps {
        use super::super::*;
        #[sylvia::cw_schema::cw_serde]
        pub struct CustomInstantiate {}
        #[sylvia::cw_schema::cw_serde]
        pub struct CustomMigrate {}
        pub fn instantiate(_deps: DepsMut, _env: Env, _info: MessageInfo, _msg: CustomInstantiate) -> StdResult<Response> { Ok(Response::new()) }
        pub fn migrate(_deps: DepsMut, _env: Env, _msg: CustomMigrate) -> StdResult<Response> { Ok(Response::new()) }
    }

    pub struct Contract;

    #[entry_points]
    #[contract]
    #[sv::override_entry_point(instantiate=eps::instantiate(eps::CustomInstantiate))]
    #[sv::override_entry_point(migrate=eps::migrate(eps::CustomMigrate))]
    impl Contract {
        pub fn new() -> Self { Self }
        #[sv::msg(instantiate)]
        fn instantiate(&self, _ctx: InstantiateCtx) -> StdResult<Response> { Ok(Response::new()) }
        #[sv::msg(exec)]
        fn do_exec(&self, _ctx: ExecCtx) -> StdResult<Response> { Ok(Response::new()) }
        #[sv::msg(query)]
        fn do_query(&self, _ctx: QueryCtx) -> StdResult<Resp> { Ok(Resp {}) }
        #[sv::msg(sudo)]
        fn do_sudo(&self, _ctx: SudoCtx) -> StdResult<Response> { Ok(Response::new()) }
    }
}

pub mod s_inst_repl_mr_r {
    use super::*;
    pub mod eps {
        use super::super::*;
        #[sylvia::cw_schema::cw_serde]
        pub struct CustomInstantiate {}
        pub fn instantiate(_deps: DepsMut, _env: Env, _info: MessageInfo, _msg: CustomInstantiate) -> StdResult<Response> { Ok(Response::new()) }
        pub fn reply(_deps: DepsMut, _env: Env, _msg: Reply) -> StdResult<Response> { Ok(Response::new()) }
    }

    pub struct Contract;

    #[entry_points]
    #[contract]
    #[sv::features(replies)]
    #[sv::override_entry_point(instantiate=eps::instantiate(eps::CustomInstantiate))]
    #[sv::override_entry_point(reply=eps::reply(sylvia::cw_std::Reply))]
    impl Contract {
        pub fn new() -> Self { Self }
        #[sv::msg(instantiate)]
        fn instantiate(&self, _ctx: InstantiateCtx) -> StdResult<Response> { Ok(Response::new()) }
        #[sv::msg(exec)]
        fn do_exec(&self, _ctx: ExecCtx) -> StdResult<Response> { Ok(Response::new()) }
        #[sv::msg(query)]
        fn do_query(&self, _ctx: QueryCtx) -> StdResult<Resp> { Ok(Resp {}) }
        #[sv::msg(sudo)]
        fn do_sudo(&self, _ctx: SudoCtx) -> StdResult<Response> { Ok(Response::new()) }
        #[sv::msg(migrate)]
        fn migrate(&self, _ctx: MigrateCtx) -> StdResult<Response> { Ok(Response::new()) }
        #[sv::msg(reply, handlers=[on_done], reply_on=success)]
        fn on_done(&self, _ctx: ReplyCtx, #[sv::payload(raw)] _payload: Binary) -> StdResult<Response> { Ok(Response::new()) }
    }
}

pub mod s_inst_repl_mr_l {
    use super::*;
    pub mod eps {
        use super::super::*;
        #[sylvia::cw_schema::cw_serde]
        pub struct CustomInstantiate {}
        pub fn instantiate(_deps: DepsMut, _env: Env, _info: MessageInfo, _msg: CustomInstantiate) -> StdResult<Response> { Ok(Response::new()) }
        pub fn reply(_deps: DepsMut, _env: Env, _msg: Reply) -> StdResult<Response> { Ok(Response::new()) }
    }

    pub struct Contract;

    #[entry_points]
    #[contract]
    #[sv::override_entry_point(instantiate=eps::instantiate(eps::CustomInstantiate))]
    #[sv::override_entry_point(reply=eps::reply(sylvia::cw_std::Reply))]
    impl Contract {
        pub fn new() -> Self { Self }
        #[sv::msg(instantiate)]
        fn instantiate(&self, _ctx: InstantiateCtx) -> StdResult<Response> { Ok(Response::new()) }
        #[sv::msg(exec)]
        fn do_exec(&self, _ctx: ExecCtx) -> StdResult<Response> { Ok(Response::new()) }
        #[sv::msg(query)]
        fn do_query(&self, _ctx: QueryCtx) -> StdResult<Resp> { Ok(Resp {}) }
        #[sv::msg(sudo)]
        fn do_sudo(&self, _ctx: SudoCtx) -> StdResult<Response> { Ok(Response::new()) }
        #[sv::msg(migrate)]
        fn migrate(&self, _ctx: MigrateCtx) -> StdResult<Response> { Ok(Response::new()) }
        #[sv::msg(reply)]
        fn reply(&self, _ctx: sylvia::types::ReplyCtx, _msg: Reply) -> StdResult<Response> { Ok(Response::new()) }
    }
}

pub mod s_inst_repl_nomr_r {
    use super::*;
    pub mod eps {
        use super::super::*;
        #[sylvia::cw_schema::cw_serde]
        pub struct CustomInstantiate {}
        pub fn instantiate(_deps: DepsMut, _env: Env, _info: MessageInfo, _msg: CustomInstantiate) -> StdResult<Response> { Ok(Response::new()) }
        pub fn reply(_deps: DepsMut, _env: Env, _msg: Reply) -> StdResult<Response> { Ok(Response::new()) }
    }

    pub struct Contract;

    #[entry_points]
    #[contract]
    #[sv::features(replies)]
    #[sv::override_entry_point(instantiate=eps::instantiate(eps::CustomInstantiate))]
    #[sv::override_entry_point(reply=eps::reply(sylvia::cw_std::Reply))]
    impl Contract {
        pub fn new() -> Self { Self }
        #[sv::msg(instantiate)]
        fn instantiate(&self, _ctx: InstantiateCtx) -> StdResult<Response> { Ok(Response::new()) }
        #[sv::msg(exec)]
        fn do_exec(&self, _ctx: ExecCtx) -> StdResult<Response> { Ok(Response::new()) }
        #[sv::msg(query)]
        fn do_query(&self, _ctx: QueryCtx) -> StdResult<Resp> { Ok(Resp {}) }
        #[sv::msg(sudo)]
        fn do_sudo(&self, _ctx: SudoCtx) -> StdResult<Response> { Ok(Response::new()) }
    }
}

pub mod s_inst_repl_nomr_l {
    use super::*;
    pub mod eps {
        use super::super::*;
        #[sylvia::cw_schema::cw_serde]
        pub struct CustomInstantiate {}
        pub fn instantiate(_deps: DepsMut, _env: Env, _info: MessageInfo, _msg: CustomInstantiate) -> StdResult<Response> { Ok(Response::new()) }
        pub fn reply(_deps: DepsMut, _env: Env, _msg: Reply) -> StdResult<Response> { Ok(Response::new()) }
    }

    pub struct Contract;

    #[entry_points]
    #[contract]
    #[sv::override_entry_point(instantiate=eps::instantiate(eps::CustomInstantiate))]
    #[sv::override_entry_point(reply=eps::reply(sylvia::cw_std::Reply))]
    impl Contract {
        pub fn new() -> Self { Self }
        #[sv::msg(instantiate)]
        fn instantiate(&self, _ctx: InstantiateCtx) -> StdResult<Response> { Ok(Response::new()) }
        #[sv::msg(exec)]
        fn do_exec(&self, _ctx: ExecCtx) -> StdResult<Response> { Ok(Response::new()) }
        #[sv::msg(query)]
        fn do_query(&self, _ctx: QueryCtx) -> StdResult<Resp> { Ok(Resp {}) }
        #[sv::msg(sudo)]
        fn do_sudo(&self, _ctx: SudoCtx) -> StdResult<Response> { Ok(Response::new()) }
    }
}

pub mod s_exec_quer_mr_r {
    use super::*;
    pub mod eps {
        use super::super::*;
        #[sylvia::cw_schema::cw_serde]
        pub struct CustomExec {}
        #[sylvia::cw_schema::cw_serde]
        pub struct CustomQuery {}
        pub fn execute(_deps: DepsMut, _env: Env, _info: MessageInfo, _msg: CustomExec) -> StdResult<Response> { Ok(Response::new()) }
        pub fn query(_deps: Deps, _env: Env, _msg: CustomQuery) -> StdResult<Binary> { Ok(Binary::default()) }
    }

    pub struct Contract;

    #[entry_points]
    #[contract]
    #[sv::features(replies)]
    #[sv::override_entry_point(exec=eps::execute(eps::CustomExec))]
    #[sv::override_entry_point(query=eps::query(eps::CustomQuery))]
    impl Contract {
        pub fn new() -> Self { Self }
        #[sv::msg(instantiate)]
        fn instantiate(&self, _ctx: InstantiateCtx) -> StdResult<Response> { Ok(Response::new()) }
        #[sv::msg(exec)]
        fn do_exec(&self, _ctx: ExecCtx) -> StdResult<Response> { Ok(Response::new()) }
        #[sv::msg(query)]
        fn do_query(&self, _ctx: QueryCtx) -> StdResult<Resp> { Ok(Resp {}) }
        #[sv::msg(sudo)]
        fn do_sudo(&self, _ctx: SudoCtx) -> StdResult<Response> { Ok(Response::new()) }
        #[sv::msg(migrate)]
        fn migrate(&self, _ctx: MigrateCtx) -> StdResult<Response> { Ok(Response::new()) }
        #[sv::msg(reply, handlers=[on_done], reply_on=success)]
        fn on_done(&self, _ctx: ReplyCtx, #[sv::payload(raw)] _payload: Binary) -> StdResult<Response> { Ok(Response::new()) }
    }
}

pub mod s_exec_quer_mr_l {
    use super::*;
    pub mod eps {
        use super::super::*;
        #[sylvia::cw_schema::cw_serde]
        pub struct CustomExec {}
        #[sylvia::cw_schema::cw_serde]
        pub struct CustomQuery {}
        pub fn execute(_deps: DepsMut, _env: Env, _info: MessageInfo, _msg: CustomExec) -> StdResult<Response> { Ok(Response::new()) }
        pub fn query(_deps: Deps, _env: Env, _msg: CustomQuery) -> StdResult<Binary> { Ok(Binary::default()) }
    }

    pub struct Contract;

    #[entry_points]
    #[contract]
    #[sv::override_entry_point(exec=eps::execute(eps::CustomExec))]
    #[sv::override_entry_point(query=eps::query(eps::CustomQuery))]
    impl Contract {
        pub fn new() -> Self { Self }
        #[sv::msg(instantiate)]
        fn instantiate(&self, _ctx: InstantiateCtx) -> StdResult<Response> { Ok(Response::new()) }
        #[sv::msg(exec)]
        fn do_exec(&self, _ctx: ExecCtx) -> StdResult<Response> { Ok(Response::new()) }
        #[sv::msg(query)]
        fn do_query(&self, _ctx: QueryCtx) -> StdResult<Resp> { Ok(Resp {}) }
        #[sv::msg(sudo)]
        fn do_sudo(&self, _ctx: SudoCtx) -> StdResult<Response> { Ok(Response::new()) }
        #[sv::msg(migrate)]
        fn migrate(&self, _ctx: MigrateCtx) -> StdResult<Response> { Ok(Response::new()) }
        #[sv::msg(reply)]
        fn reply(&self, _ctx: sylvia::types::ReplyCtx, _msg: Reply) -> StdResult<Response> { Ok(Response::new()) }
    }
}

pub mod s_exec_quer_nomr_r {
    use super::*;
    pub mod eps {
        use super::super::*;
        #[sylvia::cw_schema::cw_serde]
        pub struct CustomExec {}
        #[sylvia::cw_schema::cw_serde]
        pub struct CustomQuery {}
        pub fn execute(_deps: DepsMut, _env: Env, _info: MessageInfo, _msg: CustomExec) -> StdResult<Response> { Ok(Response::new()) }
        pub fn query(_deps: Deps, _env: Env, _msg: CustomQuery) -> StdResult<Binary> { Ok(Binary::default()) }
    }

    pub struct Contract;

    #[entry_points]
    #[contract]
    #[sv::features(replies)]
    #[sv::override_entry_point(exec=eps::execute(eps::CustomExec))]
    #[sv::override_entry_point(query=eps::query(eps::CustomQuery))]
    impl Contract {
        pub fn new() -> Self { Self }
        #[sv::msg(instantiate)]
        fn instantiate(&self, _ctx: InstantiateCtx) -> StdResult<Response> { Ok(Response::new()) }
        #[sv::msg(exec)]
        fn do_exec(&self, _ctx: ExecCtx) -> StdResult<Response> { Ok(Response::new()) }
        #[sv::msg(query)]
        fn do_query(&self, _ctx: QueryCtx) -> StdResult<Resp> { Ok(Resp {}) }
        #[sv::msg(sudo)]
        fn do_sudo(&self, _ctx: SudoCtx) -> StdResult<Response> { Ok(Response::new()) }
    }
}

pub mod s_exec_quer_nomr_l {
    use super::*;
    pub mod eps {
        use super::super::*;
        #[sylvia::cw_schema::cw_serde]
        pub struct CustomExec {}
        #[sylvia::cw_schema::cw_serde]
        pub struct CustomQuery {}
        pub fn execute(_deps: DepsMut, _env: Env, _info: MessageInfo, _msg: CustomExec) -> StdResult<Response> { Ok(Response::new()) }
        pub fn query(_deps: Deps, _env: Env, _msg: CustomQuery) -> StdResult<Binary> { Ok(Binary::default()) }
    }

    pub struct Contract;

    #[entry_points]
    #[contract]
    #[sv::override_entry_point(exec=eps::execute(eps::CustomExec))]
    #[sv::override_entry_point(query=eps::query(eps::CustomQuery))]
    impl Contract {
        pub fn new() -> Self { Self }
        #[sv::msg(instantiate)]
        fn instantiate(&self, _ctx: InstantiateCtx) -> StdResult<Response> { Ok(Response::new()) }
        #[sv::msg(exec)]
        fn do_exec(&self, _ctx: ExecCtx) -> StdResult<Response> { Ok(Response::new()) }
        #[sv::msg(query)]
        fn do_query(&self, _ctx: QueryCtx) -> StdResult<Resp> { Ok(Resp {}) }
        #[sv::msg(sudo)]
        fn do_sudo(&self, _ctx: SudoCtx) -> StdResult<Response> { Ok(Response::new()) }
    }
}

pub mod s_exec_sudo_mr_r {
    use super::*;
    pub mod eps {
        use super::super::*;
        #[sylvia::cw_schema::cw_serde]
        pub struct CustomExec {}
        #[sylvia::cw_schema::cw_serde]
        pub struct CustomSudo {}
        pub fn execute(_deps: DepsMut, _env: Env, _info: MessageInfo, _msg: CustomExec) -> StdResult<Response> { Ok(Response::new()) }
        pub fn sudo(_deps: DepsMut, _env: Env, _msg: CustomSudo) -> StdResult<Response> { Ok(Response::new()) }
    }

    pub struct Contract;

    #[entry_points]
    #[contract]
    #[sv::features(replies)]
    #[sv::override_entry_point(exec=eps::execute(eps::CustomExec))]
    #[sv::override_entry_point(sudo=eps::sudo(eps::CustomSudo))]
    impl Contract {
        pub fn new() -> Self { Self }
        #[sv::msg(instantiate)]
        fn instantiate(&self, _ctx: InstantiateCtx) -> StdResult<Response> { Ok(Response::new()) }
        #[sv::msg(exec)]
        fn do_exec(&self, _ctx: ExecCtx) -> StdResult<Response> { Ok(Response::new()) }
        #[sv::msg(query)]
        fn do_query(&self, _ctx: QueryCtx) -> StdResult<Resp> { Ok(Resp {}) }
        #[sv::msg(sudo)]
        fn do_sudo(&self, _ctx: SudoCtx) -> StdResult<Response> { Ok(Response::new()) }
        #[sv::msg(migrate)]
        fn migrate(&self, _ctx: MigrateCtx) -> StdResult<Response> { Ok(Response::new()) }
        #[sv::msg(reply, handlers=[on_done], reply_on=success)]
        fn on_done(&self, _ctx: ReplyCtx, #[sv::payload(raw)] _payload: Binary) -> StdResult<Response> { Ok(Response::new()) }
    }
}

pub mod s_exec_sudo_mr_l {
    use super::*;
    pub mod eps {
        use super::super::*;
        #[sylvia::cw_schema::cw_serde]
        pub struct CustomExec {}
        #[sylvia::cw_schema::cw_serde]
        pub struct CustomSudo {}
        pub fn execute(_deps: DepsMut, _env: Env, _info: MessageInfo, _msg: CustomExec) -> StdResult<Response> { Ok(Response::new()) }
        pub fn sudo(_deps: DepsMut, _env: Env, _msg: CustomSudo) -> StdResult<Response> { Ok(Response::new()) }
    }

    pub struct Contract;

    #[entry_points]
    #[contract]
    #[sv::override_entry_point(exec=eps::execute(eps::CustomExec))]
    #[sv::override_entry_point(sudo=eps::sudo(eps::CustomSudo))]
    impl Contract {
        pub fn new() -> Self { Self }
        #[sv::msg(instantiate)]
        fn instantiate(&self, _ctx: InstantiateCtx) -> StdResult<Response> { Ok(Response::new()) }
        #[sv::msg(exec)]
        fn do_exec(&self, _ctx: ExecCtx) -> StdResult<Response> { Ok(Response::new()) }
        #[sv::msg(query)]
        fn do_query(&self, _ctx: QueryCtx) -> StdResult<Resp> { Ok(Resp {}) }
        #[sv::msg(sudo)]
        fn do_sudo(&self, _ctx: SudoCtx) -> StdResult<Response> { Ok(Response::new()) }
        #[sv::msg(migrate)]
        fn migrate(&self, _ctx: MigrateCtx) -> StdResult<Response> { Ok(Response::new()) }
        #[sv::msg(reply)]
        fn reply(&self, _ctx: sylvia::types::ReplyCtx, _msg: Reply) -> StdResult<Response> { Ok(Response::new()) }
    }
}

pub mod s_exec_sudo_nomr_r {
    use super::*;
    pub mod eps {
        use super::super::*;
        #[sylvia::cw_schema::cw_serde]
        pub struct CustomExec {}
        #[sylvia::cw_schema::cw_serde]
        pub struct CustomSudo {}
        pub fn execute(_deps: DepsMut, _env: Env, _info: MessageInfo, _msg: CustomExec) -> StdResult<Response> { Ok(Response::new()) }
        pub fn sudo(_deps: DepsMut, _env: Env, _msg: CustomSudo) -> StdResult<Response> { Ok(Response::new()) }
    }

    pub struct Contract;

    #[entry_points]
    #[contract]
    #[sv::features(replies)]
    #[sv::override_entry_point(exec=eps::execute(eps::CustomExec))]
    #[sv::override_entry_point(sudo=eps::sudo(eps::CustomSudo))]
    impl Contract {
        pub fn new() -> Self { Self }
        #[sv::msg(instantiate)]
        fn instantiate(&self, _ctx: InstantiateCtx) -> StdResult<Response> { Ok(Response::new()) }
        #[sv::msg(exec)]
        fn do_exec(&self, _ctx: ExecCtx) -> StdResult<Response> { Ok(Response::new()) }
        #[sv::msg(query)]
        fn do_query(&self, _ctx: QueryCtx) -> StdResult<Resp> { Ok(Resp {}) }
        #[sv::msg(sudo)]
        fn do_sudo(&self, _ctx: SudoCtx) -> StdResult<Response> { Ok(Response::new()) }
    }
}

pub mod s_exec_sudo_nomr_l {
    use super::*;
    pub mod eps {
        use super::super::*;
        #[sylvia::cw_schema::cw_serde]
        pub struct CustomExec {}
        #[sylvia::cw_schema::cw_serde]
        pub struct CustomSudo {}
        pub fn execute(_deps: DepsMut, _env: Env, _info: MessageInfo, _msg: CustomExec) -> StdResult<Response> { Ok(Response::new()) }
        pub fn sudo(_deps: DepsMut, _env: Env, _msg: CustomSudo) -> StdResult<Response> { Ok(Response::new()) }
    }

    pub struct Contract;

    #[entry_points]
    #[contract]
    #[sv::override_entry_point(exec=eps::execute(eps::CustomExec))]
    #[sv::override_entry_point(sudo=eps::sudo(eps::CustomSudo))]
    impl Contract {
        pub fn new() -> Self { Self }
        #[sv::msg(instantiate)]
        fn instantiate(&self, _ctx: InstantiateCtx) -> StdResult<Response> { Ok(Response::new()) }
        #[sv::msg(exec)]
        fn do_exec(&self, _ctx: ExecCtx) -> StdResult<Response> { Ok(Response::new()) }
        #[sv::msg(query)]
        fn do_query(&self, _ctx: QueryCtx) -> StdResult<Resp> { Ok(Resp {}) }
        #[sv::msg(sudo)]
        fn do_sudo(&self, _ctx: SudoCtx) -> StdResult<Response> { Ok(Response::new()) }
    }
}

pub mod s_exec_migr_mr_r {
    use super::*;
    pub mod eps {
        use super::super::*;
        #[sylvia::cw_schema::cw_serde]
        pub struct CustomExec {}
        #[sylvia::cw_schema::cw_serde]
        pub struct CustomMigrate {}
        pub fn execute(_deps: DepsMut, _env: Env, _info: MessageInfo, _msg: CustomExec) -> StdResult<Response> { Ok(Response::new()) }
        pub fn migrate(_deps: DepsMut, _env: Env, _msg: CustomMigrate) -> StdResult<Response> { Ok(Response::new()) }
    }

    pub struct Contract;

    #[entry_points]
    #[contract]
    #[sv::features(replies)]
    #[sv::override_entry_point(exec=eps::execute(eps::CustomExec))]
    #[sv::override_entry_point(migrate=eps::migrate(eps::CustomMigrate))]
    impl Contract {
        pub fn new() -> Self { Self }
        #[sv::msg(instantiate)]
        fn instantiate(&self, _ctx: InstantiateCtx) -> StdResult<Response> { Ok(Response::new()) }
        #[sv::msg(exec)]
        fn do_exec(&self, _ctx: ExecCtx) -> StdResult<Response> { Ok(Response::new()) }
        #[sv::msg(query)]
        fn do_query(&self, _ctx: QueryCtx) -> StdResult<Resp> { Ok(Resp {}) }
        #[sv::msg(sudo)]
        fn do_sudo(&self, _ctx: SudoCtx) -> StdResult<Response> { Ok(Response::new()) }
        #[sv::msg(migrate)]
        fn migrate(&self, _ctx: MigrateCtx) -> StdResult<Response> { Ok(Response::new()) }
        #[sv::msg(reply, handlers=[on_done], reply_on=success)]
        fn on_done(&self, _ctx: ReplyCtx, #[sv::payload(raw)] _payload: Binary) -> StdResult<Response> { Ok(Response::new()) }
    }
}

pub mod s_exec_migr_mr_l {
    use super::*;
    pub mod eps {
        use super::super::*;
        #[sylvia::cw_schema::cw_serde]
        pub struct CustomExec {}
        #[sylvia::cw_schema::cw_serde]
        pub struct CustomMigrate {}
        pub fn execute(_deps: DepsMut, _env: Env, _info: MessageInfo, _msg: CustomExec) -> StdResult<Response> { Ok(Response::new()) }
        pub fn migrate(_deps: DepsMut, _env: Env, _msg: CustomMigrate) -> StdResult<Response> { Ok(Response::new()) }
    }

    pub struct Contract;

    #[entry_points]
    #[contract]
    #[sv::override_entry_point(exec=eps::execute(eps::CustomExec))]
    #[sv::override_entry_point(migrate=eps::migrate(eps::CustomMigrate))]
    impl Contract {
        pub fn new() -> Self { Self }
        #[sv::msg(instantiate)]
        fn instantiate(&self, _ctx: InstantiateCtx) -> StdResult<Response> { Ok(Response::new()) }
        #[sv::msg(exec)]
        fn do_exec(&self, _ctx: ExecCtx) -> StdResult<Response> { Ok(Response::new()) }
        #[sv::msg(query)]
        fn do_query(&self, _ctx: QueryCtx) -> StdResult<Resp> { Ok(Resp {}) }
        #[sv::msg(sudo)]
        fn do_sudo(&self, _ctx: SudoCtx) -> StdResult<Response> { Ok(Response::new()) }
        #[sv::msg(migrate)]
        fn migrate(&self, _ctx: MigrateCtx) -> StdResult<Response> { Ok(Response::new()) }
        #[sv::msg(reply)]
        fn reply(&self, _ctx: sylvia::types::ReplyCtx, _msg: Reply) -> StdResult<Response> { Ok(Response::new()) }
    }
}

pub mod s_exec_migr_nomr_r {
    use super::*;
    pub mod eps {
        use super::super::*;
        #[sylvia::cw_schema::cw_serde]
        pub struct CustomExec {}
        #[sylvia::cw_schema::cw_serde]
        pub struct CustomMigrate {}
        pub fn execute(_deps: DepsMut, _env: Env, _info: MessageInfo, _msg: CustomExec) -> StdResult<Response> { Ok(Response::new()) }
        pub fn migrate(_deps: DepsMut, _env: Env, _msg: CustomMigrate) -> StdResult<Response> { Ok(Response::new()) }
    }

    pub struct Contract;

    #[entry_points]
    #[contract]
    #[sv::features(replies)]
    #[sv::override_entry_point(exec=eps::execute(eps::CustomExec))]
    #[sv::override_entry_point(migrate=eps::migrate(eps::CustomMigrate))]
    impl Contract {
        pub fn new() -> Self { Self }
        #[sv::msg(instantiate)]
        fn instantiate(&self, _ctx: InstantiateCtx) -> StdResult<Response> { Ok(Response::new()) }
        #[sv::msg(exec)]
        fn do_exec(&self, _ctx: ExecCtx) -> StdResult<Response> { Ok(Response::new()) }
        #[sv::msg(query)]
        fn do_query(&self, _ctx: QueryCtx) -> StdResult<Resp> { Ok(Resp {}) }
        #[sv::msg(sudo)]
        fn do_sudo(&self, _ctx: SudoCtx) -> StdResult<Response> { Ok(Response::new()) }
    }
}

pub mod s_exec_migr_nomr_l {
    use super::*;
    pub mod eps {
        use super::super::*;
        #[sylvia::cw_schema::cw_serde]
        pub struct CustomExec {}
        #[sylvia::cw_schema::cw_serde]
        pub struct CustomMigrate {}
        pub fn execute(_deps: DepsMut, _env: Env, _info: MessageInfo, _msg: CustomExec) -> StdResult<Response> { Ok(Response::new()) }
        pub fn migrate(_deps: DepsMut, _env: Env, _msg: CustomMigrate) -> StdResult<Response> { Ok(Response::new()) }
    }

    pub struct Contract;

    #[entry_points]
    #[contract]
    #[sv::override_entry_point(exec=eps::execute(eps::CustomExec))]
    #[sv::override_entry_point(migrate=eps::migrate(eps::CustomMigrate))]
    impl Contract {
        pub fn new() -> Self { Self }
        #[sv::msg(instantiate)]
        fn instantiate(&self, _ctx: InstantiateCtx) -> StdResult<Response> { Ok(Response::new()) }
        #[sv::msg(exec)]
        fn do_exec(&self, _ctx: ExecCtx) -> StdResult<Response> { Ok(Response::new()) }
        #[sv::msg(query)]
        fn do_query(&self, _ctx: QueryCtx) -> StdResult<Resp> { Ok(Resp {}) }
        #[sv::msg(sudo)]
        fn do_sudo(&self, _ctx: SudoCtx) -> StdResult<Response> { Ok(Response::new()) }
    }
}

pub mod s_exec_repl_mr_r {
    use super::*;
    pub mod eps {
        use super::super::*;
        #[sylvia::cw_schema::cw_serde]
        pub struct CustomExec {}
        pub fn execute(_deps: DepsMut, _env: Env, _info: MessageInfo, _msg: CustomExec) -> StdResult<Response> { Ok(Response::new()) }
        pub fn reply(_deps: DepsMut, _env: Env, _msg: Reply) -> StdResult<Response> { Ok(Response::new()) }
    }

    pub struct Contract;

    #[entry_points]
    #[contract]
    #[sv::features(replies)]
    #[sv::override_entry_point(exec=eps::execute(eps::CustomExec))]
    #[sv::override_entry_point(reply=eps::reply(sylvia::cw_std::Reply))]
    impl Contract {
        pub fn new() -> Self { Self }
        #[sv::msg(instantiate)]
        fn instantiate(&self, _ctx: InstantiateCtx) -> StdResult<Response> { Ok(Response::new()) }
        #[sv::msg(exec)]
        fn do_exec(&self, _ctx: ExecCtx) -> StdResult<Response> { Ok(Response::new()) }
        #[sv::msg(query)]
        fn do_query(&self, _ctx: QueryCtx) -> StdResult<Resp> { Ok(Resp {}) }
        #[sv::msg(sudo)]
        fn do_sudo(&self, _ctx: SudoCtx) -> StdResult<Response> { Ok(Response::new()) }
        #[sv::msg(migrate)]
        fn migrate(&self, _ctx: MigrateCtx) -> StdResult<Response> { Ok(Response::new()) }
        #[sv::msg(reply, handlers=[on_done], reply_on=success)]
        fn on_done(&self, _ctx: ReplyCtx, #[sv::payload(raw)] _payload: Binary) -> StdResult<Response> { Ok(Response::new()) }
    }
}

pub mod s_exec_repl_mr_l {
    use super::*;
    pub mod eps {
        use super::super::*;
        #[sylvia::cw_schema::cw_serde]
        pub struct CustomExec {}
        pub fn execute(_deps: DepsMut, _env: Env, _info: MessageInfo, _msg: CustomExec) -> StdResult<Response> { Ok(Response::new()) }
        pub fn reply(_deps: DepsMut, _env: Env, _msg: Reply) -> StdResult<Response> { Ok(Response::new()) }
    }

    pub struct Contract;

    #[entry_points]
    #[contract]
    #[sv::override_entry_point(exec=eps::execute(eps::CustomExec))]
    #[sv::override_entry_point(reply=eps::reply(sylvia::cw_std::Reply))]
    impl Contract {
        pub fn new() -> Self { Self }
        #[sv::msg(instantiate)]
        fn instantiate(&self, _ctx: InstantiateCtx) -> StdResult<Response> { Ok(Response::new()) }
        #[sv::msg(exec)]
        fn do_exec(&self, _ctx: ExecCtx) -> StdResult<Response> { Ok(Response::new()) }
        #[sv::msg(query)]
        fn do_query(&self, _ctx: QueryCtx) -> StdResult<Resp> { Ok(Resp {}) }
        #[sv::msg(sudo)]
        fn do_sudo(&self, _ctx: SudoCtx) -> StdResult<Response> { Ok(Response::new()) }
        #[sv::msg(migrate)]
        fn migrate(&self, _ctx: MigrateCtx) -> StdResult<Response> { Ok(Response::new()) }
        #[sv::msg(reply)]
        fn reply(&self, _ctx: sylvia::types::ReplyCtx, _msg: Reply) -> StdResult<Response> { Ok(Response::new()) }
    }
}

pub mod s_exec_repl_nomr_r {
    use super::*;
    pub mod eps {
        use super::super::*;
        #[sylvia::cw_schema::cw_serde]
        pub struct CustomExec {}
        pub fn execute(_deps: DepsMut, _env: Env, _info: MessageInfo, _msg: CustomExec) -> StdResult<Response> { Ok(Response::new()) }
        pub fn reply(_deps: DepsMut, _env: Env, _msg: Reply) -> StdResult<Response> { Ok(Response::new()) }
    }

    pub struct Contract;

    #[entry_points]
    #[contract]
    #[sv::features(replies)]
    #[sv::override_entry_point(exec=eps::execute(eps::CustomExec))]
    #[sv::override_entry_point(reply=eps::reply(sylvia::cw_std::Reply))]
    impl Contract {
        pub fn new() -> Self { Self }
        #[sv::msg(instantiate)]
        fn instantiate(&self, _ctx: InstantiateCtx) -> StdResult<Response> { Ok(Response::new()) }
        #[sv::msg(exec)]
        fn do_exec(&self, _ctx: ExecCtx) -> StdResult<Response> { Ok(Response::new()) }
        #[sv::msg(query)]
        fn do_query(&self, _ctx: QueryCtx) -> StdResult<Resp> { Ok(Resp {}) }
        #[sv::msg(sudo)]
        fn do_sudo(&self, _ctx: SudoCtx) -> StdResult<Response> { Ok(Response::new()) }
    }
}

pub mod s_exec_repl_nomr_l {
    use super::*;
    pub mod eps {
        use super::super::*;
        #[sylvia::cw_schema::cw_serde]
        pub struct CustomExec {}
        pub fn execute(_deps: DepsMut, _env: Env, _info: MessageInfo, _msg: CustomExec) -> StdResult<Response> { Ok(Response::new()) }
        pub fn reply(_deps: DepsMut, _env: Env, _msg: Reply) -> StdResult<Response> { Ok(Response::new()) }
    }

    pub struct Contract;

    #[entry_points]
    #[contract]
    #[sv::override_entry_point(exec=eps::execute(eps::CustomExec))]
    #[sv::override_entry_point(reply=eps::reply(sylvia::cw_std::Reply))]
    impl Contract {
        pub fn new() -> Self { Self }
        #[sv::msg(instantiate)]
        fn instantiate(&self, _ctx: InstantiateCtx) -> StdResult<Response> { Ok(Response::new()) }
        #[sv::msg(exec)]
        fn do_exec(&self, _ctx: ExecCtx) -> StdResult<Response> { Ok(Response::new()) }
        #[sv::msg(query)]
        fn do_query(&self, _ctx: QueryCtx) -> StdResult<Resp> { Ok(Resp {}) }
        #[sv::msg(sudo)]
        fn do_sudo(&self, _ctx: SudoCtx) -> StdResult<Response> { Ok(Response::new()) }
    }
}

pub mod s_quer_sudo_mr_r {
    use super::*;
    pub mod eps {
        use super::super::*;
        #[sylvia::cw_schema::cw_serde]
        pub struct CustomQuery {}
        #[sylvia::cw_schema::cw_serde]
        pub struct CustomSudo {}
        pub fn query(_deps: Deps, _env: Env, _msg: CustomQuery) -> StdResult<Binary> { Ok(Binary::default()) }
        pub fn sudo(_deps: DepsMut, _env: Env, _msg: CustomSudo) -> StdResult<Response> { Ok(Response::new()) }
    }

    pub struct Contract;

    #[entry_points]
    #[contract]
    #[sv::features(replies)]
    #[sv::override_entry_point(query=eps::query(eps::CustomQuery))]
    #[sv::override_entry_point(sudo=eps::sudo(eps::CustomSudo))]
    impl Contract {
        pub fn new() -> Self { Self }
        #[sv::msg(instantiate)]
        fn instantiate(&self, _ctx: InstantiateCtx) -> StdResult<Response> { Ok(Response::new()) }
        #[sv::msg(exec)]
        fn do_exec(&self, _ctx: ExecCtx) -> StdResult<Response> { Ok(Response::new()) }
        #[sv::msg(query)]
        fn do_query(&self, _ctx: QueryCtx) -> StdResult<Resp> { Ok(Resp {}) }
        #[sv::msg(sudo)]
        fn do_sudo(&self, _ctx: SudoCtx) -> StdResult<Response> { Ok(Response::new()) }
        #[sv::msg(migrate)]
        fn migrate(&self, _ctx: MigrateCtx) -> StdResult<Response> { Ok(Response::new()) }
        #[sv::msg(reply, handlers=[on_done], reply_on=success)]
        fn on_done(&self, _ctx: ReplyCtx, #[sv::payload(raw)] _payload: Binary) -> StdResult<Response> { Ok(Response::new()) }
    }
}

pub mod s_quer_sudo_mr_l {
    use super::*;
    pub mod eps {
        use super::super::*;
        #[sylvia::cw_schema::cw_serde]
        pub struct CustomQuery {}
        #[sylvia::cw_schema::cw_serde]
        pub struct CustomSudo {}
        pub fn query(_deps: Deps, _env: Env, _msg: CustomQuery) -> StdResult<Binary> { Ok(Binary::default()) }
        pub fn sudo(_deps: DepsMut, _env: Env, _msg: CustomSudo) -> StdResult<Response> { Ok(Response::new()) }
    }

    pub struct Contract;

    #[entry_points]
    #[contract]
    #[sv::override_entry_point(query=eps::query(eps::CustomQuery))]
    #[sv::override_entry_point(sudo=eps::sudo(eps::CustomSudo))]
    impl Contract {
        pub fn new() -> Self { Self }
        #[sv::msg(instantiate)]
        fn instantiate(&self, _ctx: InstantiateCtx) -> StdResult<Response> { Ok(Response::new()) }
        #[sv::msg(exec)]
        fn do_exec(&self, _ctx: ExecCtx) -> StdResult<Response> { Ok(Response::new()) }
        #[sv::msg(query)]
        fn do_query(&self, _ctx: QueryCtx) -> StdResult<Resp> { Ok(Resp {}) }
        #[sv::msg(sudo)]
        fn do_sudo(&self, _ctx: SudoCtx) -> StdResult<Response> { Ok(Response::new()) }
        #[sv::msg(migrate)]
        fn migrate(&self, _ctx: MigrateCtx) -> StdResult<Response> { Ok(Response::new()) }
        #[sv::msg(reply)]
        fn reply(&self, _ctx: sylvia::types::ReplyCtx, _msg: Reply) -> StdResult<Response> { Ok(Response::new()) }
    }
}

pub mod s_quer_sudo_nomr_r {
    use super::*;
    pub mod eps {
        use super::super::*;
        #[sylvia::cw_schema::cw_serde]
        pub struct CustomQuery {}
        #[sylvia::cw_schema::cw_serde]
        pub struct CustomSudo {}
        pub fn query(_deps: Deps, _env: Env, _msg: CustomQuery) -> StdResult<Binary> { Ok(Binary::default()) }
        pub fn sudo(_deps: DepsMut, _env: Env, _msg: CustomSudo) -> StdResult<Response> { Ok(Response::new()) }
    }

    pub struct Contract;

    #[entry_points]
    #[contract]
    #[sv::features(replies)]
    #[sv::override_entry_point(query=eps::query(eps::CustomQuery))]
    #[sv::override_entry_point(sudo=eps::sudo(eps::CustomSudo))]
    impl Contract {
        pub fn new() -> Self { Self }
        #[sv::msg(instantiate)]
        fn instantiate(&self, _ctx: InstantiateCtx) -> StdResult<Response> { Ok(Response::new()) }
        #[sv::msg(exec)]
        fn do_exec(&self, _ctx: ExecCtx) -> StdResult<Response> { Ok(Response::new()) }
        #[sv::msg(query)]
        fn do_query(&self, _ctx: QueryCtx) -> StdResult<Resp> { Ok(Resp {}) }
        #[sv::msg(sudo)]
        fn do_sudo(&self, _ctx: SudoCtx) -> StdResult<Response> { Ok(Response::new()) }
    }
}

pub mod s_quer_sudo_nomr_l {
    use super::*;
    pub mod eps {
        use super::super::*;
        #[sylvia::cw_schema::cw_serde]
        pub struct CustomQuery {}
        #[sylvia::cw_schema::cw_serde]
        pub struct CustomSudo {}
        pub fn query(_deps: Deps, _env: Env, _msg: CustomQuery) -> StdResult<Binary> { Ok(Binary::default()) }
        pub fn sudo(_deps: DepsMut, _env: Env, _msg: CustomSudo) -> StdResult<Response> { Ok(Response::new()) }
    }

    pub struct Contract;

    #[entry_points]
    #[contract]
    #[sv::override_entry_point(query=eps::query(eps::CustomQuery))]
    #[sv::override_entry_point(sudo=eps::sudo(eps::CustomSudo))]
    impl Contract {
        pub fn new() -> Self { Self }
        #[sv::msg(instantiate)]
        fn instantiate(&self, _ctx: InstantiateCtx) -> StdResult<Response> { Ok(Response::new()) }
        #[sv::msg(exec)]
        fn do_exec(&self, _ctx: ExecCtx) -> StdResult<Response> { Ok(Response::new()) }
        #[sv::msg(query)]
        fn do_query(&self, _ctx: QueryCtx) -> StdResult<Resp> { Ok(Resp {}) }
        #[sv::msg(sudo)]
        fn do_sudo(&self, _ctx: SudoCtx) -> StdResult<Response> { Ok(Response::new()) }
    }
}

pub mod s_quer_migr_mr_r {
    use super::*;
    pub mod eps {
        use super::super::*;
        #[sylvia::cw_schema::cw_serde]
        pub struct CustomQuery {}
        #[sylvia::cw_schema::cw_serde]
        pub struct CustomMigrate {}
        pub fn query(_deps: Deps, _env: Env, _msg: CustomQuery) -> StdResult<Binary> { Ok(Binary::default()) }
        pub fn migrate(_deps: DepsMut, _env: Env, _msg: CustomMigrate) -> StdResult<Response> { Ok(Response::new()) }
    }

    pub struct Contract;

    #[entry_points]
    #[contract]
    #[sv::features(replies)]
    #[sv::override_entry_point(query=eps::query(eps::CustomQuery))]
    #[sv::override_entry_point(migrate=eps::migrate(eps::CustomMigrate))]
    impl Contract {
        pub fn new() -> Self { Self }
        #[sv::msg(instantiate)]
        fn instantiate(&self, _ctx: InstantiateCtx) -> StdResult<Response> { Ok(Response::new()) }
        #[sv::msg(exec)]
        fn do_exec(&self, _ctx: ExecCtx) -> StdResult<Response> { Ok(Response::new()) }
        #[sv::msg(query)]
        fn do_query(&self, _ctx: QueryCtx) -> StdResult<Resp> { Ok(Resp {}) }
        #[sv::msg(sudo)]
        fn do_sudo(&self, _ctx: SudoCtx) -> StdResult<Response> { Ok(Response::new()) }
        #[sv::msg(migrate)]
        fn migrate(&self, _ctx: MigrateCtx) -> StdResult<Response> { Ok(Response::new()) }
        #[sv::msg(reply, handlers=[on_done], reply_on=success)]
        fn on_done(&self, _ctx: ReplyCtx, #[sv::payload(raw)] _payload: Binary) -> StdResult<Response> { Ok(Response::new()) }
    }
}

pub mod s_quer_migr_mr_l {
    use super::*;
    pub mod eps {
        use super::super::*;
        #[sylvia::cw_schema::cw_serde]
        pub struct CustomQuery {}
        #[sylvia::cw_schema::cw_serde]
        pub struct CustomMigrate {}
        pub fn query(_deps: Deps, _env: Env, _msg: CustomQuery) -> StdResult<Binary> { Ok(Binary::default()) }
        pub fn migrate(_deps: DepsMut, _env: Env, _msg: CustomMigrate) -> StdResult<Response> { Ok(Response::new()) }
    }

    pub struct Contract;

    #[entry_points]
    #[contract]
    #[sv::override_entry_point(query=eps::query(eps::CustomQuery))]
    #[sv::override_entry_point(migrate=eps::migrate(eps::CustomMigrate))]
    impl Contract {
        pub fn new() -> Self { Self }
        #[sv::msg(instantiate)]
        fn instantiate(&self, _ctx: InstantiateCtx) -> StdResult<Response> { Ok(Response::new()) }
        #[sv::msg(exec)]
        fn do_exec(&self, _ctx: ExecCtx) -> StdResult<Response> { Ok(Response::new()) }
        #[sv::msg(query)]
        fn do_query(&self, _ctx: QueryCtx) -> StdResult<Resp> { Ok(Resp {}) }
        #[sv::msg(sudo)]
        fn do_sudo(&self, _ctx: SudoCtx) -> StdResult<Response> { Ok(Response::new()) }
        #[sv::msg(migrate)]
        fn migrate(&self, _ctx: MigrateCtx) -> StdResult<Response> { Ok(Response::new()) }
        #[sv::msg(reply)]
        fn reply(&self, _ctx: sylvia::types::ReplyCtx, _msg: Reply) -> StdResult<Response> { Ok(Response::new()) }
    }
}

pub mod s_quer_migr_nomr_r {
    use super::*;
    pub mod eps {
        use super::super::*;
        #[sylvia::cw_schema::cw_serde]
        pub struct CustomQuery {}
        #[sylvia::cw_schema::cw_serde]
        pub struct CustomMigrate {}
        pub fn query(_deps: Deps, _env: Env, _msg: CustomQuery) -> StdResult<Binary> { Ok(Binary::default()) }
        pub fn migrate(_deps: DepsMut, _env: Env, _msg: CustomMigrate) -> StdResult<Response> { Ok(Response::new()) }
    }

    pub struct Contract;

    #[entry_points]
    #[contract]
    #[sv::features(replies)]
    #[sv::override_entry_point(query=eps::query(eps::CustomQuery))]
    #[sv::override_entry_point(migrate=eps::migrate(eps::CustomMigrate))]
    impl Contract {
        pub fn new() -> Self { Self }
        #[sv::msg(instantiate)]
        fn instantiate(&self, _ctx: InstantiateCtx) -> StdResult<Response> { Ok(Response::new()) }
        #[sv::msg(exec)]
        fn do_exec(&self, _ctx: ExecCtx) -> StdResult<Response> { Ok(Response::new()) }
        #[sv::msg(query)]
        fn do_query(&self, _ctx: QueryCtx) -> StdResult<Resp> { Ok(Resp {}) }
        #[sv::msg(sudo)]
        fn do_sudo(&self, _ctx: SudoCtx) -> StdResult<Response> { Ok(Response::new()) }
    }
}

pub mod s_quer_migr_nomr_l {
    use super::*;
    pub mod eps {
        use super::super::*;
        #[sylvia::cw_schema::cw_serde]
        pub struct CustomQuery {}
        #[sylvia::cw_schema::cw_serde]
        pub struct CustomMigrate {}
        pub fn query(_deps: Deps, _env: Env, _msg: CustomQuery) -> StdResult<Binary> { Ok(Binary::default()) }
        pub fn migrate(_deps: DepsMut, _env: Env, _msg: CustomMigrate) -> StdResult<Response> { Ok(Response::new()) }
    }

    pub struct Contract;

    #[entry_points]
    #[contract]
    #[sv::override_entry_point(query=eps::query(eps::CustomQuery))]
    #[sv::override_entry_point(migrate=eps::migrate(eps::CustomMigrate))]
    impl Contract {
        pub fn new() -> Self { Self }
        #[sv::msg(instantiate)]
        fn instantiate(&self, _ctx: InstantiateCtx) -> StdResult<Response> { Ok(Response::new()) }
        #[sv::msg(exec)]
        fn do_exec(&self, _ctx: ExecCtx) -> StdResult<Response> { Ok(Response::new()) }
        #[sv::msg(query)]
        fn do_query(&self, _ctx: QueryCtx) -> StdResult<Resp> { Ok(Resp {}) }
        #[sv::msg(sudo)]
        fn do_sudo(&self, _ctx: SudoCtx) -> StdResult<Response> { Ok(Response::new()) }
    }
}

pub mod s_quer_repl_mr_r {
    use super::*;
    pub mod eps {
        use super::super::*;
        #[sylvia::cw_schema::cw_serde]
        pub struct CustomQuery {}
        pub fn query(_deps: Deps, _env: Env, _msg: CustomQuery) -> StdResult<Binary> { Ok(Binary::default()) }
        pub fn reply(_deps: DepsMut, _env: Env, _msg: Reply) -> StdResult<Response> { Ok(Response::new()) }
    }

    pub struct Contract;

    #[entry_points]
    #[contract]
    #[sv::features(replies)]
    #[sv::override_entry_point(query=eps::query(eps::CustomQuery))]
    #[sv::override_entry_point(reply=eps::reply(sylvia::cw_std::Reply))]
    impl Contract {
        pub fn new() -> Self { Self }
        #[sv::msg(instantiate)]
        fn instantiate(&self, _ctx: InstantiateCtx) -> StdResult<Response> { Ok(Response::new()) }
        #[sv::msg(exec)]
        fn do_exec(&self, _ctx: ExecCtx) -> StdResult<Response> { Ok(Response::new()) }
        #[sv::msg(query)]
        fn do_query(&self, _ctx: QueryCtx) -> StdResult<Resp> { Ok(Resp {}) }
        #[sv::msg(sudo)]
        fn do_sudo(&self, _ctx: SudoCtx) -> StdResult<Response> { Ok(Response::new()) }
        #[sv::msg(migrate)]
        fn migrate(&self, _ctx: MigrateCtx) -> StdResult<Response> { Ok(Response::new()) }
        #[sv::msg(reply, handlers=[on_done], reply_on=success)]
        fn on_done(&self, _ctx: ReplyCtx, #[sv::payload(raw)] _payload: Binary) -> StdResult<Response> { Ok(Response::new()) }
    }
}

pub mod s_quer_repl_mr_l {
    use super::*;
    pub mod eps {
        use super::super::*;
        #[sylvia::cw_schema::cw_serde]
        pub struct CustomQuery {}
        pub fn query(_deps: Deps, _env: Env, _msg: CustomQuery) -> StdResult<Binary> { Ok(Binary::default()) }
        pub fn reply(_deps: DepsMut, _env: Env, _msg: Reply) -> StdResult<Response> { Ok(Response::new()) }
    }

    pub struct Contract;

    #[entry_points]
    #[contract]
    #[sv::override_entry_point(query=eps::query(eps::CustomQuery))]
    #[sv::override_entry_point(reply=eps::reply(sylvia::cw_std::Reply))]
    impl Contract {
        pub fn new() -> Self { Self }
        #[sv::msg(instantiate)]
        fn instantiate(&self, _ctx: InstantiateCtx) -> StdResult<Response> { Ok(Response::new()) }
        #[sv::msg(exec)]
        fn do_exec(&self, _ctx: ExecCtx) -> StdResult<Response> { Ok(Response::new()) }
        #[sv::msg(query)]
        fn do_query(&self, _ctx: QueryCtx) -> StdResult<Resp> { Ok(Resp {}) }
        #[sv::msg(sudo)]
        fn do_sudo(&self, _ctx: SudoCtx) -> StdResult<Response> { Ok(Response::new()) }
        #[sv::msg(migrate)]
        fn migrate(&self, _ctx: MigrateCtx) -> StdResult<Response> { Ok(Response::new()) }
        #[sv::msg(reply)]
        fn reply(&self, _ctx: sylvia::types::ReplyCtx, _msg: Reply) -> StdResult<Response> { Ok(Response::new()) }
    }
}

pub mod s_quer_repl_nomr_r {
    use super::*;
    pub mod eps {
        use super::super::*;
        #[sylvia::cw_schema::cw_serde]
        pub struct CustomQuery {}
        pub fn query(_deps: Deps, _env: Env, _msg: CustomQuery) -> StdResult<Binary> { Ok(Binary::default()) }
        pub fn reply(_deps: DepsMut, _env: Env, _msg: Reply) -> StdResult<Response> { Ok(Response::new()) }
    }

    pub struct Contract;

    #[entry_points]
    #[contract]
    #[sv::features(replies)]
    #[sv::override_entry_point(query=eps::query(eps::CustomQuery))]
    #[sv::override_entry_point(reply=eps::reply(sylvia::cw_std::Reply))]
    impl Contract {
        pub fn new() -> Self { Self }
        #[sv::msg(instantiate)]
        fn instantiate(&self, _ctx: InstantiateCtx) -> StdResult<Response> { Ok(Response::new()) }
        #[sv::msg(exec)]
        fn do_exec(&self, _ctx: ExecCtx) -> StdResult<Response> { Ok(Response::new()) }
        #[sv::msg(query)]
        fn do_query(&self, _ctx: QueryCtx) -> StdResult<Resp> { Ok(Resp {}) }
        #[sv::msg(sudo)]
        fn do_sudo(&self, _ctx: SudoCtx) -> StdResult<Response> { Ok(Response::new()) }
    }
}

pub mod s_quer_repl_nomr_l {
    use super::*;
    pub mod eps {
        use super::super::*;
        #[sylvia::cw_schema::cw_serde]
        pub struct CustomQuery {}
        pub fn query(_deps: Deps, _env: Env, _msg: CustomQuery) -> StdResult<Binary> { Ok(Binary::default()) }
        pub fn reply(_deps: DepsMut, _env: Env, _msg: Reply) -> StdResult<Response> { Ok(Response::new()) }
    }

    pub struct Contract;

    #[entry_points]
    #[contract]
    #[sv::override_entry_point(query=eps::query(eps::CustomQuery))]
    #[sv::override_entry_point(reply=eps::reply(sylvia::cw_std::Reply))]
    impl Contract {
        pub fn new() -> Self { Self }
        #[sv::msg(instantiate)]
        fn instantiate(&self, _ctx: InstantiateCtx) -> StdResult<Response> { Ok(Response::new()) }
        #[sv::msg(exec)]
        fn do_exec(&self, _ctx: ExecCtx) -> StdResult<Response> { Ok(Response::new()) }
        #[sv::msg(query)]
        fn do_query(&self, _ctx: QueryCtx) -> StdResult<Resp> { Ok(Resp {}) }
        #[sv::msg(sudo)]
        fn do_sudo(&self, _ctx: SudoCtx) -> StdResult<Response> { Ok(Response::new()) }
    }
}

pub mod s_sudo_migr_mr_r {
    use super::*;
    pub mod eps {
        use super::super::*;
        #[sylvia::cw_schema::cw_serde]
        pub struct CustomSudo {}
        #[sylvia::cw_schema::cw_serde]
        pub struct CustomMigrate {}
        pub fn sudo(_deps: DepsMut, _env: Env, _msg: CustomSudo) -> StdResult<Response> { Ok(Response::new()) }
        pub fn migrate(_deps: DepsMut, _env: Env, _msg: CustomMigrate) -> StdResult<Response> { Ok(Response::new()) }
    }

    pub struct Contract;

    #[entry_points]
    #[contract]
    #[sv::features(replies)]
    #[sv::override_entry_point(sudo=eps::sudo(eps::CustomSudo))]
    #[sv::override_entry_point(migrate=eps::migrate(eps::CustomMigrate))]
    impl Contract {
        pub fn new() -> Self { Self }
        #[sv::msg(instantiate)]
        fn instantiate(&self, _ctx: InstantiateCtx) -> StdResult<Response> { Ok(Response::new()) }
        #[sv::msg(exec)]
        fn do_exec(&self, _ctx: ExecCtx) -> StdResult<Response> { Ok(Response::new()) }
        #[sv::msg(query)]
        fn do_query(&self, _ctx: QueryCtx) -> StdResult<Resp> { Ok(Resp {}) }
        #[sv::msg(sudo)]
        fn do_sudo(&self, _ctx: SudoCtx) -> StdResult<Response> { Ok(Response::new()) }
        #[sv::msg(migrate)]
        fn migrate(&self, _ctx: MigrateCtx) -> StdResult<Response> { Ok(Response::new()) }
        #[sv::msg(reply, handlers=[on_done], reply_on=success)]
        fn on_done(&self, _ctx: ReplyCtx, #[sv::payload(raw)] _payload: Binary) -> StdResult<Response> { Ok(Response::new()) }
    }
}

pub mod s_sudo_migr_mr_l {
    use super::*;
    pub mod eps {
        use super::super::*;
        #[sylvia::cw_schema::cw_serde]
        pub struct CustomSudo {}
        #[sylvia::cw_schema::cw_serde]
        pub struct CustomMigrate {}
        pub fn sudo(_deps: DepsMut, _env: Env, _msg: CustomSudo) -> StdResult<Response> { Ok(Response::new()) }
        pub fn migrate(_deps: DepsMut, _env: Env, _msg: CustomMigrate) -> StdResult<Response> { Ok(Response::new()) }
    }

    pub struct Contract;

    #[entry_points]
    #[contract]
    #[sv::override_entry_point(sudo=eps::sudo(eps::CustomSudo))]
    #[sv::override_entry_point(migrate=eps::migrate(eps::CustomMigrate))]
    impl Contract {
        pub fn new() -> Self { Self }
        #[sv::msg(instantiate)]
        fn instantiate(&self, _ctx: InstantiateCtx) -> StdResult<Response> { Ok(Response::new()) }
        #[sv::msg(exec)]
        fn do_exec(&self, _ctx: ExecCtx) -> StdResult<Response> { Ok(Response::new()) }
        #[sv::msg(query)]
        fn do_query(&self, _ctx: QueryCtx) -> StdResult<Resp> { Ok(Resp {}) }
        #[sv::msg(sudo)]
        fn do_sudo(&self, _ctx: SudoCtx) -> StdResult<Response> { Ok(Response::new()) }
        #[sv::msg(migrate)]
        fn migrate(&self, _ctx: MigrateCtx) -> StdResult<Response> { Ok(Response::new()) }
        #[sv::msg(reply)]
        fn reply(&self, _ctx: sylvia::types::ReplyCtx, _msg: Reply) -> StdResult<Response> { Ok(Response::new()) }
    }
}

pub mod s_sudo_migr_nomr_r {
    use super::*;
    pub mod eps {
        use super::super::*;
        #[sylvia::cw_schema::cw_serde]
        pub struct CustomSudo {}
        #[sylvia::cw_schema::cw_serde]
        pub struct CustomMigrate {}
        pub fn sudo(_deps: DepsMut, _env: Env, _msg: CustomSudo) -> StdResult<Response> { Ok(Response::new()) }
        pub fn migrate(_deps: DepsMut, _env: Env, _msg: CustomMigrate) -> StdResult<Response> { Ok(Response::new()) }
    }

    pub struct Contract;

    #[entry_points]
    #[contract]
    #[sv::features(replies)]
    #[sv::override_entry_point(sudo=eps::sudo(eps::CustomSudo))]
    #[sv::override_entry_point(migrate=eps::migrate(eps::CustomMigrate))]
    impl Contract {
        pub fn new() -> Self { Self }
        #[sv::msg(instantiate)]
        fn instantiate(&self, _ctx: InstantiateCtx) -> StdResult<Response> { Ok(Response::new()) }
        #[sv::msg(exec)]
        fn do_exec(&self, _ctx: ExecCtx) -> StdResult<Response> { Ok(Response::new()) }
        #[sv::msg(query)]
        fn do_query(&self, _ctx: QueryCtx) -> StdResult<Resp> { Ok(Resp {}) }
        #[sv::msg(sudo)]
        fn do_sudo(&self, _ctx: SudoCtx) -> StdResult<Response> { Ok(Response::new()) }
    }
}

pub mod s_sudo_migr_nomr_l {
    use super::*;
    pub mod eps {
        use super::super::*;
        #[sylvia::cw_schema::cw_serde]
        pub struct CustomSudo {}
        #[sylvia::cw_schema::cw_serde]
        pub struct CustomMigrate {}
        pub fn sudo(_deps: DepsMut, _env: Env, _msg: CustomSudo) -> StdResult<Response> { Ok(Response::new()) }
        pub fn migrate(_deps: DepsMut, _env: Env, _msg: CustomMigrate) -> StdResult<Response> { Ok(Response::new()) }
    }

    pub struct Contract;

    #[entry_points]
    #[contract]
    #[sv::override_entry_point(sudo=eps::sudo(eps::CustomSudo))]
    #[sv::override_entry_point(migrate=eps::migrate(eps::CustomMigrate))]
    impl Contract {
        pub fn new() -> Self { Self }
        #[sv::msg(instantiate)]
        fn instantiate(&self, _ctx: InstantiateCtx) -> StdResult<Response> { Ok(Response::new()) }
        #[sv::msg(exec)]
        fn do_exec(&self, _ctx: ExecCtx) -> StdResult<Response> { Ok(Response::new()) }
        #[sv::msg(query)]
        fn do_query(&self, _ctx: QueryCtx) -> StdResult<Resp> { Ok(Resp {}) }
        #[sv::msg(sudo)]
        fn do_sudo(&self, _ctx: SudoCtx) -> StdResult<Response> { Ok(Response::new()) }
    }
}

pub mod s_sudo_repl_mr_r {
    use super::*;
    pub mod eps {
        use super::super::*;
        #[sylvia::cw_schema::cw_serde]
        pub struct CustomSudo {}
        pub fn sudo(_deps: DepsMut, _env: Env, _msg: CustomSudo) -> StdResult<Response> { Ok(Response::new()) }
        pub fn reply(_deps: DepsMut, _env: Env, _msg: Reply) -> StdResult<Response> { Ok(Response::new()) }
    }

    pub struct Contract;

    #[entry_points]
    #[contract]
    #[sv::features(replies)]
    #[sv::override_entry_point(sudo=eps::sudo(eps::CustomSudo))]
    #[sv::override_entry_point(reply=eps::reply(sylvia::cw_std::Reply))]
    impl Contract {
        pub fn new() -> Self { Self }
        #[sv::msg(instantiate)]
        fn instantiate(&self, _ctx: InstantiateCtx) -> StdResult<Response> { Ok(Response::new()) }
        #[sv::msg(exec)]
        fn do_exec(&self, _ctx: ExecCtx) -> StdResult<Response> { Ok(Response::new()) }
        #[sv::msg(query)]
        fn do_query(&self, _ctx: QueryCtx) -> StdResult<Resp> { Ok(Resp {}) }
        #[sv::msg(sudo)]
        fn do_sudo(&self, _ctx: SudoCtx) -> StdResult<Response> { Ok(Response::new()) }
        #[sv::msg(migrate)]
        fn migrate(&self, _ctx: MigrateCtx) -> StdResult<Response> { Ok(Response::new()) }
        #[sv::msg(reply, handlers=[on_done], reply_on=success)]
        fn on_done(&self, _ctx: ReplyCtx, #[sv::payload(raw)] _payload: Binary) -> StdResult<Response> { Ok(Response::new()) }
    }
}

pub mod s_sudo_repl_mr_l {
    use super::*;
    pub mod eps {
        use super::super::*;
        #[sylvia::cw_schema::cw_serde]
        pub struct CustomSudo {}
        pub fn sudo(_deps: DepsMut, _env: Env, _msg: CustomSudo) -> StdResult<Response> { Ok(Response::new()) }
        pub fn reply(_deps: DepsMut, _env: Env, _msg: Reply) -> StdResult<Response> { Ok(Response::new()) }
    }

    pub struct Contract;

    #[entry_points]
    #[contract]
    #[sv::override_entry_point(sudo=eps::sudo(eps::CustomSudo))]
    #[sv::override_entry_point(reply=eps::reply(sylvia::cw_std::Reply))]
    impl Contract {
        pub fn new() -> Self { Self }
        #[sv::msg(instantiate)]
        fn instantiate(&self, _ctx: InstantiateCtx) -> StdResult<Response> { Ok(Response::new()) }
        #[sv::msg(exec)]
        fn do_exec(&self, _ctx: ExecCtx) -> StdResult<Response> { Ok(Response::new()) }
        #[sv::msg(query)]
        fn do_query(&self, _ctx: QueryCtx) -> StdResult<Resp> { Ok(Resp {}) }
        #[sv::msg(sudo)]
        fn do_sudo(&self, _ctx: SudoCtx) -> StdResult<Response> { Ok(Response::new()) }
        #[sv::msg(migrate)]
        fn migrate(&self, _ctx: MigrateCtx) -> StdResult<Response> { Ok(Response::new()) }
        #[sv::msg(reply)]
        fn reply(&self, _ctx: sylvia::types::ReplyCtx, _msg: Reply) -> StdResult<Response> { Ok(Response::new()) }
    }
}

pub mod s_sudo_repl_nomr_r {
    use super::*;
    pub mod eps {
        use super::super::*;
        #[sylvia::cw_schema::cw_serde]
        pub struct CustomSudo {}
        pub fn sudo(_deps: DepsMut, _env: Env, _msg: CustomSudo) -> StdResult<Response> { Ok(Response::new()) }
        pub fn reply(_deps: DepsMut, _env: Env, _msg: Reply) -> StdResult<Response> { Ok(Response::new()) }
    }

    pub struct Contract;

    #[entry_points]
    #[contract]
    #[sv::features(replies)]
    #[sv::override_entry_point(sudo=eps::sudo(eps::CustomSudo))]
    #[sv::override_entry_point(reply=eps::reply(sylvia::cw_std::Reply))]
    impl Contract {
        pub fn new() -> Self { Self }
        #[sv::msg(instantiate)]
        fn instantiate(&self, _ctx: InstantiateCtx) -> StdResult<Response> { Ok(Response::new()) }
        #[sv::msg(exec)]
        fn do_exec(&self, _ctx: ExecCtx) -> StdResult<Response> { Ok(Response::new()) }
        #[sv::msg(query)]
        fn do_query(&self, _ctx: QueryCtx) -> StdResult<Resp> { Ok(Resp {}) }
        #[sv::msg(sudo)]
        fn do_sudo(&self, _ctx: SudoCtx) -> StdResult<Response> { Ok(Response::new()) }
    }
}

pub mod s_sudo_repl_nomr_l {
    use super::*;
    pub mod eps {
        use super::super::*;
        #[sylvia::cw_schema::cw_serde]
        pub struct CustomSudo {}
        pub fn sudo(_deps: DepsMut, _env: Env, _msg: CustomSudo) -> StdResult<Response> { Ok(Response::new()) }
        pub fn reply(_deps: DepsMut, _env: Env, _msg: Reply) -> StdResult<Response> { Ok(Response::new()) }
    }

    pub struct Contract;

    #[entry_points]
    #[contract]
    #[sv::override_entry_point(sudo=eps::sudo(eps::CustomSudo))]
    #[sv::override_entry_point(reply=eps::reply(sylvia::cw_std::Reply))]
    impl Contract {
        pub fn new() -> Self { Self }
        #[sv::msg(instantiate)]
        fn instantiate(&self, _ctx: InstantiateCtx) -> StdResult<Response> { Ok(Response::new()) }
        #[sv::msg(exec)]
        fn do_exec(&self, _ctx: ExecCtx) -> StdResult<Response> { Ok(Response::new()) }
        #[sv::msg(query)]
        fn do_query(&self, _ctx: QueryCtx) -> StdResult<Resp> { Ok(Resp {}) }
        #[sv::msg(sudo)]
        fn do_sudo(&self, _ctx: SudoCtx) -> StdResult<Response> { Ok(Response::new()) }
    }
}

pub mod s_migr_repl_mr_r {
    use super::*;
    pub mod eps {
        use super::super::*;
        #[sylvia::cw_schema::cw_serde]
        pub struct CustomMigrate {}
        pub fn migrate(_deps: DepsMut, _env: Env, _msg: CustomMigrate) -> StdResult<Response> { Ok(Response::new()) }
        pub fn reply(_deps: DepsMut, _env: Env, _msg: Reply) -> StdResult<Response> { Ok(Response::new()) }
    }

    pub struct Contract;

    #[entry_points]
    #[contract]
    #[sv::features(replies)]
    #[sv::override_entry_point(migrate=eps::migrate(eps::CustomMigrate))]
    #[sv::override_entry_point(reply=eps::reply(sylvia::cw_std::Reply))]
    impl Contract {
        pub fn new() -> Self { Self }
        #[sv::msg(instantiate)]
        fn instantiate(&self, _ctx: InstantiateCtx) -> StdResult<Response> { Ok(Response::new()) }
        #[sv::msg(exec)]
        fn do_exec(&self, _ctx: ExecCtx) -> StdResult<Response> { Ok(Response::new()) }
        #[sv::msg(query)]
        fn do_query(&self, _ctx: QueryCtx) -> StdResult<Resp> { Ok(Resp {}) }
        #[sv::msg(sudo)]
        fn do_sudo(&self, _ctx: SudoCtx) -> StdResult<Response> { Ok(Response::new()) }
        #[sv::msg(migrate)]
        fn migrate(&self, _ctx: MigrateCtx) -> StdResult<Response> { Ok(Response::new()) }
        #[sv::msg(reply, handlers=[on_done], reply_on=success)]
        fn on_done(&self, _ctx: ReplyCtx, #[sv::payload(raw)] _payload: Binary) -> StdResult<Response> { Ok(Response::new()) }
    }
}

pub mod s_migr_repl_mr_l {
    use super::*;
    pub mod eps {
        use super::super::*;
        #[sylvia::cw_schema::cw_serde]
        pub struct CustomMigrate {}
        pub fn migrate(_deps: DepsMut, _env: Env, _msg: CustomMigrate) -> StdResult<Response> { Ok(Response::new()) }
        pub fn reply(_deps: DepsMut, _env: Env, _msg: Reply) -> StdResult<Response> { Ok(Response::new()) }
    }

    pub struct Contract;

    #[entry_points]
    #[contract]
    #[sv::override_entry_point(migrate=eps::migrate(eps::CustomMigrate))]
    #[sv::override_entry_point(reply=eps::reply(sylvia::cw_std::Reply))]
    impl Contract {
        pub fn new() -> Self { Self }
        #[sv::msg(instantiate)]
        fn instantiate(&self, _ctx: InstantiateCtx) -> StdResult<Response> { Ok(Response::new()) }
        #[sv::msg(exec)]
        fn do_exec(&self, _ctx: ExecCtx) -> StdResult<Response> { Ok(Response::new()) }
        #[sv::msg(query)]
        fn do_query(&self, _ctx: QueryCtx) -> StdResult<Resp> { Ok(Resp {}) }
        #[sv::msg(sudo)]
        fn do_sudo(&self, _ctx: SudoCtx) -> StdResult<Response> { Ok(Response::new()) }
        #[sv::msg(migrate)]
        fn migrate(&self, _ctx: MigrateCtx) -> StdResult<Response> { Ok(Response::new()) }
        #[sv::msg(reply)]
        fn reply(&self, _ctx: sylvia::types::ReplyCtx, _msg: Reply) -> StdResult<Response> { Ok(Response::new()) }
    }
}

pub mod s_migr_repl_nomr_r {
    use super::*;
    pub mod eps {
        use super::super::*;
        #[sylvia::cw_schema::cw_serde]
        pub struct CustomMigrate {}
        pub fn migrate(_deps: DepsMut, _env: Env, _msg: CustomMigrate) -> StdResult<Response> { Ok(Response::new()) }
        pub fn reply(_deps: DepsMut, _env: Env, _msg: Reply) -> StdResult<Response> { Ok(Response::new()) }
    }

    pub struct Contract;

    #[entry_points]
    #[contract]
    #[sv::features(replies)]
    #[sv::override_entry_point(migrate=eps::migrate(eps::CustomMigrate))]
    #[sv::override_entry_point(reply=eps::reply(sylvia::cw_std::Reply))]
    impl Contract {
        pub fn new() -> Self { Self }
        #[sv::msg(instantiate)]
        fn instantiate(&self, _ctx: InstantiateCtx) -> StdResult<Response> { Ok(Response::new()) }
        #[sv::msg(exec)]
        fn do_exec(&self, _ctx: ExecCtx) -> StdResult<Response> { Ok(Response::new()) }
        #[sv::msg(query)]
        fn do_query(&self, _ctx: QueryCtx) -> StdResult<Resp> { Ok(Resp {}) }
        #[sv::msg(sudo)]
        fn do_sudo(&self, _ctx: SudoCtx) -> StdResult<Response> { Ok(Response::new()) }
    }
}

pub mod s_migr_repl_nomr_l {
    use super::*;
    pub mod eps {
        use super::super::*;
        #[sylvia::cw_schema::cw_serde]
        pub struct CustomMigrate {}
        pub fn migrate(_deps: DepsMut, _env: Env, _msg: CustomMigrate) -> StdResult<Response> { Ok(Response::new()) }
        pub fn reply(_deps: DepsMut, _env: Env, _msg: Reply) -> StdResult<Response> { Ok(Response::new()) }
    }

    pub struct Contract;

    #[entry_points]
    #[contract]
    #[sv::override_entry_point(migrate=eps::migrate(eps::CustomMigrate))]
    #[sv::override_entry_point(reply=eps::reply(sylvia::cw_std::Reply))]
    impl Contract {
        pub fn new() -> Self { Self }
        #[sv::msg(instantiate)]
        fn instantiate(&self, _ctx: InstantiateCtx) -> StdResult<Response> { Ok(Response::new()) }
        #[sv::msg(exec)]
        fn do_exec(&self, _ctx: ExecCtx) -> StdResult<Response> { Ok(Response::new()) }
        #[sv::msg(query)]
        fn do_query(&self, _ctx: QueryCtx) -> StdResult<Resp> { Ok(Resp {}) }
        #[sv::msg(sudo)]
        fn do_sudo(&self, _ctx: SudoCtx) -> StdResult<Response> { Ok(Response::new()) }
    }
}

pub mod s_inst_exec_quer_mr_r {
    use super::*;
    pub mod eps {
        use super::super::*;
        #[sylvia::cw_schema::cw_serde]
        pub struct CustomInstantiate {}
        #[sylvia::cw_schema::cw_serde]
        pub struct CustomExec {}
        #[sylvia::cw_schema::cw_serde]
        pub struct CustomQuery {}
        pub fn instantiate(_deps: DepsMut, _env: Env, _info: MessageInfo, _msg: CustomInstantiate) -> StdResult<Response> { Ok(Response::new()) }
        pub fn execute(_deps: DepsMut, _env: Env, _info: MessageInfo, _msg: CustomExec) -> StdResult<Response> { Ok(Response::new()) }
        pub fn query(_deps: Deps, _env: Env, _msg: CustomQuery) -> StdResult<Binary> { Ok(Binary::default()) }
    }

    pub struct Contract;

    #[entry_points]
    #[contract]
    #[sv::features(replies)]
    #[sv::override_entry_point(instantiate=eps::instantiate(eps::CustomInstantiate))]
    #[sv::override_entry_point(exec=eps::execute(eps::CustomExec))]
    #[sv::override_entry_point(query=eps::query(eps::CustomQuery))]
    impl Contract {
        pub fn new() -> Self { Self }
        #[sv::msg(instantiate)]
        fn instantiate(&self, _ctx: InstantiateCtx) -> StdResult<Response> { Ok(Response::new()) }
        #[sv::msg(exec)]
        fn do_exec(&self, _ctx: ExecCtx) -> StdResult<Response> { Ok(Response::new()) }
        #[sv::msg(query)]
        fn do_query(&self, _ctx: QueryCtx) -> StdResult<Resp> { Ok(Resp {}) }
        #[sv::msg(sudo)]
        fn do_sudo(&self, _ctx: SudoCtx) -> StdResult<Response> { Ok(Response::new()) }
        #[sv::msg(migrate)]
        fn migrate(&self, _ctx: MigrateCtx) -> StdResult<Response> { Ok(Response::new()) }
        #[sv::msg(reply, handlers=[on_done], reply_on=success)]
        fn on_done(&self, _ctx: ReplyCtx, #[sv::payload(raw)] _payload: Binary) -> StdResult<Response> { Ok(Response::new()) }
    }
}

pub mod s_inst_exec_quer_mr_l {
    use super::*;
    pub mod eps {
        use super::super::*;
        #[sylvia::cw_schema::cw_serde]
        pub struct CustomInstantiate {}
        #[sylvia::cw_schema::cw_serde]
        pub struct CustomExec {}
        #[sylvia::cw_schema::cw_serde]
        pub struct CustomQuery {}
        pub fn instantiate(_deps: DepsMut, _env: Env, _info: MessageInfo, _msg: CustomInstantiate) -> StdResult<Response> { Ok(Response::new()) }
        pub fn execute(_deps: DepsMut, _env: Env, _info: MessageInfo, _msg: CustomExec) -> StdResult<Response> { Ok(Response::new()) }
        pub fn query(_deps: Deps, _env: Env, _msg: CustomQuery) -> StdResult<Binary> { Ok(Binary::default()) }
    }

    pub struct Contract;

    #[entry_points]
    #[contract]
    #[sv::override_entry_point(instantiate=eps::instantiate(eps::CustomInstantiate))]
    #[sv::override_entry_point(exec=eps::execute(eps::CustomExec))]
    #[sv::override_entry_point(query=eps::query(eps::CustomQuery))]
    impl Contract {
        pub fn new() -> Self { Self }
        #[sv::msg(instantiate)]
        fn instantiate(&self, _ctx: InstantiateCtx) -> StdResult<Response> { Ok(Response::new()) }
        #[sv::msg(exec)]
        fn do_exec(&self, _ctx: ExecCtx) -> StdResult<Response> { Ok(Response::new()) }
        #[sv::msg(query)]
        fn do_query(&self, _ctx: QueryCtx) -> StdResult<Resp> { Ok(Resp {}) }
        #[sv::msg(sudo)]
        fn do_sudo(&self, _ctx: SudoCtx) -> StdResult<Response> { Ok(Response::new()) }
        #[sv::msg(migrate)]
        fn migrate(&self, _ctx: MigrateCtx) -> StdResult<Response> { Ok(Response::new()) }
        #[sv::msg(reply)]
        fn reply(&self, _ctx: sylvia::types::ReplyCtx, _msg: Reply) -> StdResult<Response> { Ok(Response::new()) }
    }
}

pub mod s_inst_exec_quer_nomr_r {
    use super::*;
    pub mod eps {
        use super::super::*;
        #[sylvia::cw_schema::cw_serde]
        pub struct CustomInstantiate {}
        #[sylvia::cw_schema::cw_serde]
        pub struct CustomExec {}
        #[sylvia::cw_schema::cw_serde]
        pub struct CustomQuery {}
        pub fn instantiate(_deps: DepsMut, _env: Env, _info: MessageInfo, _msg: CustomInstantiate) -> StdResult<Response> { Ok(Response::new()) }
        pub fn execute(_deps: DepsMut, _env: Env, _info: MessageInfo, _msg: CustomExec) -> StdResult<Response> { Ok(Response::new()) }
        pub fn query(_deps: Deps, _env: Env, _msg: CustomQuery) -> StdResult<Binary> { Ok(Binary::default()) }
    }

    pub struct Contract;

    #[entry_points]
    #[contract]
    #[sv::features(replies)]
    #[sv::override_entry_point(instantiate=eps::instantiate(eps::CustomInstantiate))]
    #[sv::override_entry_point(exec=eps::execute(eps::CustomExec))]
    #[sv::override_entry_point(query=eps::query(eps::CustomQuery))]
    impl Contract {
        pub fn new() -> Self { Self }
        #[sv::msg(instantiate)]
        fn instantiate(&self, _ctx: InstantiateCtx) -> StdResult<Response> { Ok(Response::new()) }
        #[sv::msg(exec)]
        fn do_exec(&self, _ctx: ExecCtx) -> StdResult<Response> { Ok(Response::new()) }
        #[sv::msg(query)]
        fn do_query(&self, _ctx: QueryCtx) -> StdResult<Resp> { Ok(Resp {}) }
        #[sv::msg(sudo)]
        fn do_sudo(&self, _ctx: SudoCtx) -> StdResult<Response> { Ok(Response::new()) }
    }
}

pub mod s_inst_exec_quer_nomr_l {
    use super::*;
    pub mod eps {
        use super::super::*;
        #[sylvia::cw_schema::cw_serde]
        pub struct CustomInstantiate {}
        #[sylvia::cw_schema::cw_serde]
        pub struct CustomExec {}
        #[sylvia::cw_schema::cw_serde]
        pub struct CustomQuery {}
        pub fn instantiate(_deps: DepsMut, _env: Env, _info: MessageInfo, _msg: CustomInstantiate) -> StdResult<Response> { Ok(Response::new()) }
        pub fn execute(_deps: DepsMut, _env: Env, _info: MessageInfo, _msg: CustomExec) -> StdResult<Response> { Ok(Response::new()) }
        pub fn query(_deps: Deps, _env: Env, _msg: CustomQuery) -> StdResult<Binary> { Ok(Binary::default()) }
    }

    pub struct Contract;

    #[entry_points]
    #[contract]
    #[sv::override_entry_point(instantiate=eps::instantiate(eps::CustomInstantiate))]
    #[sv::override_entry_point(exec=eps::execute(eps::CustomExec))]
    #[sv::override_entry_point(query=eps::query(eps::CustomQuery))]
    impl Contract {
        pub fn new() -> Self { Self }
        #[sv::msg(instantiate)]
        fn instantiate(&self, _ctx: InstantiateCtx) -> StdResult<Response> { Ok(Response::new()) }
        #[sv::msg(exec)]
        fn do_exec(&self, _ctx: ExecCtx) -> StdResult<Response> { Ok(Response::new()) }
        #[sv::msg(query)]
        fn do_query(&self, _ctx: QueryCtx) -> StdResult<Resp> { Ok(Resp {}) }
        #[sv::msg(sudo)]
        fn do_sudo(&self, _ctx: SudoCtx) -> StdResult<Response> { Ok(Response::new()) }
    }
}

pub mod s_inst_exec_sudo_mr_r {
    use super::*;
    pub mod eps {
        use super::super::*;
        #[sylvia::cw_schema::cw_serde]
        pub struct CustomInstantiate {}
        #[sylvia::cw_schema::cw_serde]
        pub struct CustomExec {}
        #[sylvia::cw_schema::cw_serde]
        pub struct CustomSudo {}
        pub fn instantiate(_deps: DepsMut, _env: Env, _info: MessageInfo, _msg: CustomInstantiate) -> StdResult<Response> { Ok(Response::new()) }
        pub fn execute(_deps: DepsMut, _env: Env, _info: MessageInfo, _msg: CustomExec) -> StdResult<Response> { Ok(Response::new()) }
        pub fn sudo(_deps: DepsMut, _env: Env, _msg: CustomSudo) -> StdResult<Response> { Ok(Response::new()) }
    }

    pub struct Contract;

    #[entry_points]
    #[contract]
    #[sv::features(replies)]
    #[sv::override_entry_point(instantiate=eps::instantiate(eps::CustomInstantiate))]
    #[sv::override_entry_point(exec=eps::execute(eps::CustomExec))]
    #[sv::override_entry_point(sudo=eps::sudo(eps::CustomSudo))]
    impl Contract {
        pub fn new() -> Self { Self }
        #[sv::msg(instantiate)]
        fn instantiate(&self, _ctx: InstantiateCtx) -> StdResult<Response> { Ok(Response::new()) }
        #[sv::msg(exec)]
        fn do_exec(&self, _ctx: ExecCtx) -> StdResult<Response> { Ok(Response::new()) }
        #[sv::msg(query)]
        fn do_query(&self, _ctx: QueryCtx) -> StdResult<Resp> { Ok(Resp {}) }
        #[sv::msg(sudo)]
        fn do_sudo(&self, _ctx: SudoCtx) -> StdResult<Response> { Ok(Response::new()) }
        #[sv::msg(migrate)]
        fn migrate(&self, _ctx: MigrateCtx) -> StdResult<Response> { Ok(Response::new()) }
        #[sv::msg(reply, handlers=[on_done], reply_on=success)]
        fn on_done(&self, _ctx: ReplyCtx, #[sv::payload(raw)] _payload: Binary) -> StdResult<Response> { Ok(Response::new()) }
    }
}

pub mod s_inst_exec_sudo_mr_l {
    use super::*;
    pub mod eps {
        use super::super::*;
        #[sylvia::cw_schema::cw_serde]
        pub struct CustomInstantiate {}
        #[sylvia::cw_schema::cw_serde]
        pub struct CustomExec {}
        #[sylvia::cw_schema::cw_serde]
        pub struct CustomSudo {}
        pub fn instantiate(_deps: DepsMut, _env: Env, _info: MessageInfo, _msg: CustomInstantiate) -> StdResult<Response> { Ok(Response::new()) }
        pub fn execute(_deps: DepsMut, _env: Env, _info: MessageInfo, _msg: CustomExec) -> StdResult<Response> { Ok(Response::new()) }
        pub fn sudo(_deps: DepsMut, _env: Env, _msg: CustomSudo) -> StdResult<Response> { Ok(Response::new()) }
    }

    pub struct Contract;

    #[entry_points]
    #[contract]
    #[sv::override_entry_point(instantiate=eps::instantiate(eps::CustomInstantiate))]
    #[sv::override_entry_point(exec=eps::execute(eps::CustomExec))]
    #[sv::override_entry_point(sudo=eps::sudo(eps::CustomSudo))]
    impl Contract {
        pub fn new() -> Self { Self }
        #[sv::msg(instantiate)]
        fn instantiate(&self, _ctx: InstantiateCtx) -> StdResult<Response> { Ok(Response::new()) }
        #[sv::msg(exec)]
        fn do_exec(&self, _ctx: ExecCtx) -> StdResult<Response> { Ok(Response::new()) }
        #[sv::msg(query)]
        fn do_query(&self, _ctx: QueryCtx) -> StdResult<Resp> { Ok(Resp {}) }
        #[sv::msg(sudo)]
        fn do_sudo(&self, _ctx: SudoCtx) -> StdResult<Response> { Ok(Response::new()) }
        #[sv::msg(migrate)]
        fn migrate(&self, _ctx: MigrateCtx) -> StdResult<Response> { Ok(Response::new()) }
        #[sv::msg(reply)]
        fn reply(&self, _ctx: sylvia::types::ReplyCtx, _msg: Reply) -> StdResult<Response> { Ok(Response::new()) }
    }
}

pub mod s_inst_exec_sudo_nomr_r {
    use super::*;
    pub mod eps {
        use super::super::*;
        #[sylvia::cw_schema::cw_serde]
        pub struct CustomInstantiate {}
        #[sylvia::cw_schema::cw_serde]
        pub struct CustomExec {}
        #[sylvia::cw_schema::cw_serde]
        pub struct CustomSudo {}
        pub fn instantiate(_deps: DepsMut, _env: Env, _info: MessageInfo, _msg: CustomInstantiate) -> StdResult<Response> { Ok(Response::new()) }
        pub fn execute(_deps: DepsMut, _env: Env, _info: MessageInfo, _msg: CustomExec) -> StdResult<Response> { Ok(Response::new()) }
        pub fn sudo(_deps: DepsMut, _env: Env, _msg: CustomSudo) -> StdResult<Response> { Ok(Response::new()) }
    }

    pub struct Contract;

    #[entry_points]
    #[contract]
    #[sv::features(replies)]
    #[sv::override_entry_point(instantiate=eps::instantiate(eps::CustomInstantiate))]
    #[sv::override_entry_point(exec=eps::execute(eps::CustomExec))]
    #[sv::override_entry_point(sudo=eps::sudo(eps::CustomSudo))]
    impl Contract {
        pub fn new() -> Self { Self }
        #[sv::msg(instantiate)]
        fn instantiate(&self, _ctx: InstantiateCtx) -> StdResult<Response> { Ok(Response::new()) }
        #[sv::msg(exec)]
        fn do_exec(&self, _ctx: ExecCtx) -> StdResult<Response> { Ok(Response::new()) }
        #[sv::msg(query)]
        fn do_query(&self, _ctx: QueryCtx) -> StdResult<Resp> { Ok(Resp {}) }
        #[sv::msg(sudo)]
        fn do_sudo(&self, _ctx: SudoCtx) -> StdResult<Response> { Ok(Response::new()) }
    }
}

pub mod s_inst_exec_sudo_nomr_l {
    use super::*;
    pub mod eps {
        use super::super::*;
        #[sylvia::cw_schema::cw_serde]
        pub struct CustomInstantiate {}
        #[sylvia::cw_schema::cw_serde]
        pub struct CustomExec {}
        #[sylvia::cw_schema::cw_serde]
        pub struct CustomSudo {}
        pub fn instantiate(_deps: DepsMut, _env: Env, _info: MessageInfo, _msg: CustomInstantiate) -> StdResult<Response> { Ok(Response::new()) }
        pub fn execute(_deps: DepsMut, _env: Env, _info: MessageInfo, _msg: CustomExec) -> StdResult<Response> { Ok(Response::new()) }
        pub fn sudo(_deps: DepsMut, _env: Env, _msg: CustomSudo) -> StdResult<Response> { Ok(Response::new()) }
    }

    pub struct Contract;

    #[entry_points]
    #[contract]
    #[sv::override_entry_point(instantiate=eps::instantiate(eps::CustomInstantiate))]
    #[sv::override_entry_point(exec=eps::execute(eps::CustomExec))]
    #[sv::override_entry_point(sudo=eps::sudo(eps::CustomSudo))]
    impl Contract {
        pub fn new() -> Self { Self }
        #[sv::msg(instantiate)]
        fn instantiate(&self, _ctx: InstantiateCtx) -> StdResult<Response> { Ok(Response::new()) }
        #[sv::msg(exec)]
        fn do_exec(&self, _ctx: ExecCtx) -> StdResult<Response> { Ok(Response::new()) }
        #[sv::msg(query)]
        fn do_query(&self, _ctx: QueryCtx) -> StdResult<Resp> { Ok(Resp {}) }
        #[sv::msg(sudo)]
        fn do_sudo(&self, _ctx: SudoCtx) -> StdResult<Response> { Ok(Response::new()) }
    }
}

pub mod s_inst_exec_migr_mr_r {
    use super::*;
    pub mod eps {
        use super::super::*;
        #[sylvia::cw_schema::cw_serde]
        pub struct CustomInstantiate {}
        #[sylvia::cw_schema::cw_serde]
        pub struct CustomExec {}
        #[sylvia::cw_schema::cw_serde]
        pub struct CustomMigrate {}
        pub fn instantiate(_deps: DepsMut, _env: Env, _info: MessageInfo, _msg: CustomInstantiate) -> StdResult<Response> { Ok(Response::new()) }
        pub fn execute(_deps: DepsMut, _env: Env, _info: MessageInfo, _msg: CustomExec) -> StdResult<Response> { Ok(Response::new()) }
        pub fn migrate(_deps: DepsMut, _env: Env, _msg: CustomMigrate) -> StdResult<Response> { Ok(Response::new()) }
    }

    pub struct Contract;

    #[entry_points]
    #[contract]
    #[sv::features(replies)]
    #[sv::override_entry_point(instantiate=eps::instantiate(eps::CustomInstantiate))]
    #[sv::override_entry_point(exec=eps::execute(eps::CustomExec))]
    #[sv::override_entry_point(migrate=eps::migrate(eps::CustomMigrate))]
    impl Contract {
        pub fn new() -> Self { Self }
        #[sv::msg(instantiate)]
        fn instantiate(&self, _ctx: InstantiateCtx) -> StdResult<Response> { Ok(Response::new()) }
        #[sv::msg(exec)]
        fn do_exec(&self, _ctx: ExecCtx) -> StdResult<Response> { Ok(Response::new()) }
        #[sv::msg(query)]
        fn do_query(&self, _ctx: QueryCtx) -> StdResult<Resp> { Ok(Resp {}) }
        #[sv::msg(sudo)]
        fn do_sudo(&self, _ctx: SudoCtx) -> StdResult<Response> { Ok(Response::new()) }
        #[sv::msg(migrate)]
        fn migrate(&self, _ctx: MigrateCtx) -> StdResult<Response> { Ok(Response::new()) }
        #[sv::msg(reply, handlers=[on_done], reply_on=success)]
        fn on_done(&self, _ctx: ReplyCtx, #[sv::payload(raw)] _payload: Binary) -> StdResult<Response> { Ok(Response::new()) }
    }
}

pub mod s_inst_exec_migr_mr_l {
    use super::*;
    pub mod eps {
        use super::super::*;
        #[sylvia::cw_schema::cw_serde]
        pub struct CustomInstantiate {}
        #[sylvia::cw_schema::cw_serde]
        pub struct CustomExec {}
        #[sylvia::cw_schema::cw_serde]
        pub struct CustomMigrate {}
        pub fn instantiate(_deps: DepsMut, _env: Env, _info: MessageInfo, _msg: CustomInstantiate) -> StdResult<Response> { Ok(Response::new()) }
        pub fn execute(_deps: DepsMut, _env: Env, _info: MessageInfo, _msg: CustomExec) -> StdResult<Response> { Ok(Response::new()) }
        pub fn migrate(_deps: DepsMut, _env: Env, _msg: CustomMigrate) -> StdResult<Response> { Ok(Response::new()) }
    }

    pub struct Contract;

    #[entry_points]
    #[contract]
    #[sv::override_entry_point(instantiate=eps::instantiate(eps::CustomInstantiate))]
    #[sv::override_entry_point(exec=eps::execute(eps::CustomExec))]
    #[sv::override_entry_point(migrate=eps::migrate(eps::CustomMigrate))]
    impl Contract {
        pub fn new() -> Self { Self }
        #[sv::msg(instantiate)]
        fn instantiate(&self, _ctx: InstantiateCtx) -> StdResult<Response> { Ok(Response::new()) }
        #[sv::msg(exec)]
        fn do_exec(&self, _ctx: ExecCtx) -> StdResult<Response> { Ok(Response::new()) }
        #[sv::msg(query)]
        fn do_query(&self, _ctx: QueryCtx) -> StdResult<Resp> { Ok(Resp {}) }
        #[sv::msg(sudo)]
        fn do_sudo(&self, _ctx: SudoCtx) -> StdResult<Response> { Ok(Response::new()) }
        #[sv::msg(migrate)]
        fn migrate(&self, _ctx: MigrateCtx) -> StdResult<Response> { Ok(Response::new()) }
        #[sv::msg(reply)]
        fn reply(&self, _ctx: sylvia::types::ReplyCtx, _msg: Reply) -> StdResult<Response> { Ok(Response::new()) }
    }
}

pub mod s_inst_exec_migr_nomr_r {
    use super::*;
    pub mod eps {
        use super::super::*;
        #[sylvia::cw_schema::cw_serde]
        pub struct CustomInstantiate {}
        #[sylvia::cw_schema::cw_serde]
        pub struct CustomExec {}
        #[sylvia::cw_schema::cw_serde]
        pub struct CustomMigrate {}
        pub fn instantiate(_deps: DepsMut, _env: Env, _info: MessageInfo, _msg: CustomInstantiate) -> StdResult<Response> { Ok(Response::new()) }
        pub fn execute(_deps: DepsMut, _env: Env, _info: MessageInfo, _msg: CustomExec) -> StdResult<Response> { Ok(Response::new()) }
        pub fn migrate(_deps: DepsMut, _env: Env, _msg: CustomMigrate) -> StdResult<Response> { Ok(Response::new()) }
    }

    pub struct Contract;

    #[entry_points]
    #[contract]
    #[sv::features(replies)]
    #[sv::override_entry_point(instantiate=eps::instantiate(eps::CustomInstantiate))]
    #[sv::override_entry_point(exec=eps::execute(eps::CustomExec))]
    #[sv::override_entry_point(migrate=eps::migrate(eps::CustomMigrate))]
    impl Contract {
        pub fn new() -> Self { Self }
        #[sv::msg(instantiate)]
        fn instantiate(&self, _ctx: InstantiateCtx) -> StdResult<Response> { Ok(Response::new()) }
        #[sv::msg(exec)]
        fn do_exec(&self, _ctx: ExecCtx) -> StdResult<Response> { Ok(Response::new()) }
        #[sv::msg(query)]
        fn do_query(&self, _ctx: QueryCtx) -> StdResult<Resp> { Ok(Resp {}) }
        #[sv::msg(sudo)]
        fn do_sudo(&self, _ctx: SudoCtx) -> StdResult<Response> { Ok(Response::new()) }
    }
}

pub mod s_inst_exec_migr_nomr_l {
    use super::*;
    pub mod eps {
        use super::super::*;
        #[sylvia::cw_schema::cw_serde]
        pub struct CustomInstantiate {}
        #[sylvia::cw_schema::cw_serde]
        pub struct CustomExec {}
        #[sylvia::cw_schema::cw_serde]
        pub struct CustomMigrate {}
        pub fn instantiate(_deps: DepsMut, _env: Env, _info: MessageInfo, _msg: CustomInstantiate) -> StdResult<Response> { Ok(Response::new()) }
        pub fn execute(_deps: DepsMut, _env: Env, _info: MessageInfo, _msg: CustomExec) -> StdResult<Response> { Ok(Response::new()) }
        pub fn migrate(_deps: DepsMut, _env: Env, _msg: CustomMigrate) -> StdResult<Response> { Ok(Response::new()) }
    }

    pub struct Contract;

    #[entry_points]
    #[contract]
    #[sv::override_entry_point(instantiate=eps::instantiate(eps::CustomInstantiate))]
    #[sv::override_entry_point(exec=eps::execute(eps::CustomExec))]
    #[sv::override_entry_point(migrate=eps::migrate(eps::CustomMigrate))]
    impl Contract {
        pub fn new() -> Self { Self }
        #[sv::msg(instantiate)]
        fn instantiate(&self, _ctx: InstantiateCtx) -> StdResult<Response> { Ok(Response::new()) }
        #[sv::msg(exec)]
        fn do_exec(&self, _ctx: ExecCtx) -> StdResult<Response> { Ok(Response::new()) }
        #[sv::msg(query)]
        fn do_query(&self, _ctx: QueryCtx) -> StdResult<Resp> { Ok(Resp {}) }
        #[sv::msg(sudo)]
        fn do_sudo(&self, _ctx: SudoCtx) -> StdResult<Response> { Ok(Response::new()) }
    }
}

pub mod s_inst_exec_repl_mr_r {
    use super::*;
    pub mod eps {
        use super::super::*;
        #[sylvia::cw_schema::cw_serde]
        pub struct CustomInstantiate {}
        #[sylvia::cw_schema::cw_serde]
        pub struct CustomExec {}
        pub fn instantiate(_deps: DepsMut, _env: Env, _info: MessageInfo, _msg: CustomInstantiate) -> StdResult<Response> { Ok(Response::new()) }
        pub fn execute(_deps: DepsMut, _env: Env, _info: MessageInfo, _msg: CustomExec) -> StdResult<Response> { Ok(Response::new()) }
        pub fn reply(_deps: DepsMut, _env: Env, _msg: Reply) -> StdResult<Response> { Ok(Response::new()) }
    }

    pub struct Contract;

    #[entry_points]
    #[contract]
    #[sv::features(replies)]
    #[sv::override_entry_point(instantiate=eps::instantiate(eps::CustomInstantiate))]
    #[sv::override_entry_point(exec=eps::execute(eps::CustomExec))]
    #[sv::override_entry_point(reply=eps::reply(sylvia::cw_std::Reply))]
    impl Contract {
        pub fn new() -> Self { Self }
        #[sv::msg(instantiate)]
        fn instantiate(&self, _ctx: InstantiateCtx) -> StdResult<Response> { Ok(Response::new()) }
        #[sv::msg(exec)]
        fn do_exec(&self, _ctx: ExecCtx) -> StdResult<Response> { Ok(Response::new()) }
        #[sv::msg(query)]
        fn do_query(&self, _ctx: QueryCtx) -> StdResult<Resp> { Ok(Resp {}) }
        #[sv::msg(sudo)]
        fn do_sudo(&self, _ctx: SudoCtx) -> StdResult<Response> { Ok(Response::new()) }
        #[sv::msg(migrate)]
        fn migrate(&self, _ctx: MigrateCtx) -> StdResult<Response> { Ok(Response::new()) }
        #[sv::msg(reply, handlers=[on_done], reply_on=success)]
        fn on_done(&self, _ctx: ReplyCtx, #[sv::payload(raw)] _payload: Binary) -> StdResult<Response> { Ok(Response::new()) }
    }
}

pub mod s_inst_exec_repl_mr_l {
    use super::*;
    pub mod eps {
        use super::super::*;
        #[sylvia::cw_schema::cw_serde]
        pub struct CustomInstantiate {}
        #[sylvia::cw_schema::cw_serde]
        pub struct CustomExec {}
        pub fn instantiate(_deps: DepsMut, _env: Env, _info: MessageInfo, _msg: CustomInstantiate) -> StdResult<Response> { Ok(Response::new()) }
        pub fn execute(_deps: DepsMut, _env: Env, _info: MessageInfo, _msg: CustomExec) -> StdResult<Response> { Ok(Response::new()) }
        pub fn reply(_deps: DepsMut, _env: Env, _msg: Reply) -> StdResult<Response> { Ok(Response::new()) }
    }

    pub struct Contract;

    #[entry_points]
    #[contract]
    #[sv::override_entry_point(instantiate=eps::instantiate(eps::CustomInstantiate))]
    #[sv::override_entry_point(exec=eps::execute(eps::CustomExec))]
    #[sv::override_entry_point(reply=eps::reply(sylvia::cw_std::Reply))]
    impl Contract {
        pub fn new() -> Self { Self }
        #[sv::msg(instantiate)]
        fn instantiate(&self, _ctx: InstantiateCtx) -> StdResult<Response> { Ok(Response::new()) }
        #[sv::msg(exec)]
        fn do_exec(&self, _ctx: ExecCtx) -> StdResult<Response> { Ok(Response::new()) }
        #[sv::msg(query)]
        fn do_query(&self, _ctx: QueryCtx) -> StdResult<Resp> { Ok(Resp {}) }
        #[sv::msg(sudo)]
        fn do_sudo(&self, _ctx: SudoCtx) -> StdResult<Response> { Ok(Response::new()) }
        #[sv::msg(migrate)]
        fn migrate(&self, _ctx: MigrateCtx) -> StdResult<Response> { Ok(Response::new()) }
        #[sv::msg(reply)]
        fn reply(&self, _ctx: sylvia::types::ReplyCtx, _msg: Reply) -> StdResult<Response> { Ok(Response::new()) }
    }
}

pub mod s_inst_exec_repl_nomr_r {
    use super::*;
    pub mod eps {
        use super::super::*;
        #[sylvia::cw_schema::cw_serde]
        pub struct CustomInstantiate {}
        #[sylvia::cw_schema::cw_serde]
        pub struct CustomExec {}
        pub fn instantiate(_deps: DepsMut, _env: Env, _info: MessageInfo, _msg: CustomInstantiate) -> StdResult<Response> { Ok(Response::new()) }
        pub fn execute(_deps: DepsMut, _env: Env, _info: MessageInfo, _msg: CustomExec) -> StdResult<Response> { Ok(Response::new()) }
        pub fn reply(_deps: DepsMut, _env: Env, _msg: Reply) -> StdResult<Response> { Ok(Response::new()) }
    }

    pub struct Contract;

    #[entry_points]
    #[contract]
    #[sv::features(replies)]
    #[sv::override_entry_point(instantiate=eps::instantiate(eps::CustomInstantiate))]
    #[sv::override_entry_point(exec=eps::execute(eps::CustomExec))]
    #[sv::override_entry_point(reply=eps::reply(sylvia::cw_std::Reply))]
    impl Contract {
        pub fn new() -> Self { Self }
        #[sv::msg(instantiate)]
        fn instantiate(&self, _ctx: InstantiateCtx) -> StdResult<Response> { Ok(Response::new()) }
        #[sv::msg(exec)]
        fn do_exec(&self, _ctx: ExecCtx) -> StdResult<Response> { Ok(Response::new()) }
        #[sv::msg(query)]
        fn do_query(&self, _ctx: QueryCtx) -> StdResult<Resp> { Ok(Resp {}) }
        #[sv::msg(sudo)]
        fn do_sudo(&self, _ctx: SudoCtx) -> StdResult<Response> { Ok(Response::new()) }
    }
}

pub mod s_inst_exec_repl_nomr_l {
    use super::*;
    pub mod eps {
        use super::super::*;
        #[sylvia::cw_schema::cw_serde]
        pub struct CustomInstantiate {}
        #[sylvia::cw_schema::cw_serde]
        pub struct CustomExec {}
        pub fn instantiate(_deps: DepsMut, _env: Env, _info: MessageInfo, _msg: CustomInstantiate) -> StdResult<Response> { Ok(Response::new()) }
        pub fn execute(_deps: DepsMut, _env: Env, _info: MessageInfo, _msg: CustomExec) -> StdResult<Response> { Ok(Response::new()) }
        pub fn reply(_deps: DepsMut, _env: Env, _msg: Reply) -> StdResult<Response> { Ok(Response::new()) }
    }

    pub struct Contract;

    #[entry_points]
    #[contract]
    #[sv::override_entry_point(instantiate=eps::instantiate(eps::CustomInstantiate))]
    #[sv::override_entry_point(exec=eps::execute(eps::CustomExec))]
    #[sv::override_entry_point(reply=eps::reply(sylvia::cw_std::Reply))]
    impl Contract {
        pub fn new() -> Self { Self }
        #[sv::msg(instantiate)]
        fn instantiate(&self, _ctx: InstantiateCtx) -> StdResult<Response> { Ok(Response::new()) }
        #[sv::msg(exec)]
        fn do_exec(&self, _ctx: ExecCtx) -> StdResult<Response> { Ok(Response::new()) }
        #[sv::msg(query)]
        fn do_query(&self, _ctx: QueryCtx) -> StdResult<Resp> { Ok(Resp {}) }
        #[sv::msg(sudo)]
        fn do_sudo(&self, _ctx: SudoCtx) -> StdResult<Response> { Ok(Response::new()) }
    }
}

pub mod s_inst_quer_sudo_mr_r {
    use super::*;
    pub mod eps {
        use super::super::*;
        #[sylvia::cw_schema::cw_serde]
        pub struct CustomInstantiate {}
        #[sylvia::cw_schema::cw_serde]
        pub struct CustomQuery {}
        #[sylvia::cw_schema::cw_serde]
        pub struct CustomSudo {}
        pub fn instantiate(_deps: DepsMut, _env: Env, _info: MessageInfo, _msg: CustomInstantiate) -> StdResult<Response> { Ok(Response::new()) }
        pub fn query(_deps: Deps, _env: Env, _msg: CustomQuery) -> StdResult<Binary> { Ok(Binary::default()) }
        pub fn sudo(_deps: DepsMut, _env: Env, _msg: CustomSudo) -> StdResult<Response> { Ok(Response::new()) }
    }

    pub struct Contract;

    #[entry_points]
    #[contract]
    #[sv::features(replies)]
    #[sv::override_entry_point(instantiate=eps::instantiate(eps::CustomInstantiate))]
    #[sv::override_entry_point(query=eps::query(eps::CustomQuery))]
    #[sv::override_entry_point(sudo=eps::sudo(eps::CustomSudo))]
    impl Contract {
        pub fn new() -> Self { Self }
        #[sv::msg(instantiate)]
        fn instantiate(&self, _ctx: InstantiateCtx) -> StdResult<Response> { Ok(Response::new()) }
        #[sv::msg(exec)]
        fn do_exec(&self, _ctx: ExecCtx) -> StdResult<Response> { Ok(Response::new()) }
        #[sv::msg(query)]
        fn do_query(&self, _ctx: QueryCtx) -> StdResult<Resp> { Ok(Resp {}) }
        #[sv::msg(sudo)]
        fn do_sudo(&self, _ctx: SudoCtx) -> StdResult<Response> { Ok(Response::new()) }
        #[sv::msg(migrate)]
        fn migrate(&self, _ctx: MigrateCtx) -> StdResult<Response> { Ok(Response::new()) }
        #[sv::msg(reply, handlers=[on_done], reply_on=success)]
        fn on_done(&self, _ctx: ReplyCtx, #[sv::payload(raw)] _payload: Binary) -> StdResult<Response> { Ok(Response::new()) }
    }
}

pub mod s_inst_quer_sudo_mr_l {
    use super::*;
    pub mod eps {
        use super::super::*;
        #[sylvia::cw_schema::cw_serde]
        pub struct CustomInstantiate {}
        #[sylvia::cw_schema::cw_serde]
        pub struct CustomQuery {}
        #[sylvia::cw_schema::cw_serde]
        pub struct CustomSudo {}
        pub fn instantiate(_deps: DepsMut, _env: Env, _info: MessageInfo, _msg: CustomInstantiate) -> StdResult<Response> { Ok(Response::new()) }
        pub fn query(_deps: Deps, _env: Env, _msg: CustomQuery) -> StdResult<Binary> { Ok(Binary::default()) }
        pub fn sudo(_deps: DepsMut, _env: Env, _msg: CustomSudo) -> StdResult<Response> { Ok(Response::new()) }
    }

    pub struct Contract;

    #[entry_points]
    #[contract]
    #[sv::override_entry_point(instantiate=eps::instantiate(eps::CustomInstantiate))]
    #[sv::override_entry_point(query=eps::query(eps::CustomQuery))]
    #[sv::override_entry_point(sudo=eps::sudo(eps::CustomSudo))]
    impl Contract {
        pub fn new() -> Self { Self }
        #[sv::msg(instantiate)]
        fn instantiate(&self, _ctx: InstantiateCtx) -> StdResult<Response> { Ok(Response::new()) }
        #[sv::msg(exec)]
        fn do_exec(&self, _ctx: ExecCtx) -> StdResult<Response> { Ok(Response::new()) }
        #[sv::msg(query)]
        fn do_query(&self, _ctx: QueryCtx) -> StdResult<Resp> { Ok(Resp {}) }
        #[sv::msg(sudo)]
        fn do_sudo(&self, _ctx: SudoCtx) -> StdResult<Response> { Ok(Response::new()) }
        #[sv::msg(migrate)]
        fn migrate(&self, _ctx: MigrateCtx) -> StdResult<Response> { Ok(Response::new()) }
        #[sv::msg(reply)]
        fn reply(&self, _ctx: sylvia::types::ReplyCtx, _msg: Reply) -> StdResult<Response> { Ok(Response::new()) }
    }
}

pub mod s_inst_quer_sudo_nomr_r {
    use super::*;
    pub mod eps {
        use super::super::*;
        #[sylvia::cw_schema::cw_serde]
        pub struct CustomInstantiate {}
        #[sylvia::cw_schema::cw_serde]
        pub struct CustomQuery {}
        #[sylvia::cw_schema::cw_serde]
        pub struct CustomSudo {}
        pub fn instantiate(_deps: DepsMut, _env: Env, _info: MessageInfo, _msg: CustomInstantiate) -> StdResult<Response> { Ok(Response::new()) }
        pub fn query(_deps: Deps, _env: Env, _msg: CustomQuery) -> StdResult<Binary> { Ok(Binary::default()) }
        pub fn sudo(_deps: DepsMut, _env: Env, _msg: CustomSudo) -> StdResult<Response> { Ok(Response::new()) }
    }

    pub struct Contract;

    #[entry_points]
    #[contract]
    #[sv::features(replies)]
    #[sv::override_entry_point(instantiate=eps::instantiate(eps::CustomInstantiate))]
    #[sv::override_entry_point(query=eps::query(eps::CustomQuery))]
    #[sv::override_entry_point(sudo=eps::sudo(eps::CustomSudo))]
    impl Contract {
        pub fn new() -> Self { Self }
        #[sv::msg(instantiate)]
        fn instantiate(&self, _ctx: InstantiateCtx) -> StdResult<Response> { Ok(Response::new()) }
        #[sv::msg(exec)]
        fn do_exec(&self, _ctx: ExecCtx) -> StdResult<Response> { Ok(Response::new()) }
        #[sv::msg(query)]
        fn do_query(&self, _ctx: QueryCtx) -> StdResult<Resp> { Ok(Resp {}) }
        #[sv::msg(sudo)]
        fn do_sudo(&self, _ctx: SudoCtx) -> StdResult<Response> { Ok(Response::new()) }
    }
}

pub mod s_inst_quer_sudo_nomr_l {
    use super::*;
    pub mod eps {
        use super::super::*;
        #[sylvia::cw_schema::cw_serde]
        pub struct CustomInstantiate {}
        #[sylvia::cw_schema::cw_serde]
        pub struct CustomQuery {}
        #[sylvia::cw_schema::cw_serde]
        pub struct CustomSudo {}
        pub fn instantiate(_deps: DepsMut, _env: Env, _info: MessageInfo, _msg: CustomInstantiate) -> StdResult<Response> { Ok(Response::new()) }
        pub fn query(_deps: Deps, _env: Env, _msg: CustomQuery) -> StdResult<Binary> { Ok(Binary::default()) }
        pub fn sudo(_deps: DepsMut, _env: Env, _msg: CustomSudo) -> StdResult<Response> { Ok(Response::new()) }
    }

    pub struct Contract;

    #[entry_points]
    #[contract]
    #[sv::override_entry_point(instantiate=eps::instantiate(eps::CustomInstantiate))]
    #[sv::override_entry_point(query=eps::query(eps::CustomQuery))]
    #[sv::override_entry_point(sudo=eps::sudo(eps::CustomSudo))]
    impl Contract {
        pub fn new() -> Self { Self }
        #[sv::msg(instantiate)]
        fn instantiate(&self, _ctx: InstantiateCtx) -> StdResult<Response> { Ok(Response::new()) }
        #[sv::msg(exec)]
        fn do_exec(&self, _ctx: ExecCtx) -> StdResult<Response> { Ok(Response::new()) }
        #[sv::msg(query)]
        fn do_query(&self, _ctx: QueryCtx) -> StdResult<Resp> { Ok(Resp {}) }
        #[sv::msg(sudo)]
        fn do_sudo(&self, _ctx: SudoCtx) -> StdResult<Response> { Ok(Response::new()) }
    }
}

pub mod s_inst_quer_migr_mr_r {
    use super::*;
    pub mod eps {
        use super::super::*;
        #[sylvia::cw_schema::cw_serde]
        pub struct CustomInstantiate {}
        #[sylvia::cw_schema::cw_serde]
        pub struct CustomQuery {}
        #[sylvia::cw_schema::cw_serde]
        pub struct CustomMigrate {}
        pub fn instantiate(_deps: DepsMut, _env: Env, _info: MessageInfo, _msg: CustomInstantiate) -> StdResult<Response> { Ok(Response::new()) }
        pub fn query(_deps: Deps, _env: Env, _msg: CustomQuery) -> StdResult<Binary> { Ok(Binary::default()) }
        pub fn migrate(_deps: DepsMut, _env: Env, _msg: CustomMigrate) -> StdResult<Response> { Ok(Response::new()) }
    }

    pub struct Contract;

    #[entry_points]
    #[contract]
    #[sv::features(replies)]
    #[sv::override_entry_point(instantiate=eps::instantiate(eps::CustomInstantiate))]
    #[sv::override_entry_point(query=eps::query(eps::CustomQuery))]
    #[sv::override_entry_point(migrate=eps::migrate(eps::CustomMigrate))]
    impl Contract {
        pub fn new() -> Self { Self }
        #[sv::msg(instantiate)]
        fn instantiate(&self, _ctx: InstantiateCtx) -> StdResult<Response> { Ok(Response::new()) }
        #[sv::msg(exec)]
        fn do_exec(&self, _ctx: ExecCtx) -> StdResult<Response> { Ok(Response::new()) }
        #[sv::msg(query)]
        fn do_query(&self, _ctx: QueryCtx) -> StdResult<Resp> { Ok(Resp {}) }
        #[sv::msg(sudo)]
        fn do_sudo(&self, _ctx: SudoCtx) -> StdResult<Response> { Ok(Response::new()) }
        #[sv::msg(migrate)]
        fn migrate(&self, _ctx: MigrateCtx) -> StdResult<Response> { Ok(Response::new()) }
        #[sv::msg(reply, handlers=[on_done], reply_on=success)]
        fn on_done(&self, _ctx: ReplyCtx, #[sv::payload(raw)] _payload: Binary) -> StdResult<Response> { Ok(Response::new()) }
    }
}

pub mod s_inst_quer_migr_mr_l {
    use super::*;
    pub mod eps {
        use super::super::*;
        #[sylvia::cw_schema::cw_serde]
        pub struct CustomInstantiate {}
        #[sylvia::cw_schema::cw_serde]
        pub struct CustomQuery {}
        #[sylvia::cw_schema::cw_serde]
        pub struct CustomMigrate {}
        pub fn instantiate(_deps: DepsMut, _env: Env, _info: MessageInfo, _msg: CustomInstantiate) -> StdResult<Response> { Ok(Response::new()) }
        pub fn query(_deps: Deps, _env: Env, _msg: CustomQuery) -> StdResult<Binary> { Ok(Binary::default()) }
        pub fn migrate(_deps: DepsMut, _env: Env, _msg: CustomMigrate) -> StdResult<Response> { Ok(Response::new()) }
    }

    pub struct Contract;

    #[entry_points]
    #[contract]
    #[sv::override_entry_point(instantiate=eps::instantiate(eps::CustomInstantiate))]
    #[sv::override_entry_point(query=eps::query(eps::CustomQuery))]
    #[sv::override_entry_point(migrate=eps::migrate(eps::CustomMigrate))]
    impl Contract {
        pub fn new() -> Self { Self }
        #[sv::msg(instantiate)]
        fn instantiate(&self, _ctx: InstantiateCtx) -> StdResult<Response> { Ok(Response::new()) }
        #[sv::msg(exec)]
        fn do_exec(&self, _ctx: ExecCtx) -> StdResult<Response> { Ok(Response::new()) }
        #[sv::msg(query)]
        fn do_query(&self, _ctx: QueryCtx) -> StdResult<Resp> { Ok(Resp {}) }
        #[sv::msg(sudo)]
        fn do_sudo(&self, _ctx: SudoCtx) -> StdResult<Response> { Ok(Response::new()) }
        #[sv::msg(migrate)]
        fn migrate(&self, _ctx: MigrateCtx) -> StdResult<Response> { Ok(Response::new()) }
        #[sv::msg(reply)]
        fn reply(&self, _ctx: sylvia::types::ReplyCtx, _msg: Reply) -> StdResult<Response> { Ok(Response::new()) }
    }
}

pub mod s_inst_quer_migr_nomr_r {
    use super::*;
    pub mod eps {
        use super::super::*;
        #[sylvia::cw_schema::cw_serde]
        pub struct CustomInstantiate {}
        #[sylvia::cw_schema::cw_serde]
        pub struct CustomQuery {}
        #[sylvia::cw_schema::cw_serde]
        pub struct CustomMigrate {}
        pub fn instantiate(_deps: DepsMut, _env: Env, _info: MessageInfo, _msg: CustomInstantiate) -> StdResult<Response> { Ok(Response::new()) }
        pub fn query(_deps: Deps, _env: Env, _msg: CustomQuery) -> StdResult<Binary> { Ok(Binary::default()) }
        pub fn migrate(_deps: DepsMut, _env: Env, _msg: CustomMigrate) -> StdResult<Response> { Ok(Response::new()) }
    }

    pub struct Contract;

    #[entry_points]
    #[contract]
    #[sv::features(replies)]
    #[sv::override_entry_point(instantiate=eps::instantiate(eps::CustomInstantiate))]
    #[sv::override_entry_point(query=eps::query(eps::CustomQuery))]
    #[sv::override_entry_point(migrate=eps::migrate(eps::CustomMigrate))]
    impl Contract {
        pub fn new() -> Self { Self }
        #[sv::msg(instantiate)]
        fn instantiate(&self, _ctx: InstantiateCtx) -> StdResult<Response> { Ok(Response::new()) }
        #[sv::msg(exec)]
        fn do_exec(&self, _ctx: ExecCtx) -> StdResult<Response> { Ok(Response::new()) }
        #[sv::msg(query)]
        fn do_query(&self, _ctx: QueryCtx) -> StdResult<Resp> { Ok(Resp {}) }
        #[sv::msg(sudo)]
        fn do_sudo(&self, _ctx: SudoCtx) -> StdResult<Response> { Ok(Response::new()) }
    }
}

pub mod s_inst_quer_migr_nomr_l {
    use super::*;
    pub mod eps {
        use super::super::*;
        #[sylvia::cw_schema::cw_serde]
        pub struct CustomInstantiate {}
        #[sylvia::cw_schema::cw_serde]
        pub struct CustomQuery {}
        #[sylvia::cw_schema::cw_serde]
        pub struct CustomMigrate {}
        pub fn instantiate(_deps: DepsMut, _env: Env, _info: MessageInfo, _msg: CustomInstantiate) -> StdResult<Response> { Ok(Response::new()) }
        pub fn query(_deps: Deps, _env: Env, _msg: CustomQuery) -> StdResult<Binary> { Ok(Binary::default()) }
        pub fn migrate(_deps: DepsMut, _env: Env, _msg: CustomMigrate) -> StdResult<Response> { Ok(Response::new()) }
    }

    pub struct Contract;

    #[entry_points]
    #[contract]
    #[sv::override_entry_point(instantiate=eps::instantiate(eps::CustomInstantiate))]
    #[sv::override_entry_point(query=eps::query(eps::CustomQuery))]
    #[sv::override_entry_point(migrate=eps::migrate(eps::CustomMigrate))]
    impl Contract {
        pub fn new() -> Self { Self }
        #[sv::msg(instantiate)]
        fn instantiate(&self, _ctx: InstantiateCtx) -> StdResult<Response> { Ok(Response::new()) }
        #[sv::msg(exec)]
        fn do_exec(&self, _ctx: ExecCtx) -> StdResult<Response> { Ok(Response::new()) }
        #[sv::msg(query)]
        fn do_query(&self, _ctx: QueryCtx) -> StdResult<Resp> { Ok(Resp {}) }
        #[sv::msg(sudo)]
        fn do_sudo(&self, _ctx: SudoCtx) -> StdResult<Response> { Ok(Response::new()) }
    }
}

pub mod s_inst_quer_repl_mr_r {
    use super::*;
    pub mod eps {
        use super::super::*;
        #[sylvia::cw_schema::cw_serde]
        pub struct CustomInstantiate {}
        #[sylvia::cw_schema::cw_serde]
        pub struct CustomQuery {}
        pub fn instantiate(_deps: DepsMut, _env: Env, _info: MessageInfo, _msg: CustomInstantiate) -> StdResult<Response> { Ok(Response::new()) }
        pub fn query(_deps: Deps, _env: Env, _msg: CustomQuery) -> StdResult<Binary> { Ok(Binary::default()) }
        pub fn reply(_deps: DepsMut, _env: Env, _msg: Reply) -> StdResult<Response> { Ok(Response::new()) }
    }

    pub struct Contract;

    #[entry_points]
    #[contract]
    #[sv::features(replies)]
    #[sv::override_entry_point(instantiate=eps::instantiate(eps::CustomInstantiate))]
    #[sv::override_entry_point(query=eps::query(eps::CustomQuery))]
    #[sv::override_entry_point(reply=eps::reply(sylvia::cw_std::Reply))]
    impl Contract {
        pub fn new() -> Self { Self }
        #[sv::msg(instantiate)]
        fn instantiate(&self, _ctx: InstantiateCtx) -> StdResult<Response> { Ok(Response::new()) }
        #[sv::msg(exec)]
        fn do_exec(&self, _ctx: ExecCtx) -> StdResult<Response> { Ok(Response::new()) }
        #[sv::msg(query)]
        fn do_query(&self, _ctx: QueryCtx) -> StdResult<Resp> { Ok(Resp {}) }
        #[sv::msg(sudo)]
        fn do_sudo(&self, _ctx: SudoCtx) -> StdResult<Response> { Ok(Response::new()) }
        #[sv::msg(migrate)]
        fn migrate(&self, _ctx: MigrateCtx) -> StdResult<Response> { Ok(Response::new()) }
        #[sv::msg(reply, handlers=[on_done], reply_on=success)]
        fn on_done(&self, _ctx: ReplyCtx, #[sv::payload(raw)] _payload: Binary) -> StdResult<Response> { Ok(Response::new()) }
    }
}

pub mod s_inst_quer_repl_mr_l {
    use super::*;
    pub mod eps {
        use super::super::*;
        #[sylvia::cw_schema::cw_serde]
        pub struct CustomInstantiate {}
        #[sylvia::cw_schema::cw_serde]
        pub struct CustomQuery {}
        pub fn instantiate(_deps: DepsMut, _env: Env, _info: MessageInfo, _msg: CustomInstantiate) -> StdResult<Response> { Ok(Response::new()) }
        pub fn query(_deps: Deps, _env: Env, _msg: CustomQuery) -> StdResult<Binary> { Ok(Binary::default()) }
        pub fn reply(_deps: DepsMut, _env: Env, _msg: Reply) -> StdResult<Response> { Ok(Response::new()) }
    }

    pub struct Contract;

    #[entry_points]
    #[contract]
    #[sv::override_entry_point(instantiate=eps::instantiate(eps::CustomInstantiate))]
    #[sv::override_entry_point(query=eps::query(eps::CustomQuery))]
    #[sv::override_entry_point(reply=eps::reply(sylvia::cw_std::Reply))]
    impl Contract {
        pub fn new() -> Self { Self }
        #[sv::msg(instantiate)]
        fn instantiate(&self, _ctx: InstantiateCtx) -> StdResult<Response> { Ok(Response::new()) }
        #[sv::msg(exec)]
        fn do_exec(&self, _ctx: ExecCtx) -> StdResult<Response> { Ok(Response::new()) }
        #[sv::msg(query)]
        fn do_query(&self, _ctx: QueryCtx) -> StdResult<Resp> { Ok(Resp {}) }
        #[sv::msg(sudo)]
        fn do_sudo(&self, _ctx: SudoCtx) -> StdResult<Response> { Ok(Response::new()) }
        #[sv::msg(migrate)]
        fn migrate(&self, _ctx: MigrateCtx) -> StdResult<Response> { Ok(Response::new()) }
        #[sv::msg(reply)]
        fn reply(&self, _ctx: sylvia::types::ReplyCtx, _msg: Reply) -> StdResult<Response> { Ok(Response::new()) }
    }
}

pub mod s_inst_quer_repl_nomr_r {
    use super::*;
    pub mod eps {
        use super::super::*;
        #[sylvia::cw_schema::cw_serde]
        pub struct CustomInstantiate {}
        #[sylvia::cw_schema::cw_serde]
        pub struct CustomQuery {}
        pub fn instantiate(_deps: DepsMut, _env: Env, _info: MessageInfo, _msg: CustomInstantiate) -> StdResult<Response> { Ok(Response::new()) }
        pub fn query(_deps: Deps, _env: Env, _msg: CustomQuery) -> StdResult<Binary> { Ok(Binary::default()) }
        pub fn reply(_deps: DepsMut, _env: Env, _msg: Reply) -> StdResult<Response> { Ok(Response::new()) }
    }

    pub struct Contract;

    #[entry_points]
    #[contract]
    #[sv::features(replies)]
    #[sv::override_entry_point(instantiate=eps::instantiate(eps::CustomInstantiate))]
    #[sv::override_entry_point(query=eps::query(eps::CustomQuery))]
    #[sv::override_entry_point(reply=eps::reply(sylvia::cw_std::Reply))]
    impl Contract {
        pub fn new() -> Self { Self }
        #[sv::msg(instantiate)]
        fn instantiate(&self, _ctx: InstantiateCtx) -> StdResult<Response> { Ok(Response::new()) }
        #[sv::msg(exec)]
        fn do_exec(&self, _ctx: ExecCtx) -> StdResult<Response> { Ok(Response::new()) }
        #[sv::msg(query)]
        fn do_query(&self, _ctx: QueryCtx) -> StdResult<Resp> { Ok(Resp {}) }
        #[sv::msg(sudo)]
        fn do_sudo(&self, _ctx: SudoCtx) -> StdResult<Response> { Ok(Response::new()) }
    }
}

pub mod s_inst_quer_repl_nomr_l {
    use super::*;
    pub mod eps {
        use super::super::*;
        #[sylvia::cw_schema::cw_serde]
        pub struct CustomInstantiate {}
        #[sylvia::cw_schema::cw_serde]
        pub struct CustomQuery {}
        pub fn instantiate(_deps: DepsMut, _env: Env, _info: MessageInfo, _msg: CustomInstantiate) -> StdResult<Response> { Ok(Response::new()) }
        pub fn query(_deps: Deps, _env: Env, _msg: CustomQuery) -> StdResult<Binary> { Ok(Binary::default()) }
        pub fn reply(_deps: DepsMut, _env: Env, _msg: Reply) -> StdResult<Response> { Ok(Response::new()) }
    }

    pub struct Contract;

    #[entry_points]
    #[contract]
    #[sv::override_entry_point(instantiate=eps::instantiate(eps::CustomInstantiate))]
    #[sv::override_entry_point(query=eps::query(eps::CustomQuery))]
    #[sv::override_entry_point(reply=eps::reply(sylvia::cw_std::Reply))]
    impl Contract {
        pub fn new() -> Self { Self }
        #[sv::msg(instantiate)]
        fn instantiate(&self, _ctx: InstantiateCtx) -> StdResult<Response> { Ok(Response::new()) }
        #[sv::msg(exec)]
        fn do_exec(&self, _ctx: ExecCtx) -> StdResult<Response> { Ok(Response::new()) }
        #[sv::msg(query)]
        fn do_query(&self, _ctx: QueryCtx) -> StdResult<Resp> { Ok(Resp {}) }
        #[sv::msg(sudo)]
        fn do_sudo(&self, _ctx: SudoCtx) -> StdResult<Response> { Ok(Response::new()) }
    }
}

pub mod s_inst_sudo_migr_mr_r {
    use super::*;
    pub mod eps {
        use super::super::*;
        #[sylvia::cw_schema::cw_serde]
        pub struct CustomInstantiate {}
        #[sylvia::cw_schema::cw_serde]
        pub struct CustomSudo {}
        #[sylvia::cw_schema::cw_serde]
        pub struct CustomMigrate {}
        pub fn instantiate(_deps: DepsMut, _env: Env, _info: MessageInfo, _msg: CustomInstantiate) -> StdResult<Response> { Ok(Response::new()) }
        pub fn sudo(_deps: DepsMut, _env: Env, _msg: CustomSudo) -> StdResult<Response> { Ok(Response::new()) }
        pub fn migrate(_deps: DepsMut, _env: Env, _msg: CustomMigrate) -> StdResult<Response> { Ok(Response::new()) }
    }

    pub struct Contract;

    #[entry_points]
    #[contract]
    #[sv::features(replies)]
    #[sv::override_entry_point(instantiate=eps::instantiate(eps::CustomInstantiate))]
    #[sv::override_entry_point(sudo=eps::sudo(eps::CustomSudo))]
    #[sv::override_entry_point(migrate=eps::migrate(eps::CustomMigrate))]
    impl Contract {
        pub fn new() -> Self { Self }
        #[sv::msg(instantiate)]
        fn instantiate(&self, _ctx: InstantiateCtx) -> StdResult<Response> { Ok(Response::new()) }
        #[sv::msg(exec)]
        fn do_exec(&self, _ctx: ExecCtx) -> StdResult<Response> { Ok(Response::new()) }
        #[sv::msg(query)]
        fn do_query(&self, _ctx: QueryCtx) -> StdResult<Resp> { Ok(Resp {}) }
        #[sv::msg(sudo)]
        fn do_sudo(&self, _ctx: SudoCtx) -> StdResult<Response> { Ok(Response::new()) }
        #[sv::msg(migrate)]
        fn migrate(&self, _ctx: MigrateCtx) -> StdResult<Response> { Ok(Response::new()) }
        #[sv::msg(reply, handlers=[on_done], reply_on=success)]
        fn on_done(&self, _ctx: ReplyCtx, #[sv::payload(raw)] _payload: Binary) -> StdResult<Response> { Ok(Response::new()) }
    }
}

pub mod s_inst_sudo_migr_mr_l {
    use super::*;
    pub mod eps {
        use super::super::*;
        #[sylvia::cw_schema::cw_serde]
        pub struct CustomInstantiate {}
        #[sylvia::cw_schema::cw_serde]
        pub struct CustomSudo {}
        #[sylvia::cw_schema::cw_serde]
        pub struct CustomMigrate {}
        pub fn instantiate(_deps: DepsMut, _env: Env, _info: MessageInfo, _msg: CustomInstantiate) -> StdResult<Response> { Ok(Response::new()) }
        pub fn sudo(_deps: DepsMut, _env: Env, _msg: CustomSudo) -> StdResult<Response> { Ok(Response::new()) }
        pub fn migrate(_deps: DepsMut, _env: Env, _msg: CustomMigrate) -> StdResult<Response> { Ok(Response::new()) }
    }

    pub struct Contract;

    #[entry_points]
    #[contract]
    #[sv::override_entry_point(instantiate=eps::instantiate(eps::CustomInstantiate))]
    #[sv::override_entry_point(sudo=eps::sudo(eps::CustomSudo))]
    #[sv::override_entry_point(migrate=eps::migrate(eps::CustomMigrate))]
    impl Contract {
        pub fn new() -> Self { Self }
        #[sv::msg(instantiate)]
        fn instantiate(&self, _ctx: InstantiateCtx) -> StdResult<Response> { Ok(Response::new()) }
        #[sv::msg(exec)]
        fn do_exec(&self, _ctx: ExecCtx) -> StdResult<Response> { Ok(Response::new()) }
        #[sv::msg(query)]
        fn do_query(&self, _ctx: QueryCtx) -> StdResult<Resp> { Ok(Resp {}) }
        #[sv::msg(sudo)]
        fn do_sudo(&self, _ctx: SudoCtx) -> StdResult<Response> { Ok(Response::new()) }
        #[sv::msg(migrate)]
        fn migrate(&self, _ctx: MigrateCtx) -> StdResult<Response> { Ok(Response::new()) }
        #[sv::msg(reply)]
        fn reply(&self, _ctx: sylvia::types::ReplyCtx, _msg: Reply) -> StdResult<Response> { Ok(Response::new()) }
    }
}

pub mod s_inst_sudo_migr_nomr_r {
    use super::*;
    pub mod eps {
        use super::super::*;
        #[sylvia::cw_schema::cw_serde]
        pub struct CustomInstantiate {}
        #[sylvia::cw_schema::cw_serde]
        pub struct CustomSudo {}
        #[sylvia::cw_schema::cw_serde]
        pub struct CustomMigrate {}
        pub fn instantiate(_deps: DepsMut, _env: Env, _info: MessageInfo, _msg: CustomInstantiate) -> StdResult<Response> { Ok(Response::new()) }
        pub fn sudo(_deps: DepsMut, _env: Env, _msg: CustomSudo) -> StdResult<Response> { Ok(Response::new()) }
        pub fn migrate(_deps: DepsMut, _env: Env, _msg: CustomMigrate) -> StdResult<Response> { Ok(Response::new()) }
    }

    pub struct Contract;

    #[entry_points]
    #[contract]
    #[sv::features(replies)]
    #[sv::override_entry_point(instantiate=eps::instantiate(eps::CustomInstantiate))]
    #[sv::override_entry_point(sudo=eps::sudo(eps::CustomSudo))]
    #[sv::override_entry_point(migrate=eps::migrate(eps::CustomMigrate))]
    impl Contract {
        pub fn new() -> Self { Self }
        #[sv::msg(instantiate)]
        fn instantiate(&self, _ctx: InstantiateCtx) -> StdResult<Response> { Ok(Response::new()) }
        #[sv::msg(exec)]
        fn do_exec(&self, _ctx: ExecCtx) -> StdResult<Response> { Ok(Response::new()) }
        #[sv::msg(query)]
        fn do_query(&self, _ctx: QueryCtx) -> StdResult<Resp> { Ok(Resp {}) }
        #[sv::msg(sudo)]
        fn do_sudo(&self, _ctx: SudoCtx) -> StdResult<Response> { Ok(Response::new()) }
    }
}

pub mod s_inst_sudo_migr_nomr_l {
    use super::*;
    pub mod eps {
        use super::super::*;
        #[sylvia::cw_schema::cw_serde]
        pub struct CustomInstantiate {}
        #[sylvia::cw_schema::cw_serde]
        pub struct CustomSudo {}
        #[sylvia::cw_schema::cw_serde]
        pub struct CustomMigrate {}
        pub fn instantiate(_deps: DepsMut, _env: Env, _info: MessageInfo, _msg: CustomInstantiate) -> StdResult<Response> { Ok(Response::new()) }
        pub fn sudo(_deps: DepsMut, _env: Env, _msg: CustomSudo) -> StdResult<Response> { Ok(Response::new()) }
        pub fn migrate(_deps: DepsMut, _env: Env, _msg: CustomMigrate) -> StdResult<Response> { Ok(Response::new()) }
    }

    pub struct Contract;

    #[entry_points]
    #[contract]
    #[sv::override_entry_point(instantiate=eps::instantiate(eps::CustomInstantiate))]
    #[sv::override_entry_point(sudo=eps::sudo(eps::CustomSudo))]
    #[sv::override_entry_point(migrate=eps::migrate(eps::CustomMigrate))]
    impl Contract {
        pub fn new() -> Self { Self }
        #[sv::msg(instantiate)]
        fn instantiate(&self, _ctx: InstantiateCtx) -> StdResult<Response> { Ok(Response::new()) }
        #[sv::msg(exec)]
        fn do_exec(&self, _ctx: ExecCtx) -> StdResult<Response> { Ok(Response::new()) }
        #[sv::msg(query)]
        fn do_query(&self, _ctx: QueryCtx) -> StdResult<Resp> { Ok(Resp {}) }
        #[sv::msg(sudo)]
        fn do_sudo(&self, _ctx: SudoCtx) -> StdResult<Response> { Ok(Response::new()) }
    }
}

pub mod s_inst_sudo_repl_mr_r {
    use super::*;
    pub mod eps {
        use super::super::*;
        #[sylvia::cw_schema::cw_serde]
        pub struct CustomInstantiate {}
        #[sylvia::cw_schema::cw_serde]
        pub struct CustomSudo {}
        pub fn instantiate(_deps: DepsMut, _env: Env, _info: MessageInfo, _msg: CustomInstantiate) -> StdResult<Response> { Ok(Response::new()) }
        pub fn sudo(_deps: DepsMut, _env: Env, _msg: CustomSudo) -> StdResult<Response> { Ok(Response::new()) }
        pub fn reply(_deps: DepsMut, _env: Env, _msg: Reply) -> StdResult<Response> { Ok(Response::new()) }
    }

    pub struct Contract;

    #[entry_points]
    #[contract]
    #[sv::features(replies)]
    #[sv::override_entry_point(instantiate=eps::instantiate(eps::CustomInstantiate))]
    #[sv::override_entry_point(sudo=eps::sudo(eps::CustomSudo))]
    #[sv::override_entry_point(reply=eps::reply(sylvia::cw_std::Reply))]
    impl Contract {
        pub fn new() -> Self { Self }
        #[sv::msg(instantiate)]
        fn instantiate(&self, _ctx: InstantiateCtx) -> StdResult<Response> { Ok(Response::new()) }
        #[sv::msg(exec)]
        fn do_exec(&self, _ctx: ExecCtx) -> StdResult<Response> { Ok(Response::new()) }
        #[sv::msg(query)]
        fn do_query(&self, _ctx: QueryCtx) -> StdResult<Resp> { Ok(Resp {}) }
        #[sv::msg(sudo)]
        fn do_sudo(&self, _ctx: SudoCtx) -> StdResult<Response> { Ok(Response::new()) }
        #[sv::msg(migrate)]
        fn migrate(&self, _ctx: MigrateCtx) -> StdResult<Response> { Ok(Response::new()) }
        #[sv::msg(reply, handlers=[on_done], reply_on=success)]
        fn on_done(&self, _ctx: ReplyCtx, #[sv::payload(raw)] _payload: Binary) -> StdResult<Response> { Ok(Response::new()) }
    }
}

pub mod s_inst_sudo_repl_mr_l {
    use super::*;
    pub mod eps {
        use super::super::*;
        #[sylvia::cw_schema::cw_serde]
        pub struct CustomInstantiate {}
        #[sylvia::cw_schema::cw_serde]
        pub struct CustomSudo {}
        pub fn instantiate(_deps: DepsMut, _env: Env, _info: MessageInfo, _msg: CustomInstantiate) -> StdResult<Response> { Ok(Response::new()) }
        pub fn sudo(_deps: DepsMut, _env: Env, _msg: CustomSudo) -> StdResult<Response> { Ok(Response::new()) }
        pub fn reply(_deps: DepsMut, _env: Env, _msg: Reply) -> StdResult<Response> { Ok(Response::new()) }
    }

    pub struct Contract;

    #[entry_points]
    #[contract]
    #[sv::override_entry_point(instantiate=eps::instantiate(eps::CustomInstantiate))]
    #[sv::override_entry_point(sudo=eps::sudo(eps::CustomSudo))]
    #[sv::override_entry_point(reply=eps::reply(sylvia::cw_std::Reply))]
    impl Contract {
        pub fn new() -> Self { Self }
        #[sv::msg(instantiate)]
        fn instantiate(&self, _ctx: InstantiateCtx) -> StdResult<Response> { Ok(Response::new()) }
        #[sv::msg(exec)]
        fn do_exec(&self, _ctx: ExecCtx) -> StdResult<Response> { Ok(Response::new()) }
        #[sv::msg(query)]
        fn do_query(&self, _ctx: QueryCtx) -> StdResult<Resp> { Ok(Resp {}) }
        #[sv::msg(sudo)]
        fn do_sudo(&self, _ctx: SudoCtx) -> StdResult<Response> { Ok(Response::new()) }
        #[sv::msg(migrate)]
        fn migrate(&self, _ctx: MigrateCtx) -> StdResult<Response> { Ok(Response::new()) }
        #[sv::msg(reply)]
        fn reply(&self, _ctx: sylvia::types::ReplyCtx, _msg: Reply) -> StdResult<Response> { Ok(Response::new()) }
    }
}

pub mod s_inst_sudo_repl_nomr_r {
    use super::*;
    pub mod eps {
        use super::super::*;
        #[sylvia::cw_schema::cw_serde]
        pub struct CustomInstantiate {}
        #[sylvia::cw_schema::cw_serde]
        pub struct CustomSudo {}
        pub fn instantiate(_deps: DepsMut, _env: Env, _info: MessageInfo, _msg: CustomInstantiate) -> StdResult<Response> { Ok(Response::new()) }
        pub fn sudo(_deps: DepsMut, _env: Env, _msg: CustomSudo) -> StdResult<Response> { Ok(Response::new()) }
        pub fn reply(_deps: DepsMut, _env: Env, _msg: Reply) -> StdResult<Response> { Ok(Response::new()) }
    }

    pub struct Contract;

    #[entry_points]
    #[contract]
    #[sv::features(replies)]
    #[sv::override_entry_point(instantiate=eps::instantiate(eps::CustomInstantiate))]
    #[sv::override_entry_point(sudo=eps::sudo(eps::CustomSudo))]
    #[sv::override_entry_point(reply=eps::reply(sylvia::cw_std::Reply))]
    impl Contract {
        pub fn new() -> Self { Self }
        #[sv::msg(instantiate)]
        fn instantiate(&self, _ctx: InstantiateCtx) -> StdResult<Response> { Ok(Response::new()) }
        #[sv::msg(exec)]
        fn do_exec(&self, _ctx: ExecCtx) -> StdResult<Response> { Ok(Response::new()) }
        #[sv::msg(query)]
        fn do_query(&self, _ctx: QueryCtx) -> StdResult<Resp> { Ok(Resp {}) }
        #[sv::msg(sudo)]
        fn do_sudo(&self, _ctx: SudoCtx) -> StdResult<Response> { Ok(Response::new()) }
    }
}

pub mod s_inst_sudo_repl_nomr_l {
    use super::*;
    pub mod eps {
        use super::super::*;
        #[sylvia::cw_schema::cw_serde]
        pub struct CustomInstantiate {}
        #[sylvia::cw_schema::cw_serde]
        pub struct CustomSudo {}
        pub fn instantiate(_deps: DepsMut, _env: Env, _info: MessageInfo, _msg: CustomInstantiate) -> StdResult<Response> { Ok(Response::new()) }
        pub fn sudo(_deps: DepsMut, _env: Env, _msg: CustomSudo) -> StdResult<Response> { Ok(Response::new()) }
        pub fn reply(_deps: DepsMut, _env: Env, _msg: Reply) -> StdResult<Response> { Ok(Response::new()) }
    }

    pub struct Contract;

    #[entry_points]
    #[contract]
    #[sv::override_entry_point(instantiate=eps::instantiate(eps::CustomInstantiate))]
    #[sv::override_entry_point(sudo=eps::sudo(eps::CustomSudo))]
    #[sv::override_entry_point(reply=eps::reply(sylvia::cw_std::Reply))]
    impl Contract {
        pub fn new() -> Self { Self }
        #[sv::msg(instantiate)]
        fn instantiate(&self, _ctx: InstantiateCtx) -> StdResult<Response> { Ok(Response::new()) }
        #[sv::msg(exec)]
        fn do_exec(&self, _ctx: ExecCtx) -> StdResult<Response> { Ok(Response::new()) }
        #[sv::msg(query)]
        fn do_query(&self, _ctx: QueryCtx) -> StdResult<Resp> { Ok(Resp {}) }
        #[sv::msg(sudo)]
        fn do_sudo(&self, _ctx: SudoCtx) -> StdResult<Response> { Ok(Response::new()) }
    }
}

pub mod s_inst_migr_repl_mr_r {
    use super::*;
    pub mod eps {
        use super::super::*;
        #[sylvia::cw_schema::cw_serde]
        pub struct CustomInstantiate {}
        #[sylvia::cw_schema::cw_serde]
        pub struct CustomMigrate {}
        pub fn instantiate(_deps: DepsMut, _env: Env, _info: MessageInfo, _msg: CustomInstantiate) -> StdResult<Response> { Ok(Response::new()) }
        pub fn migrate(_deps: DepsMut, _env: Env, _msg: CustomMigrate) -> StdResult<Response> { Ok(Response::new()) }
        pub fn reply(_deps: DepsMut, _env: Env, _msg: Reply) -> StdResult<Response> { Ok(Response::new()) }
    }

    pub struct Contract;

    #[entry_points]
    #[contract]
    #[sv::features(replies)]
    #[sv::override_entry_point(instantiate=eps::instantiate(eps::CustomInstantiate))]
    #[sv::override_entry_point(migrate=eps::migrate(eps::CustomMigrate))]
    #[sv::override_entry_point(reply=eps::reply(sylvia::cw_std::Reply))]
    impl Contract {
        pub fn new() -> Self { Self }
        #[sv::msg(instantiate)]
        fn instantiate(&self, _ctx: InstantiateCtx) -> StdResult<Response> { Ok(Response::new()) }
        #[sv::msg(exec)]
        fn do_exec(&self, _ctx: ExecCtx) -> StdResult<Response> { Ok(Response::new()) }
        #[sv::msg(query)]
        fn do_query(&self, _ctx: QueryCtx) -> StdResult<Resp> { Ok(Resp {}) }
        #[sv::msg(sudo)]
        fn do_sudo(&self, _ctx: SudoCtx) -> StdResult<Response> { Ok(Response::new()) }
        #[sv::msg(migrate)]
        fn migrate(&self, _ctx: MigrateCtx) -> StdResult<Response> { Ok(Response::new()) }
        #[sv::msg(reply, handlers=[on_done], reply_on=success)]
        fn on_done(&self, _ctx: ReplyCtx, #[sv::payload(raw)] _payload: Binary) -> StdResult<Response> { Ok(Response::new()) }
    }
}

pub mod s_inst_migr_repl_mr_l {
    use super::*;
    pub mod eps {
        use super::super::*;
        #[sylvia::cw_schema::cw_serde]
        pub struct CustomInstantiate {}
        #[sylvia::cw_schema::cw_serde]
        pub struct CustomMigrate {}
        pub fn instantiate(_deps: DepsMut, _env: Env, _info: MessageInfo, _msg: CustomInstantiate) -> StdResult<Response> { Ok(Response::new()) }
        pub fn migrate(_deps: DepsMut, _env: Env, _msg: CustomMigrate) -> StdResult<Response> { Ok(Response::new()) }
        pub fn reply(_deps: DepsMut, _env: Env, _msg: Reply) -> StdResult<Response> { Ok(Response::new()) }
    }

    pub struct Contract;

    #[entry_points]
    #[contract]
    #[sv::override_entry_point(instantiate=eps::instantiate(eps::CustomInstantiate))]
    #[sv::override_entry_point(migrate=eps::migrate(eps::CustomMigrate))]
    #[sv::override_entry_point(reply=eps::reply(sylvia::cw_std::Reply))]
    impl Contract {
        pub fn new() -> Self { Self }
        #[sv::msg(instantiate)]
        fn instantiate(&self, _ctx: InstantiateCtx) -> StdResult<Response> { Ok(Response::new()) }
        #[sv::msg(exec)]
        fn do_exec(&self, _ctx: ExecCtx) -> StdResult<Response> { Ok(Response::new()) }
        #[sv::msg(query)]
        fn do_query(&self, _ctx: QueryCtx) -> StdResult<Resp> { Ok(Resp {}) }
        #[sv::msg(sudo)]
        fn do_sudo(&self, _ctx: SudoCtx) -> StdResult<Response> { Ok(Response::new()) }
        #[sv::msg(migrate)]
        fn migrate(&self, _ctx: MigrateCtx) -> StdResult<Response> { Ok(Response::new()) }
        #[sv::msg(reply)]
        fn reply(&self, _ctx: sylvia::types::ReplyCtx, _msg: Reply) -> StdResult<Response> { Ok(Response::new()) }
    }
}

pub mod s_inst_migr_repl_nomr_r {
    use super::*;
    pub mod eps {
        use super::super::*;
        #[sylvia::cw_schema::cw_serde]
        pub struct CustomInstantiate {}
        #[sylvia::cw_schema::cw_serde]
        pub struct CustomMigrate {}
        pub fn instantiate(_deps: DepsMut, _env: Env, _info: MessageInfo, _msg: CustomInstantiate) -> StdResult<Response> { Ok(Response::new()) }
        pub fn migrate(_deps: DepsMut, _env: Env, _msg: CustomMigrate) -> StdResult<Response> { Ok(Response::new()) }
        pub fn reply(_deps: DepsMut, _env: Env, _msg: Reply) -> StdResult<Response> { Ok(Response::new()) }
    }

    pub struct Contract;

    #[entry_points]
    #[contract]
    #[sv::features(replies)]
    #[sv::override_entry_point(instantiate=eps::instantiate(eps::CustomInstantiate))]
    #[sv::override_entry_point(migrate=eps::migrate(eps::CustomMigrate))]
    #[sv::override_entry_point(reply=eps::reply(sylvia::cw_std::Reply))]
    impl Contract {
        pub fn new() -> Self { Self }
        #[sv::msg(instantiate)]
        fn instantiate(&self, _ctx: InstantiateCtx) -> StdResult<Response> { Ok(Response::new()) }
        #[sv::msg(exec)]
        fn do_exec(&self, _ctx: ExecCtx) -> StdResult<Response> { Ok(Response::new()) }
        #[sv::msg(query)]
        fn do_query(&self, _ctx: QueryCtx) -> StdResult<Resp> { Ok(Resp {}) }
        #[sv::msg(sudo)]
        fn do_sudo(&self, _ctx: SudoCtx) -> StdResult<Response> { Ok(Response::new()) }
    }
}

pub mod s_inst_migr_repl_nomr_l {
    use super::*;
    pub mod eps {
        use super::super::*;
        #[sylvia::cw_schema::cw_serde]
        pub struct CustomInstantiate {}
        #[sylvia::cw_schema::cw_serde]
        pub struct CustomMigrate {}
        pub fn instantiate(_deps: DepsMut, _env: Env, _info: MessageInfo, _msg: CustomInstantiate) -> StdResult<Response> { Ok(Response::new()) }
        pub fn migrate(_deps: DepsMut, _env: Env, _msg: CustomMigrate) -> StdResult<Response> { Ok(Response::new()) }
        pub fn reply(_deps: DepsMut, _env: Env, _msg: Reply) -> StdResult<Response> { Ok(Response::new()) }
    }

    pub struct Contract;

    #[entry_points]
    #[contract]
    #[sv::override_entry_point(instantiate=eps::instantiate(eps::CustomInstantiate))]
    #[sv::override_entry_point(migrate=eps::migrate(eps::CustomMigrate))]
    #[sv::override_entry_point(reply=eps::reply(sylvia::cw_std::Reply))]
    impl Contract {
        pub fn new() -> Self { Self }
        #[sv::msg(instantiate)]
        fn instantiate(&self, _ctx: InstantiateCtx) -> StdResult<Response> { Ok(Response::new()) }
        #[sv::msg(exec)]
        fn do_exec(&self, _ctx: ExecCtx) -> StdResult<Response> { Ok(Response::new()) }
        #[sv::msg(query)]
        fn do_query(&self, _ctx: QueryCtx) -> StdResult<Resp> { Ok(Resp {}) }
        #[sv::msg(sudo)]
        fn do_sudo(&self, _ctx: SudoCtx) -> StdResult<Response> { Ok(Response::new()) }
    }
}

pub mod s_exec_quer_sudo_mr_r {
    use super::*;
    pub mod eps {
        use super::super::*;
        #[sylvia::cw_schema::cw_serde]
        pub struct CustomExec {}
        #[sylvia::cw_schema::cw_serde]
        pub struct CustomQuery {}
        #[sylvia::cw_schema::cw_serde]
        pub struct CustomSudo {}
        pub fn execute(_deps: DepsMut, _env: Env, _info: MessageInfo, _msg: CustomExec) -> StdResult<Response> { Ok(Response::new()) }
        pub fn query(_deps: Deps, _env: Env, _msg: CustomQuery) -> StdResult<Binary> { Ok(Binary::default()) }
        pub fn sudo(_deps: DepsMut, _env: Env, _msg: CustomSudo) -> StdResult<Response> { Ok(Response::new()) }
    }

    pub struct Contract;

    #[entry_points]
    #[contract]
    #[sv::features(replies)]
    #[sv::override_entry_point(exec=eps::execute(eps::CustomExec))]
    #[sv::override_entry_point(query=eps::query(eps::CustomQuery))]
    #[sv::override_entry_point(sudo=eps::sudo(eps::CustomSudo))]
    impl Contract {
        pub fn new() -> Self { Self }
        #[sv::msg(instantiate)]
        fn instantiate(&self, _ctx: InstantiateCtx) -> StdResult<Response> { Ok(Response::new()) }
        #[sv::msg(exec)]
        fn do_exec(&self, _ctx: ExecCtx) -> StdResult<Response> { Ok(Response::new()) }
        #[sv::msg(query)]
        fn do_query(&self, _ctx: QueryCtx) -> StdResult<Resp> { Ok(Resp {}) }
        #[sv::msg(sudo)]
        fn do_sudo(&self, _ctx: SudoCtx) -> StdResult<Response> { Ok(Response::new()) }
        #[sv::msg(migrate)]
        fn migrate(&self, _ctx: MigrateCtx) -> StdResult<Response> { Ok(Response::new()) }
        #[sv::msg(reply, handlers=[on_done], reply_on=success)]
        fn on_done(&self, _ctx: ReplyCtx, #[sv::payload(raw)] _payload: Binary) -> StdResult<Response> { Ok(Response::new()) }
    }
}

pub mod s_exec_quer_sudo_mr_l {
    use super::*;
    pub mod eps {
        use super::super::*;
        #[sylvia::cw_schema::cw_serde]
        pub struct CustomExec {}
        #[sylvia::cw_schema::cw_serde]
        pub struct CustomQuery {}
        #[sylvia::cw_schema::cw_serde]
        pub struct CustomSudo {}
        pub fn execute(_deps: DepsMut, _env: Env, _info: MessageInfo, _msg: CustomExec) -> StdResult<Response> { Ok(Response::new()) }
        pub fn query(_deps: Deps, _env: Env, _msg: CustomQuery) -> StdResult<Binary> { Ok(Binary::default()) }
        pub fn sudo(_deps: DepsMut, _env: Env, _msg: CustomSudo) -> StdResult<Response> { Ok(Response::new()) }
    }

    pub struct Contract;

    #[entry_points]
    #[contract]
    #[sv::override_entry_point(exec=eps::execute(eps::CustomExec))]
    #[sv::override_entry_point(query=eps::query(eps::CustomQuery))]
    #[sv::override_entry_point(sudo=eps::sudo(eps::CustomSudo))]
    impl Contract {
        pub fn new() -> Self { Self }
        #[sv::msg(instantiate)]
        fn instantiate(&self, _ctx: InstantiateCtx) -> StdResult<Response> { Ok(Response::new()) }
        #[sv::msg(exec)]
        fn do_exec(&self, _ctx: ExecCtx) -> StdResult<Response> { Ok(Response::new()) }
        #[sv::msg(query)]
        fn do_query(&self, _ctx: QueryCtx) -> StdResult<Resp> { Ok(Resp {}) }
        #[sv::msg(sudo)]
        fn do_sudo(&self, _ctx: SudoCtx) -> StdResult<Response> { Ok(Response::new()) }
        #[sv::msg(migrate)]
        fn migrate(&self, _ctx: MigrateCtx) -> StdResult<Response> { Ok(Response::new()) }
        #[sv::msg(reply)]
        fn reply(&self, _ctx: sylvia::types::ReplyCtx, _msg: Reply) -> StdResult<Response> { Ok(Response::new()) }
    }
}

pub mod s_exec_quer_sudo_nomr_r {
    use super::*;
    pub mod eps {
        use super::super::*;
        #[sylvia::cw_schema::cw_serde]
        pub struct CustomExec {}
        #[sylvia::cw_schema::cw_serde]
        pub struct CustomQuery {}
        #[sylvia::cw_schema::cw_serde]
        pub struct CustomSudo {}
        pub fn execute(_deps: DepsMut, _env: Env, _info: MessageInfo, _msg: CustomExec) -> StdResult<Response> { Ok(Response::new()) }
        pub fn query(_deps: Deps, _env: Env, _msg: CustomQuery) -> StdResult<Binary> { Ok(Binary::default()) }
        pub fn sudo(_deps: DepsMut, _env: Env, _msg: CustomSudo) -> StdResult<Response> { Ok(Response::new()) }
    }

    pub struct Contract;

    #[entry_points]
    #[contract]
    #[sv::features(replies)]
    #[sv::override_entry_point(exec=eps::execute(eps::CustomExec))]
    #[sv::override_entry_point(query=eps::query(eps::CustomQuery))]
    #[sv::override_entry_point(sudo=eps::sudo(eps::CustomSudo))]
    impl Contract {
        pub fn new() -> Self { Self }
        #[sv::msg(instantiate)]
        fn instantiate(&self, _ctx: InstantiateCtx) -> StdResult<Response> { Ok(Response::new()) }
        #[sv::msg(exec)]
        fn do_exec(&self, _ctx: ExecCtx) -> StdResult<Response> { Ok(Response::new()) }
        #[sv::msg(query)]
        fn do_query(&self, _ctx: QueryCtx) -> StdResult<Resp> { Ok(Resp {}) }
        #[sv::msg(sudo)]
        fn do_sudo(&self, _ctx: SudoCtx) -> StdResult<Response> { Ok(Response::new()) }
    }
}

pub mod s_exec_quer_sudo_nomr_l {
    use super::*;
    pub mod eps {
        use super::super::*;
        #[sylvia::cw_schema::cw_serde]
        pub struct CustomExec {}
        #[sylvia::cw_schema::cw_serde]
        pub struct CustomQuery {}
        #[sylvia::cw_schema::cw_serde]
        pub struct CustomSudo {}
        pub fn execute(_deps: DepsMut, _env: Env, _info: MessageInfo, _msg: CustomExec) -> StdResult<Response> { Ok(Response::new()) }
        pub fn query(_deps: Deps, _env: Env, _msg: CustomQuery) -> StdResult<Binary> { Ok(Binary::default()) }
        pub fn sudo(_deps: DepsMut, _env: Env, _msg: CustomSudo) -> StdResult<Response> { Ok(Response::new()) }
    }

    pub struct Contract;

    #[entry_points]
    #[contract]
    #[sv::override_entry_point(exec=eps::execute(eps::CustomExec))]
    #[sv::override_entry_point(query=eps::query(eps::CustomQuery))]
    #[sv::override_entry_point(sudo=eps::sudo(eps::CustomSudo))]
    impl Contract {
        pub fn new() -> Self { Self }
        #[sv::msg(instantiate)]
        fn instantiate(&self, _ctx: InstantiateCtx) -> StdResult<Response> { Ok(Response::new()) }
        #[sv::msg(exec)]
        fn do_exec(&self, _ctx: ExecCtx) -> StdResult<Response> { Ok(Response::new()) }
        #[sv::msg(query)]
        fn do_query(&self, _ctx: QueryCtx) -> StdResult<Resp> { Ok(Resp {}) }
        #[sv::msg(sudo)]
        fn do_sudo(&self, _ctx: SudoCtx) -> StdResult<Response> { Ok(Response::new()) }
    }
}

pub mod s_exec_quer_migr_mr_r {
    use super::*;
    pub mod eps {
        use super::super::*;
        #[sylvia::cw_schema::cw_serde]
        pub struct CustomExec {}
        #[sylvia::cw_schema::cw_serde]
        pub struct CustomQuery {}
        #[sylvia::cw_schema::cw_serde]
        pub struct CustomMigrate {}
        pub fn execute(_deps: DepsMut, _env: Env, _info: MessageInfo, _msg: CustomExec) -> StdResult<Response> { Ok(Response::new()) }
        pub fn query(_deps: Deps, _env: Env, _msg: CustomQuery) -> StdResult<Binary> { Ok(Binary::default()) }
        pub fn migrate(_deps: DepsMut, _env: Env, _msg: CustomMigrate) -> StdResult<Response> { Ok(Response::new()) }
    }

    pub struct Contract;

    #[entry_points]
    #[contract]
    #[sv::features(replies)]
    #[sv::override_entry_point(exec=eps::execute(eps::CustomExec))]
    #[sv::override_entry_point(query=eps::query(eps::CustomQuery))]
    #[sv::override_entry_point(migrate=eps::migrate(eps::CustomMigrate))]
    impl Contract {
        pub fn new() -> Self { Self }
        #[sv::msg(instantiate)]
        fn instantiate(&self, _ctx: InstantiateCtx) -> StdResult<Response> { Ok(Response::new()) }
        #[sv::msg(exec)]
        fn do_exec(&self, _ctx: ExecCtx) -> StdResult<Response> { Ok(Response::new()) }
        #[sv::msg(query)]
        fn do_query(&self, _ctx: QueryCtx) -> StdResult<Resp> { Ok(Resp {}) }
        #[sv::msg(sudo)]
        fn do_sudo(&self, _ctx: SudoCtx) -> StdResult<Response> { Ok(Response::new()) }
        #[sv::msg(migrate)]
        fn migrate(&self, _ctx: MigrateCtx) -> StdResult<Response> { Ok(Response::new()) }
        #[sv::msg(reply, handlers=[on_done], reply_on=success)]
        fn on_done(&self, _ctx: ReplyCtx, #[sv::payload(raw)] _payload: Binary) -> StdResult<Response> { Ok(Response::new()) }
    }
}

pub mod s_exec_quer_migr_mr_l {
    use super::*;
    pub mod eps {
        use super::super::*;
        #[sylvia::cw_schema::cw_serde]
        pub struct CustomExec {}
        #[sylvia::cw_schema::cw_serde]
        pub struct CustomQuery {}
        #[sylvia::cw_schema::cw_serde]
        pub struct CustomMigrate {}
        pub fn execute(_deps: DepsMut, _env: Env, _info: MessageInfo, _msg: CustomExec) -> StdResult<Response> { Ok(Response::new()) }
        pub fn query(_deps: Deps, _env: Env, _msg: CustomQuery) -> StdResult<Binary> { Ok(Binary::default()) }
        pub fn migrate(_deps: DepsMut, _env: Env, _msg: CustomMigrate) -> StdResult<Response> { Ok(Response::new()) }
    }

    pub struct Contract;

    #[entry_points]
    #[contract]
    #[sv::override_entry_point(exec=eps::execute(eps::CustomExec))]
    #[sv::override_entry_point(query=eps::query(eps::CustomQuery))]
    #[sv::override_entry_point(migrate=eps::migrate(eps::CustomMigrate))]
    impl Contract {
        pub fn new() -> Self { Self }
        #[sv::msg(instantiate)]
        fn instantiate(&self, _ctx: InstantiateCtx) -> StdResult<Response> { Ok(Response::new()) }
        #[sv::msg(exec)]
        fn do_exec(&self, _ctx: ExecCtx) -> StdResult<Response> { Ok(Response::new()) }
        #[sv::msg(query)]
        fn do_query(&self, _ctx: QueryCtx) -> StdResult<Resp> { Ok(Resp {}) }
        #[sv::msg(sudo)]
        fn do_sudo(&self, _ctx: SudoCtx) -> StdResult<Response> { Ok(Response::new()) }
        #[sv::msg(migrate)]
        fn migrate(&self, _ctx: MigrateCtx) -> StdResult<Response> { Ok(Response::new()) }
        #[sv::msg(reply)]
        fn reply(&self, _ctx: sylvia::types::ReplyCtx, _msg: Reply) -> StdResult<Response> { Ok(Response::new()) }
    }
}

pub mod s_exec_quer_migr_nomr_r {
    use super::*;
    pub mod eps {
        use super::super::*;
        #[sylvia::cw_schema::cw_serde]
        pub struct CustomExec {}
        #[sylvia::cw_schema::cw_serde]
        pub struct CustomQuery {}
        #[sylvia::cw_schema::cw_serde]
        pub struct CustomMigrate {}
        pub fn execute(_deps: DepsMut, _env: Env, _info: MessageInfo, _msg: CustomExec) -> StdResult<Response> { Ok(Response::new()) }
        pub fn query(_deps: Deps, _env: Env, _msg: CustomQuery) -> StdResult<Binary> { Ok(Binary::default()) }
        pub fn migrate(_deps: DepsMut, _env: Env, _msg: CustomMigrate) -> StdResult<Response> { Ok(Response::new()) }
    }

    pub struct Contract;

    #[entry_points]
    #[contract]
    #[sv::features(replies)]
    #[sv::override_entry_point(exec=eps::execute(eps::CustomExec))]
    #[sv::override_entry_point(query=eps::query(eps::CustomQuery))]
    #[sv::override_entry_point(migrate=eps::migrate(eps::CustomMigrate))]
    impl Contract {
        pub fn new() -> Self { Self }
        #[sv::msg(instantiate)]
        fn instantiate(&self, _ctx: InstantiateCtx) -> StdResult<Response> { Ok(Response::new()) }
        #[sv::msg(exec)]
        fn do_exec(&self, _ctx: ExecCtx) -> StdResult<Response> { Ok(Response::new()) }
        #[sv::msg(query)]
        fn do_query(&self, _ctx: QueryCtx) -> StdResult<Resp> { Ok(Resp {}) }
        #[sv::msg(sudo)]
        fn do_sudo(&self, _ctx: SudoCtx) -> StdResult<Response> { Ok(Response::new()) }
    }
}

pub mod s_exec_quer_migr_nomr_l {
    use super::*;
    pub mod eps {
        use super::super::*;
        #[sylvia::cw_schema::cw_serde]
        pub struct CustomExec {}
        #[sylvia::cw_schema::cw_serde]
        pub struct CustomQuery {}
        #[sylvia::cw_schema::cw_serde]
        pub struct CustomMigrate {}
        pub fn execute(_deps: DepsMut, _env: Env, _info: MessageInfo, _msg: CustomExec) -> StdResult<Response> { Ok(Response::new()) }
        pub fn query(_deps: Deps, _env: Env, _msg: CustomQuery) -> StdResult<Binary> { Ok(Binary::default()) }
        pub fn migrate(_deps: DepsMut, _env: Env, _msg: CustomMigrate) -> StdResult<Response> { Ok(Response::new()) }
    }

    pub struct Contract;

    #[entry_points]
    #[contract]
    #[sv::override_entry_point(exec=eps::execute(eps::CustomExec))]
    #[sv::override_entry_point(query=eps::query(eps::CustomQuery))]
    #[sv::override_entry_point(migrate=eps::migrate(eps::CustomMigrate))]
    impl Contract {
        pub fn new() -> Self { Self }
        #[sv::msg(instantiate)]
        fn instantiate(&self, _ctx: InstantiateCtx) -> StdResult<Response> { Ok(Response::new()) }
        #[sv::msg(exec)]
        fn do_exec(&self, _ctx: ExecCtx) -> StdResult<Response> { Ok(Response::new()) }
        #[sv::msg(query)]
        fn do_query(&self, _ctx: QueryCtx) -> StdResult<Resp> { Ok(Resp {}) }
        #[sv::msg(sudo)]
        fn do_sudo(&self, _ctx: SudoCtx) -> StdResult<Response> { Ok(Response::new()) }
    }
}

pub mod s_exec_quer_repl_mr_r {
    use super::*;
    pub mod eps {
        use super::super::*;
        #[sylvia::cw_schema::cw_serde]
        pub struct CustomExec {}
        #[sylvia::cw_schema::cw_serde]
        pub struct CustomQuery {}
        pub fn execute(_deps: DepsMut, _env: Env, _info: MessageInfo, _msg: CustomExec) -> StdResult<Response> { Ok(Response::new()) }
        pub fn query(_deps: Deps, _env: Env, _msg: CustomQuery) -> StdResult<Binary> { Ok(Binary::default()) }
        pub fn reply(_deps: DepsMut, _env: Env, _msg: Reply) -> StdResult<Response> { Ok(Response::new()) }
    }

    pub struct Contract;

    #[entry_points]
    #[contract]
    #[sv::features(replies)]
    #[sv::override_entry_point(exec=eps::execute(eps::CustomExec))]
    #[sv::override_entry_point(query=eps::query(eps::CustomQuery))]
    #[sv::override_entry_point(reply=eps::reply(sylvia::cw_std::Reply))]
    impl Contract {
        pub fn new() -> Self { Self }
        #[sv::msg(instantiate)]
        fn instantiate(&self, _ctx: InstantiateCtx) -> StdResult<Response> { Ok(Response::new()) }
        #[sv::msg(exec)]
        fn do_exec(&self, _ctx: ExecCtx) -> StdResult<Response> { Ok(Response::new()) }
        #[sv::msg(query)]
        fn do_query(&self, _ctx: QueryCtx) -> StdResult<Resp> { Ok(Resp {}) }
        #[sv::msg(sudo)]
        fn do_sudo(&self, _ctx: SudoCtx) -> StdResult<Response> { Ok(Response::new()) }
        #[sv::msg(migrate)]
        fn migrate(&self, _ctx: MigrateCtx) -> StdResult<Response> { Ok(Response::new()) }
        #[sv::msg(reply, handlers=[on_done], reply_on=success)]
        fn on_done(&self, _ctx: ReplyCtx, #[sv::payload(raw)] _payload: Binary) -> StdResult<Response> { Ok(Response::new()) }
    }
}

pub mod s_exec_quer_repl_mr_l {
    use super::*;
    pub mod eps {
        use super::super::*;
        #[sylvia::cw_schema::cw_serde]
        pub struct CustomExec {}
        #[sylvia::cw_schema::cw_serde]
        pub struct CustomQuery {}
        pub fn execute(_deps: DepsMut, _env: Env, _info: MessageInfo, _msg: CustomExec) -> StdResult<Response> { Ok(Response::new()) }
        pub fn query(_deps: Deps, _env: Env, _msg: CustomQuery) -> StdResult<Binary> { Ok(Binary::default()) }
        pub fn reply(_deps: DepsMut, _env: Env, _msg: Reply) -> StdResult<Response> { Ok(Response::new()) }
    }

    pub struct Contract;

    #[entry_points]
    #[contract]
    #[sv::override_entry_point(exec=eps::execute(eps::CustomExec))]
    #[sv::override_entry_point(query=eps::query(eps::CustomQuery))]
    #[sv::override_entry_point(reply=eps::reply(sylvia::cw_std::Reply))]
    impl Contract {
        pub fn new() -> Self { Self }
        #[sv::msg(instantiate)]
        fn instantiate(&self, _ctx: InstantiateCtx) -> StdResult<Response> { Ok(Response::new()) }
        #[sv::msg(exec)]
        fn do_exec(&self, _ctx: ExecCtx) -> StdResult<Response> { Ok(Response::new()) }
        #[sv::msg(query)]
        fn do_query(&self, _ctx: QueryCtx) -> StdResult<Resp> { Ok(Resp {}) }
        #[sv::msg(sudo)]
        fn do_sudo(&self, _ctx: SudoCtx) -> StdResult<Response> { Ok(Response::new()) }
        #[sv::msg(migrate)]
        fn migrate(&self, _ctx: MigrateCtx) -> StdResult<Response> { Ok(Response::new()) }
        #[sv::msg(reply)]
        fn reply(&self, _ctx: sylvia::types::ReplyCtx, _msg: Reply) -> StdResult<Response> { Ok(Response::new()) }
    }
}

pub mod s_exec_quer_repl_nomr_r {
    use super::*;
    pub mod eps {
        use super::super::*;
        #[sylvia::cw_schema::cw_serde]
        pub struct CustomExec {}
        #[sylvia::cw_schema::cw_serde]
        pub struct CustomQuery {}
        pub fn execute(_deps: DepsMut, _env: Env, _info: MessageInfo, _msg: CustomExec) -> StdResult<Response> { Ok(Response::new()) }
        pub fn query(_deps: Deps, _env: Env, _msg: CustomQuery) -> StdResult<Binary> { Ok(Binary::default()) }
        pub fn reply(_deps: DepsMut, _env: Env, _msg: Reply) -> StdResult<Response> { Ok(Response::new()) }
    }

    pub struct Contract;

    #[entry_points]
    #[contract]
    #[sv::features(replies)]
    #[sv::override_entry_point(exec=eps::execute(eps::CustomExec))]
    #[sv::override_entry_point(query=eps::query(eps::CustomQuery))]
    #[sv::override_entry_point(reply=eps::reply(sylvia::cw_std::Reply))]
    impl Contract {
        pub fn new() -> Self { Self }
        #[sv::msg(instantiate)]
        fn instantiate(&self, _ctx: InstantiateCtx) -> StdResult<Response> { Ok(Response::new()) }
        #[sv::msg(exec)]
        fn do_exec(&self, _ctx: ExecCtx) -> StdResult<Response> { Ok(Response::new()) }
        #[sv::msg(query)]
        fn do_query(&self, _ctx: QueryCtx) -> StdResult<Resp> { Ok(Resp {}) }
        #[sv::msg(sudo)]
        fn do_sudo(&self, _ctx: SudoCtx) -> StdResult<Response> { Ok(Response::new()) }
    }
}

pub mod s_exec_quer_repl_nomr_l {
    use super::*;
    pub mod eps {
        use super::super::*;
        #[sylvia::cw_schema::cw_serde]
        pub struct CustomExec {}
        #[sylvia::cw_schema::cw_serde]
        pub struct CustomQuery {}
        pub fn execute(_deps: DepsMut, _env: Env, _info: MessageInfo, _msg: CustomExec) -> StdResult<Response> { Ok(Response::new()) }
        pub fn query(_deps: Deps, _env: Env, _msg: CustomQuery) -> StdResult<Binary> { Ok(Binary::default()) }
        pub fn reply(_deps: DepsMut, _env: Env, _msg: Reply) -> StdResult<Response> { Ok(Response::new()) }
    }

    pub struct Contract;

    #[entry_points]
    #[contract]
    #[sv::override_entry_point(exec=eps::execute(eps::CustomExec))]
    #[sv::override_entry_point(query=eps::query(eps::CustomQuery))]
    #[sv::override_entry_point(reply=eps::reply(sylvia::cw_std::Reply))]
    impl Contract {
        pub fn new() -> Self { Self }
        #[sv::msg(instantiate)]
        fn instantiate(&self, _ctx: InstantiateCtx) -> StdResult<Response> { Ok(Response::new()) }
        #[sv::msg(exec)]
        fn do_exec(&self, _ctx: ExecCtx) -> StdResult<Response> { Ok(Response::new()) }
        #[sv::msg(query)]
        fn do_query(&self, _ctx: QueryCtx) -> StdResult<Resp> { Ok(Resp {}) }
        #[sv::msg(sudo)]
        fn do_sudo(&self, _ctx: SudoCtx) -> StdResult<Response> { Ok(Response::new()) }
    }
}

pub mod s_exec_sudo_migr_mr_r {
    use super::*;
    pub mod eps {
        use super::super::*;
        #[sylvia::cw_schema::cw_serde]
        pub struct CustomExec {}
        #[sylvia::cw_schema::cw_serde]
        pub struct CustomSudo {}
        #[sylvia::cw_schema::cw_serde]
        pub struct CustomMigrate {}
        pub fn execute(_deps: DepsMut, _env: Env, _info: MessageInfo, _msg: CustomExec) -> StdResult<Response> { Ok(Response::new()) }
        pub fn sudo(_deps: DepsMut, _env: Env, _msg: CustomSudo) -> StdResult<Response> { Ok(Response::new()) }
        pub fn migrate(_deps: DepsMut, _env: Env, _msg: CustomMigrate) -> StdResult<Response> { Ok(Response::new()) }
    }

    pub struct Contract;

    #[entry_points]
    #[contract]
    #[sv::features(replies)]
    #[sv::override_entry_point(exec=eps::execute(eps::CustomExec))]
    #[sv::override_entry_point(sudo=eps::sudo(eps::CustomSudo))]
    #[sv::override_entry_point(migrate=eps::migrate(eps::CustomMigrate))]
    impl Contract {
        pub fn new() -> Self { Self }
        #[sv::msg(instantiate)]
        fn instantiate(&self, _ctx: InstantiateCtx) -> StdResult<Response> { Ok(Response::new()) }
        #[sv::msg(exec)]
        fn do_exec(&self, _ctx: ExecCtx) -> StdResult<Response> { Ok(Response::new()) }
        #[sv::msg(query)]
        fn do_query(&self, _ctx: QueryCtx) -> StdResult<Resp> { Ok(Resp {}) }
        #[sv::msg(sudo)]
        fn do_sudo(&self, _ctx: SudoCtx) -> StdResult<Response> { Ok(Response::new()) }
        #[sv::msg(migrate)]
        fn migrate(&self, _ctx: MigrateCtx) -> StdResult<Response> { Ok(Response::new()) }
        #[sv::msg(reply, handlers=[on_done], reply_on=success)]
        fn on_done(&self, _ctx: ReplyCtx, #[sv::payload(raw)] _payload: Binary) -> StdResult<Response> { Ok(Response::new()) }
    }
}

pub mod s_exec_sudo_migr_mr_l {
    use super::*;
    pub mod eps {
        use super::super::*;
        #[sylvia::cw_schema::cw_serde]
        pub struct CustomExec {}
        #[sylvia::cw_schema::cw_serde]
        pub struct CustomSudo {}
        #[sylvia::cw_schema::cw_serde]
        pub struct CustomMigrate {}
        pub fn execute(_deps: DepsMut, _env: Env, _info: MessageInfo, _msg: CustomExec) -> StdResult<Response> { Ok(Response::new()) }
        pub fn sudo(_deps: DepsMut, _env: Env, _msg: CustomSudo) -> StdResult<Response> { Ok(Response::new()) }
        pub fn migrate(_deps: DepsMut, _env: Env, _msg: CustomMigrate) -> StdResult<Response> { Ok(Response::new()) }
    }

    pub struct Contract;

    #[entry_points]
    #[contract]
    #[sv::override_entry_point(exec=eps::execute(eps::CustomExec))]
    #[sv::override_entry_point(sudo=eps::sudo(eps::CustomSudo))]
    #[sv::override_entry_point(migrate=eps::migrate(eps::CustomMigrate))]
    impl Contract {
        pub fn new() -> Self { Self }
        #[sv::msg(instantiate)]
        fn instantiate(&self, _ctx: InstantiateCtx) -> StdResult<Response> { Ok(Response::new()) }
        #[sv::msg(exec)]
        fn do_exec(&self, _ctx: ExecCtx) -> StdResult<Response> { Ok(Response::new()) }
        #[sv::msg(query)]
        fn do_query(&self, _ctx: QueryCtx) -> StdResult<Resp> { Ok(Resp {}) }
        #[sv::msg(sudo)]
        fn do_sudo(&self, _ctx: SudoCtx) -> StdResult<Response> { Ok(Response::new()) }
        #[sv::msg(migrate)]
        fn migrate(&self, _ctx: MigrateCtx) -> StdResult<Response> { Ok(Response::new()) }
        #[sv::msg(reply)]
        fn reply(&self, _ctx: sylvia::types::ReplyCtx, _msg: Reply) -> StdResult<Response> { Ok(Response::new()) }
    }
}

pub mod s_exec_sudo_migr_nomr_r {
    use super::*;
    pub mod eps {
        use super::super::*;
        #[sylvia::cw_schema::cw_serde]
        pub struct CustomExec {}
        #[sylvia::cw_schema::cw_serde]
        pub struct CustomSudo {}
        #[sylvia::cw_schema::cw_serde]
        pub struct CustomMigrate {}
        pub fn execute(_deps: DepsMut, _env: Env, _info: MessageInfo, _msg: CustomExec) -> StdResult<Response> { Ok(Response::new()) }
        pub fn sudo(_deps: DepsMut, _env: Env, _msg: CustomSudo) -> StdResult<Response> { Ok(Response::new()) }
        pub fn migrate(_deps: DepsMut, _env: Env, _msg: CustomMigrate) -> StdResult<Response> { Ok(Response::new()) }
    }

    pub struct Contract;

    #[entry_points]
    #[contract]
    #[sv::features(replies)]
    #[sv::override_entry_point(exec=eps::execute(eps::CustomExec))]
    #[sv::override_entry_point(sudo=eps::sudo(eps::CustomSudo))]
    #[sv::override_entry_point(migrate=eps::migrate(eps::CustomMigrate))]
    impl Contract {
        pub fn new() -> Self { Self }
        #[sv::msg(instantiate)]
        fn instantiate(&self, _ctx: InstantiateCtx) -> StdResult<Response> { Ok(Response::new()) }
        #[sv::msg(exec)]
        fn do_exec(&self, _ctx: ExecCtx) -> StdResult<Response> { Ok(Response::new()) }
        #[sv::msg(query)]
        fn do_query(&self, _ctx: QueryCtx) -> StdResult<Resp> { Ok(Resp {}) }
        #[sv::msg(sudo)]
        fn do_sudo(&self, _ctx: SudoCtx) -> StdResult<Response> { Ok(Response::new()) }
    }
}

pub mod s_exec_sudo_migr_nomr_l {
    use super::*;
    pub mod eps {
        use super::super::*;
        #[sylvia::cw_schema::cw_serde]
        pub struct CustomExec {}
        #[sylvia::cw_schema::cw_serde]
        pub struct CustomSudo {}
        #[sylvia::cw_schema::cw_serde]
        pub struct CustomMigrate {}
        pub fn execute(_deps: DepsMut, _env: Env, _info: MessageInfo, _msg: CustomExec) -> StdResult<Response> { Ok(Response::new()) }
        pub fn sudo(_deps: DepsMut, _env: Env, _msg: CustomSudo) -> StdResult<Response> { Ok(Response::new()) }
        pub fn migrate(_deps: DepsMut, _env: Env, _msg: CustomMigrate) -> StdResult<Response> { Ok(Response::new()) }
    }

    pub struct Contract;

    #[entry_points]
    #[contract]
    #[sv::override_entry_point(exec=eps::execute(eps::CustomExec))]
    #[sv::override_entry_point(sudo=eps::sudo(eps::CustomSudo))]
    #[sv::override_entry_point(migrate=eps::migrate(eps::CustomMigrate))]
    impl Contract {
        pub fn new() -> Self { Self }
        #[sv::msg(instantiate)]
        fn instantiate(&self, _ctx: InstantiateCtx) -> StdResult<Response> { Ok(Response::new()) }
        #[sv::msg(exec)]
        fn do_exec(&self, _ctx: ExecCtx) -> StdResult<Response> { Ok(Response::new()) }
        #[sv::msg(query)]
        fn do_query(&self, _ctx: QueryCtx) -> StdResult<Resp> { Ok(Resp {}) }
        #[sv::msg(sudo)]
        fn do_sudo(&self, _ctx: SudoCtx) -> StdResult<Response> { Ok(Response::new()) }
    }
}

pub mod s_exec_sudo_repl_mr_r {
    use super::*;
    pub mod eps {
        use super::super::*;
        #[sylvia::cw_schema::cw_serde]
        pub struct CustomExec {}
        #[sylvia::cw_schema::cw_serde]
        pub struct CustomSudo {}
        pub fn execute(_deps: DepsMut, _env: Env, _info: MessageInfo, _msg: CustomExec) -> StdResult<Response> { Ok(Response::new()) }
        pub fn sudo(_deps: DepsMut, _env: Env, _msg: CustomSudo) -> StdResult<Response> { Ok(Response::new()) }
        pub fn reply(_deps: DepsMut, _env: Env, _msg: Reply) -> StdResult<Response> { Ok(Response::new()) }
    }

    pub struct Contract;

    #[entry_points]
    #[contract]
    #[sv::features(replies)]
    #[sv::override_entry_point(exec=eps::execute(eps::CustomExec))]
    #[sv::override_entry_point(sudo=eps::sudo(eps::CustomSudo))]
    #[sv::override_entry_point(reply=eps::reply(sylvia::cw_std::Reply))]
    impl Contract {
        pub fn new() -> Self { Self }
        #[sv::msg(instantiate)]
        fn instantiate(&self, _ctx: InstantiateCtx) -> StdResult<Response> { Ok(Response::new()) }
        #[sv::msg(exec)]
        fn do_exec(&self, _ctx: ExecCtx) -> StdResult<Response> { Ok(Response::new()) }
        #[sv::msg(query)]
        fn do_query(&self, _ctx: QueryCtx) -> StdResult<Resp> { Ok(Resp {}) }
        #[sv::msg(sudo)]
        fn do_sudo(&self, _ctx: SudoCtx) -> StdResult<Response> { Ok(Response::new()) }
        #[sv::msg(migrate)]
        fn migrate(&self, _ctx: MigrateCtx) -> StdResult<Response> { Ok(Response::new()) }
        #[sv::msg(reply, handlers=[on_done], reply_on=success)]
        fn on_done(&self, _ctx: ReplyCtx, #[sv::payload(raw)] _payload: Binary) -> StdResult<Response> { Ok(Response::new()) }
    }
}

pub mod s_exec_sudo_repl_mr_l {
    use super::*;
    pub mod eps {
        use super::super::*;
        #[sylvia::cw_schema::cw_serde]
        pub struct CustomExec {}
        #[sylvia::cw_schema::cw_serde]
        pub struct CustomSudo {}
        pub fn execute(_deps: DepsMut, _env: Env, _info: MessageInfo, _msg: CustomExec) -> StdResult<Response> { Ok(Response::new()) }
        pub fn sudo(_deps: DepsMut, _env: Env, _msg: CustomSudo) -> StdResult<Response> { Ok(Response::new()) }
        pub fn reply(_deps: DepsMut, _env: Env, _msg: Reply) -> StdResult<Response> { Ok(Response::new()) }
    }

    pub struct Contract;

    #[entry_points]
    #[contract]
    #[sv::override_entry_point(exec=eps::execute(eps::CustomExec))]
    #[sv::override_entry_point(sudo=eps::sudo(eps::CustomSudo))]
    #[sv::override_entry_point(reply=eps::reply(sylvia::cw_std::Reply))]
    impl Contract {
        pub fn new() -> Self { Self }
        #[sv::msg(instantiate)]
        fn instantiate(&self, _ctx: InstantiateCtx) -> StdResult<Response> { Ok(Response::new()) }
        #[sv::msg(exec)]
        fn do_exec(&self, _ctx: ExecCtx) -> StdResult<Response> { Ok(Response::new()) }
        #[sv::msg(query)]
        fn do_query(&self, _ctx: QueryCtx) -> StdResult<Resp> { Ok(Resp {}) }
        #[sv::msg(sudo)]
        fn do_sudo(&self, _ctx: SudoCtx) -> StdResult<Response> { Ok(Response::new()) }
        #[sv::msg(migrate)]
        fn migrate(&self, _ctx: MigrateCtx) -> StdResult<Response> { Ok(Response::new()) }
        #[sv::msg(reply)]
        fn reply(&self, _ctx: sylvia::types::ReplyCtx, _msg: Reply) -> StdResult<Response> { Ok(Response::new()) }
    }
}

pub mod s_exec_sudo_repl_nomr_r {
    use super::*;
    pub mod eps {
        use super::super::*;
        #[sylvia::cw_schema::cw_serde]
        pub struct CustomExec {}
        #[sylvia::cw_schema::cw_serde]
        pub struct CustomSudo {}
        pub fn execute(_deps: DepsMut, _env: Env, _info: MessageInfo, _msg: CustomExec) -> StdResult<Response> { Ok(Response::new()) }
        pub fn sudo(_deps: DepsMut, _env: Env, _msg: CustomSudo) -> StdResult<Response> { Ok(Response::new()) }
        pub fn reply(_deps: DepsMut, _env: Env, _msg: Reply) -> StdResult<Response> { Ok(Response::new()) }
    }

    pub struct Contract;

    #[entry_points]
    #[contract]
    #[sv::features(replies)]
    #[sv::override_entry_point(exec=eps::execute(eps::CustomExec))]
    #[sv::override_entry_point(sudo=eps::sudo(eps::CustomSudo))]
    #[sv::override_entry_point(reply=eps::reply(sylvia::cw_std::Reply))]
    impl Contract {
        pub fn new() -> Self { Self }
        #[sv::msg(instantiate)]
        fn instantiate(&self, _ctx: InstantiateCtx) -> StdResult<Response> { Ok(Response::new()) }
        #[sv::msg(exec)]
        fn do_exec(&self, _ctx: ExecCtx) -> StdResult<Response> { Ok(Response::new()) }
        #[sv::msg(query)]
        fn do_query(&self, _ctx: QueryCtx) -> StdResult<Resp> { Ok(Resp {}) }
        #[sv::msg(sudo)]
        fn do_sudo(&self, _ctx: SudoCtx) -> StdResult<Response> { Ok(Response::new()) }
    }
}

pub mod s_exec_sudo_repl_nomr_l {
    use super::*;
    pub mod eps {
        use super::super::*;
        #[sylvia::cw_schema::cw_serde]
        pub struct CustomExec {}
        #[sylvia::cw_schema::cw_serde]
        pub struct CustomSudo {}
        pub fn execute(_deps: DepsMut, _env: Env, _info: MessageInfo, _msg: CustomExec) -> StdResult<Response> { Ok(Response::new()) }
        pub fn sudo(_deps: DepsMut, _env: Env, _msg: CustomSudo) -> StdResult<Response> { Ok(Response::new()) }
        pub fn reply(_deps: DepsMut, _env: Env, _msg: Reply) -> StdResult<Response> { Ok(Response::new()) }
    }

    pub struct Contract;

    #[entry_points]
    #[contract]
    #[sv::override_entry_point(exec=eps::execute(eps::CustomExec))]
    #[sv::override_entry_point(sudo=eps::sudo(eps::CustomSudo))]
    #[sv::override_entry_point(reply=eps::reply(sylvia::cw_std::Reply))]
    impl Contract {
        pub fn new() -> Self { Self }
        #[sv::msg(instantiate)]
        fn instantiate(&self, _ctx: InstantiateCtx) -> StdResult<Response> { Ok(Response::new()) }
        #[sv::msg(exec)]
        fn do_exec(&self, _ctx: ExecCtx) -> StdResult<Response> { Ok(Response::new()) }
        #[sv::msg(query)]
        fn do_query(&self, _ctx: QueryCtx) -> StdResult<Resp> { Ok(Resp {}) }
        #[sv::msg(sudo)]
        fn do_sudo(&self, _ctx: SudoCtx) -> StdResult<Response> { Ok(Response::new()) }
    }
}

pub mod s_exec_migr_repl_mr_r {
    use super::*;
    pub mod eps {
        use super::super::*;
        #[sylvia::cw_schema::cw_serde]
        pub struct CustomExec {}
        #[sylvia::cw_schema::cw_serde]
        pub struct CustomMigrate {}
        pub fn execute(_deps: DepsMut, _env: Env, _info: MessageInfo, _msg: CustomExec) -> StdResult<Response> { Ok(Response::new()) }
        pub fn migrate(_deps: DepsMut, _env: Env, _msg: CustomMigrate) -> StdResult<Response> { Ok(Response::new()) }
        pub fn reply(_deps: DepsMut, _env: Env, _msg: Reply) -> StdResult<Response> { Ok(Response::new()) }
    }

    pub struct Contract;

    #[entry_points]
    #[contract]
    #[sv::features(replies)]
    #[sv::override_entry_point(exec=eps::execute(eps::CustomExec))]
    #[sv::override_entry_point(migrate=eps::migrate(eps::CustomMigrate))]
    #[sv::override_entry_point(reply=eps::reply(sylvia::cw_std::Reply))]
    impl Contract {
        pub fn new() -> Self { Self }
        #[sv::msg(instantiate)]
        fn instantiate(&self, _ctx: InstantiateCtx) -> StdResult<Response> { Ok(Response::new()) }
        #[sv::msg(exec)]
        fn do_exec(&self, _ctx: ExecCtx) -> StdResult<Response> { Ok(Response::new()) }
        #[sv::msg(query)]
        fn do_query(&self, _ctx: QueryCtx) -> StdResult<Resp> { Ok(Resp {}) }
        #[sv::msg(sudo)]
        fn do_sudo(&self, _ctx: SudoCtx) -> StdResult<Response> { Ok(Response::new()) }
        #[sv::msg(migrate)]
        fn migrate(&self, _ctx: MigrateCtx) -> StdResult<Response> { Ok(Response::new()) }
        #[sv::msg(reply, handlers=[on_done], reply_on=success)]
        fn on_done(&self, _ctx: ReplyCtx, #[sv::payload(raw)] _payload: Binary) -> StdResult<Response> { Ok(Response::new()) }
    }
}

pub mod s_exec_migr_repl_mr_l {
    use super::*;
    pub mod eps {
        use super::super::*;
        #[sylvia::cw_schema::cw_serde]
        pub struct CustomExec {}
        #[sylvia::cw_schema::cw_serde]
        pub struct CustomMigrate {}
        pub fn execute(_deps: DepsMut, _env: Env, _info: MessageInfo, _msg: CustomExec) -> StdResult<Response> { Ok(Response::new()) }
        pub fn migrate(_deps: DepsMut, _env: Env, _msg: CustomMigrate) -> StdResult<Response> { Ok(Response::new()) }
        pub fn reply(_deps: DepsMut, _env: Env, _msg: Reply) -> StdResult<Response> { Ok(Response::new()) }
    }

    pub struct Contract;

    #[entry_points]
    #[contract]
    #[sv::override_entry_point(exec=eps::execute(eps::CustomExec))]
    #[sv::override_entry_point(migrate=eps::migrate(eps::CustomMigrate))]
    #[sv::override_entry_point(reply=eps::reply(sylvia::cw_std::Reply))]
    impl Contract {
        pub fn new() -> Self { Self }
        #[sv::msg(instantiate)]
        fn instantiate(&self, _ctx: InstantiateCtx) -> StdResult<Response> { Ok(Response::new()) }
        #[sv::msg(exec)]
        fn do_exec(&self, _ctx: ExecCtx) -> StdResult<Response> { Ok(Response::new()) }
        #[sv::msg(query)]
        fn do_query(&self, _ctx: QueryCtx) -> StdResult<Resp> { Ok(Resp {}) }
        #[sv::msg(sudo)]
        fn do_sudo(&self, _ctx: SudoCtx) -> StdResult<Response> { Ok(Response::new()) }
        #[sv::msg(migrate)]
        fn migrate(&self, _ctx: MigrateCtx) -> StdResult<Response> { Ok(Response::new()) }
        #[sv::msg(reply)]
        fn reply(&self, _ctx: sylvia::types::ReplyCtx, _msg: Reply) -> StdResult<Response> { Ok(Response::new()) }
    }
}

pub mod s_exec_migr_repl_nomr_r {
    use super::*;
    pub mod eps {
        use super::super::*;
        #[sylvia::cw_schema::cw_serde]
        pub struct CustomExec {}
        #[sylvia::cw_schema::cw_serde]
        pub struct CustomMigrate {}
        pub fn execute(_deps: DepsMut, _env: Env, _info: MessageInfo, _msg: CustomExec) -> StdResult<Response> { Ok(Response::new()) }
        pub fn migrate(_deps: DepsMut, _env: Env, _msg: CustomMigrate) -> StdResult<Response> { Ok(Response::new()) }
        pub fn reply(_deps: DepsMut, _env: Env, _msg: Reply) -> StdResult<Response> { Ok(Response::new()) }
    }

    pub struct Contract;

    #[entry_points]
    #[contract]
    #[sv::features(replies)]
    #[sv::override_entry_point(exec=eps::execute(eps::CustomExec))]
    #[sv::override_entry_point(migrate=eps::migrate(eps::CustomMigrate))]
    #[sv::override_entry_point(reply=eps::reply(sylvia::cw_std::Reply))]
    impl Contract {
        pub fn new() -> Self { Self }
        #[sv::msg(instantiate)]
        fn instantiate(&self, _ctx: InstantiateCtx) -> StdResult<Response> { Ok(Response::new()) }
        #[sv::msg(exec)]
        fn do_exec(&self, _ctx: ExecCtx) -> StdResult<Response> { Ok(Response::new()) }
        #[sv::msg(query)]
        fn do_query(&self, _ctx: QueryCtx) -> StdResult<Resp> { Ok(Resp {}) }
        #[sv::msg(sudo)]
        fn do_sudo(&self, _ctx: SudoCtx) -> StdResult<Response> { Ok(Response::new()) }
    }
}

pub mod s_exec_migr_repl_nomr_l {
    use super::*;
    pub mod eps {
        use super::super::*;
        #[sylvia::cw_schema::cw_serde]
        pub struct CustomExec {}
        #[sylvia::cw_schema::cw_serde]
        pub struct CustomMigrate {}
        pub fn execute(_deps: DepsMut, _env: Env, _info: MessageInfo, _msg: CustomExec) -> StdResult<Response> { Ok(Response::new()) }
        pub fn migrate(_deps: DepsMut, _env: Env, _msg: CustomMigrate) -> StdResult<Response> { Ok(Response::new()) }
        pub fn reply(_deps: DepsMut, _env: Env, _msg: Reply) -> StdResult<Response> { Ok(Response::new()) }
    }

    pub struct Contract;

    #[entry_points]
    #[contract]
    #[sv::override_entry_point(exec=eps::execute(eps::CustomExec))]
    #[sv::override_entry_point(migrate=eps::migrate(eps::CustomMigrate))]
    #[sv::override_entry_point(reply=eps::reply(sylvia::cw_std::Reply))]
    impl Contract {
        pub fn new() -> Self { Self }
        #[sv::msg(instantiate)]
        fn instantiate(&self, _ctx: InstantiateCtx) -> StdResult<Response> { Ok(Response::new()) }
        #[sv::msg(exec)]
        fn do_exec(&self, _ctx: ExecCtx) -> StdResult<Response> { Ok(Response::new()) }
        #[sv::msg(query)]
        fn do_query(&self, _ctx: QueryCtx) -> StdResult<Resp> { Ok(Resp {}) }
        #[sv::msg(sudo)]
        fn do_sudo(&self, _ctx: SudoCtx) -> StdResult<Response> { Ok(Response::new()) }
    }
}

pub mod s_quer_sudo_migr_mr_r {
    use super::*;
    pub mod eps {
        use super::super::*;
        #[sylvia::cw_schema::cw_serde]
        pub struct CustomQuery {}
        #[sylvia::cw_schema::cw_serde]
        pub struct CustomSudo {}
        #[sylvia::cw_schema::cw_serde]
        pub struct CustomMigrate {}
        pub fn query(_deps: Deps, _env: Env, _msg: CustomQuery) -> StdResult<Binary> { Ok(Binary::default()) }
        pub fn sudo(_deps: DepsMut, _env: Env, _msg: CustomSudo) -> StdResult<Response> { Ok(Response::new()) }
        pub fn migrate(_deps: DepsMut, _env: Env, _msg: CustomMigrate) -> StdResult<Response> { Ok(Response::new()) }
    }

    pub struct Contract;

    #[entry_points]
    #[contract]
    #[sv::features(replies)]
    #[sv::override_entry_point(query=eps::query(eps::CustomQuery))]
    #[sv::override_entry_point(sudo=eps::sudo(eps::CustomSudo))]
    #[sv::override_entry_point(migrate=eps::migrate(eps::CustomMigrate))]
    impl Contract {
        pub fn new() -> Self { Self }
        #[sv::msg(instantiate)]
        fn instantiate(&self, _ctx: InstantiateCtx) -> StdResult<Response> { Ok(Response::new()) }
        #[sv::msg(exec)]
        fn do_exec(&self, _ctx: ExecCtx) -> StdResult<Response> { Ok(Response::new()) }
        #[sv::msg(query)]
        fn do_query(&self, _ctx: QueryCtx) -> StdResult<Resp> { Ok(Resp {}) }
        #[sv::msg(sudo)]
        fn do_sudo(&self, _ctx: SudoCtx) -> StdResult<Response> { Ok(Response::new()) }
        #[sv::msg(migrate)]
        fn migrate(&self, _ctx: MigrateCtx) -> StdResult<Response> { Ok(Response::new()) }
        #[sv::msg(reply, handlers=[on_done], reply_on=success)]
        fn on_done(&self, _ctx: ReplyCtx, #[sv::payload(raw)] _payload: Binary) -> StdResult<Response> { Ok(Response::new()) }
    }
}

pub mod s_quer_sudo_migr_mr_l {
    use super::*;
    pub mod eps {
        use super::super::*;
        #[sylvia::cw_schema::cw_serde]
        pub struct CustomQuery {}
        #[sylvia::cw_schema::cw_serde]
        pub struct CustomSudo {}
        #[sylvia::cw_schema::cw_serde]
        pub struct CustomMigrate {}
        pub fn query(_deps: Deps, _env: Env, _msg: CustomQuery) -> StdResult<Binary> { Ok(Binary::default()) }
        pub fn sudo(_deps: DepsMut, _env: Env, _msg: CustomSudo) -> StdResult<Response> { Ok(Response::new()) }
        pub fn migrate(_deps: DepsMut, _env: Env, _msg: CustomMigrate) -> StdResult<Response> { Ok(Response::new()) }
    }

    pub struct Contract;

    #[entry_points]
    #[contract]
    #[sv::override_entry_point(query=eps::query(eps::CustomQuery))]
    #[sv::override_entry_point(sudo=eps::sudo(eps::CustomSudo))]
    #[sv::override_entry_point(migrate=eps::migrate(eps::CustomMigrate))]
    impl Contract {
        pub fn new() -> Self { Self }
        #[sv::msg(instantiate)]
        fn instantiate(&self, _ctx: InstantiateCtx) -> StdResult<Response> { Ok(Response::new()) }
        #[sv::msg(exec)]
        fn do_exec(&self, _ctx: ExecCtx) -> StdResult<Response> { Ok(Response::new()) }
        #[sv::msg(query)]
        fn do_query(&self, _ctx: QueryCtx) -> StdResult<Resp> { Ok(Resp {}) }
        #[sv::msg(sudo)]
        fn do_sudo(&self, _ctx: SudoCtx) -> StdResult<Response> { Ok(Response::new()) }
        #[sv::msg(migrate)]
        fn migrate(&self, _ctx: MigrateCtx) -> StdResult<Response> { Ok(Response::new()) }
        #[sv::msg(reply)]
        fn reply(&self, _ctx: sylvia::types::ReplyCtx, _msg: Reply) -> StdResult<Response> { Ok(Response::new()) }
    }
}

pub mod s_quer_sudo_migr_nomr_r {
    use super::*;
    pub mod eps {
        use super::super::*;
        #[sylvia::cw_schema::cw_serde]
        pub struct CustomQuery {}
        #[sylvia::cw_schema::cw_serde]
        pub struct CustomSudo {}
        #[sylvia::cw_schema::cw_serde]
        pub struct CustomMigrate {}
        pub fn query(_deps: Deps, _env: Env, _msg: CustomQuery) -> StdResult<Binary> { Ok(Binary::default()) }
        pub fn sudo(_deps: DepsMut, _env: Env, _msg: CustomSudo) -> StdResult<Response> { Ok(Response::new()) }
        pub fn migrate(_deps: DepsMut, _env: Env, _msg: CustomMigrate) -> StdResult<Response> { Ok(Response::new()) }
    }

    pub struct Contract;

    #[entry_points]
    #[contract]
    #[sv::features(replies)]
    #[sv::override_entry_point(query=eps::query(eps::CustomQuery))]
    #[sv::override_entry_point(sudo=eps::sudo(eps::CustomSudo))]
    #[sv::override_entry_point(migrate=eps::migrate(eps::CustomMigrate))]
    impl Contract {
        pub fn new() -> Self { Self }
        #[sv::msg(instantiate)]
        fn instantiate(&self, _ctx: InstantiateCtx) -> StdResult<Response> { Ok(Response::new()) }
        #[sv::msg(exec)]
        fn do_exec(&self, _ctx: ExecCtx) -> StdResult<Response> { Ok(Response::new()) }
        #[sv::msg(query)]
        fn do_query(&self, _ctx: QueryCtx) -> StdResult<Resp> { Ok(Resp {}) }
        #[sv::msg(sudo)]
        fn do_sudo(&self, _ctx: SudoCtx) -> StdResult<Response> { Ok(Response::new()) }
    }
}

pub mod s_quer_sudo_migr_nomr_l {
    use super::*;
    pub mod eps {
        use super::super::*;
        #[sylvia::cw_schema::cw_serde]
        pub struct CustomQuery {}
        #[sylvia::cw_schema::cw_serde]
        pub struct CustomSudo {}
        #[sylvia::cw_schema::cw_serde]
        pub struct CustomMigrate {}
        pub fn query(_deps: Deps, _env: Env, _msg: CustomQuery) -> StdResult<Binary> { Ok(Binary::default()) }
        pub fn sudo(_deps: DepsMut, _env: Env, _msg: CustomSudo) -> StdResult<Response> { Ok(Response::new()) }
        pub fn migrate(_deps: DepsMut, _env: Env, _msg: CustomMigrate) -> StdResult<Response> { Ok(Response::new()) }
    }

    pub struct Contract;

    #[entry_points]
    #[contract]
    #[sv::override_entry_point(query=eps::query(eps::CustomQuery))]
    #[sv::override_entry_point(sudo=eps::sudo(eps::CustomSudo))]
    #[sv::override_entry_point(migrate=eps::migrate(eps::CustomMigrate))]
    impl Contract {
        pub fn new() -> Self { Self }
        #[sv::msg(instantiate)]
        fn instantiate(&self, _ctx: InstantiateCtx) -> StdResult<Response> { Ok(Response::new()) }
        #[sv::msg(exec)]
        fn do_exec(&self, _ctx: ExecCtx) -> StdResult<Response> { Ok(Response::new()) }
        #[sv::msg(query)]
        fn do_query(&self, _ctx: QueryCtx) -> StdResult<Resp> { Ok(Resp {}) }
        #[sv::msg(sudo)]
        fn do_sudo(&self, _ctx: SudoCtx) -> StdResult<Response> { Ok(Response::new()) }
    }
}

pub mod s_quer_sudo_repl_mr_r {
    use super::*;
    pub mod eps {
        use super::super::*;
        #[sylvia::cw_schema::cw_serde]
        pub struct CustomQuery {}
        #[sylvia::cw_schema::cw_serde]
        pub struct CustomSudo {}
        pub fn query(_deps: Deps, _env: Env, _msg: CustomQuery) -> StdResult<Binary> { Ok(Binary::default()) }
        pub fn sudo(_deps: DepsMut, _env: Env, _msg: CustomSudo) -> StdResult<Response> { Ok(Response::new()) }
        pub fn reply(_deps: DepsMut, _env: Env, _msg: Reply) -> StdResult<Response> { Ok(Response::new()) }
    }

    pub struct Contract;

    #[entry_points]
    #[contract]
    #[sv::features(replies)]
    #[sv::override_entry_point(query=eps::query(eps::CustomQuery))]
    #[sv::override_entry_point(sudo=eps::sudo(eps::CustomSudo))]
    #[sv::override_entry_point(reply=eps::reply(sylvia::cw_std::Reply))]
    impl Contract {
        pub fn new() -> Self { Self }
        #[sv::msg(instantiate)]
        fn instantiate(&self, _ctx: InstantiateCtx) -> StdResult<Response> { Ok(Response::new()) }
        #[sv::msg(exec)]
        fn do_exec(&self, _ctx: ExecCtx) -> StdResult<Response> { Ok(Response::new()) }
        #[sv::msg(query)]
        fn do_query(&self, _ctx: QueryCtx) -> StdResult<Resp> { Ok(Resp {}) }
        #[sv::msg(sudo)]
        fn do_sudo(&self, _ctx: SudoCtx) -> StdResult<Response> { Ok(Response::new()) }
        #[sv::msg(migrate)]
        fn migrate(&self, _ctx: MigrateCtx) -> StdResult<Response> { Ok(Response::new()) }
        #[sv::msg(reply, handlers=[on_done], reply_on=success)]
        fn on_done(&self, _ctx: ReplyCtx, #[sv::payload(raw)] _payload: Binary) -> StdResult<Response> { Ok(Response::new()) }
    }
}

pub mod s_quer_sudo_repl_mr_l {
    use super::*;
    pub mod eps {
        use super::super::*;
        #[sylvia::cw_schema::cw_serde]
        pub struct CustomQuery {}
        #[sylvia::cw_schema::cw_serde]
        pub struct CustomSudo {}
        pub fn query(_deps: Deps, _env: Env, _msg: CustomQuery) -> StdResult<Binary> { Ok(Binary::default()) }
        pub fn sudo(_deps: DepsMut, _env: Env, _msg: CustomSudo) -> StdResult<Response> { Ok(Response::new()) }
        pub fn reply(_deps: DepsMut, _env: Env, _msg: Reply) -> StdResult<Response> { Ok(Response::new()) }
    }

    pub struct Contract;

    #[entry_points]
    #[contract]
    #[sv::override_entry_point(query=eps::query(eps::CustomQuery))]
    #[sv::override_entry_point(sudo=eps::sudo(eps::CustomSudo))]
    #[sv::override_entry_point(reply=eps::reply(sylvia::cw_std::Reply))]
    impl Contract {
        pub fn new() -> Self { Self }
        #[sv::msg(instantiate)]
        fn instantiate(&self, _ctx: InstantiateCtx) -> StdResult<Response> { Ok(Response::new()) }
        #[sv::msg(exec)]
        fn do_exec(&self, _ctx: ExecCtx) -> StdResult<Response> { Ok(Response::new()) }
        #[sv::msg(query)]
        fn do_query(&self, _ctx: QueryCtx) -> StdResult<Resp> { Ok(Resp {}) }
        #[sv::msg(sudo)]
        fn do_sudo(&self, _ctx: SudoCtx) -> StdResult<Response> { Ok(Response::new()) }
        #[sv::msg(migrate)]
        fn migrate(&self, _ctx: MigrateCtx) -> StdResult<Response> { Ok(Response::new()) }
        #[sv::msg(reply)]
        fn reply(&self, _ctx: sylvia::types::ReplyCtx, _msg: Reply) -> StdResult<Response> { Ok(Response::new()) }
    }
}

pub mod s_quer_sudo_repl_nomr_r {
    use super::*;
    pub mod eps {
        use super::super::*;
        #[sylvia::cw_schema::cw_serde]
        pub struct CustomQuery {}
        #[sylvia::cw_schema::cw_serde]
        pub struct CustomSudo {}
        pub fn query(_deps: Deps, _env: Env, _msg: CustomQuery) -> StdResult<Binary> { Ok(Binary::default()) }
        pub fn sudo(_deps: DepsMut, _env: Env, _msg: CustomSudo) -> StdResult<Response> { Ok(Response::new()) }
        pub fn reply(_deps: DepsMut, _env: Env, _msg: Reply) -> StdResult<Response> { Ok(Response::new()) }
    }

    pub struct Contract;

    #[entry_points]
    #[contract]
    #[sv::features(replies)]
    #[sv::override_entry_point(query=eps::query(eps::CustomQuery))]
    #[sv::override_entry_point(sudo=eps::sudo(eps::CustomSudo))]
    #[sv::override_entry_point(reply=eps::reply(sylvia::cw_std::Reply))]
    impl Contract {
        pub fn new() -> Self { Self }
        #[sv::msg(instantiate)]
        fn instantiate(&self, _ctx: InstantiateCtx) -> StdResult<Response> { Ok(Response::new()) }
        #[sv::msg(exec)]
        fn do_exec(&self, _ctx: ExecCtx) -> StdResult<Response> { Ok(Response::new()) }
        #[sv::msg(query)]
        fn do_query(&self, _ctx: QueryCtx) -> StdResult<Resp> { Ok(Resp {}) }
        #[sv::msg(sudo)]
        fn do_sudo(&self, _ctx: SudoCtx) -> StdResult<Response> { Ok(Response::new()) }
    }
}

pub mod s_quer_sudo_repl_nomr_l {
    use super::*;
    pub mod eps {
        use super::super::*;
        #[sylvia::cw_schema::cw_serde]
        pub struct CustomQuery {}
        #[sylvia::cw_schema::cw_serde]
        pub struct CustomSudo {}
        pub fn query(_deps: Deps, _env: Env, _msg: CustomQuery) -> StdResult<Binary> { Ok(Binary::default()) }
        pub fn sudo(_deps: DepsMut, _env: Env, _msg: CustomSudo) -> StdResult<Response> { Ok(Response::new()) }
        pub fn reply(_deps: DepsMut, _env: Env, _msg: Reply) -> StdResult<Response> { Ok(Response::new()) }
    }

    pub struct Contract;

    #[entry_points]
    #[contract]
    #[sv::override_entry_point(query=eps::query(eps::CustomQuery))]
    #[sv::override_entry_point(sudo=eps::sudo(eps::CustomSudo))]
    #[sv::override_entry_point(reply=eps::reply(sylvia::cw_std::Reply))]
    impl Contract {
        pub fn new() -> Self { Self }
        #[sv::msg(instantiate)]
        fn instantiate(&self, _ctx: InstantiateCtx) -> StdResult<Response> { Ok(Response::new()) }
        #[sv::msg(exec)]
        fn do_exec(&self, _ctx: ExecCtx) -> StdResult<Response> { Ok(Response::new()) }
        #[sv::msg(query)]
        fn do_query(&self, _ctx: QueryCtx) -> StdResult<Resp> { Ok(Resp {}) }
        #[sv::msg(sudo)]
        fn do_sudo(&self, _ctx: SudoCtx) -> StdResult<Response> { Ok(Response::new()) }
    }
}

pub mod s_quer_migr_repl_mr_r {
    use super::*;
    pub mod eps {
        use super::super::*;
        #[sylvia::cw_schema::cw_serde]
        pub struct CustomQuery {}
        #[sylvia::cw_schema::cw_serde]
        pub struct CustomMigrate {}
        pub fn query(_deps: Deps, _env: Env, _msg: CustomQuery) -> StdResult<Binary> { Ok(Binary::default()) }
        pub fn migrate(_deps: DepsMut, _env: Env, _msg: CustomMigrate) -> StdResult<Response> { Ok(Response::new()) }
        pub fn reply(_deps: DepsMut, _env: Env, _msg: Reply) -> StdResult<Response> { Ok(Response::new()) }
    }

    pub struct Contract;

    #[entry_points]
    #[contract]
    #[sv::features(replies)]
    #[sv::override_entry_point(query=eps::query(eps::CustomQuery))]
    #[sv::override_entry_point(migrate=eps::migrate(eps::CustomMigrate))]
    #[sv::override_entry_point(reply=eps::reply(sylvia::cw_std::Reply))]
    impl Contract {
        pub fn new() -> Self { Self }
        #[sv::msg(instantiate)]
        fn instantiate(&self, _ctx: InstantiateCtx) -> StdResult<Response> { Ok(Response::new()) }
        #[sv::msg(exec)]
        fn do_exec(&self, _ctx: ExecCtx) -> StdResult<Response> { Ok(Response::new()) }
        #[sv::msg(query)]
        fn do_query(&self, _ctx: QueryCtx) -> StdResult<Resp> { Ok(Resp {}) }
        #[sv::msg(sudo)]
        fn do_sudo(&self, _ctx: SudoCtx) -> StdResult<Response> { Ok(Response::new()) }
        #[sv::msg(migrate)]
        fn migrate(&self, _ctx: MigrateCtx) -> StdResult<Response> { Ok(Response::new()) }
        #[sv::msg(reply, handlers=[on_done], reply_on=success)]
        fn on_done(&self, _ctx: ReplyCtx, #[sv::payload(raw)] _payload: Binary) -> StdResult<Response> { Ok(Response::new()) }
    }
}

pub mod s_quer_migr_repl_mr_l {
    use super::*;
    pub mod eps {
        use super::super::*;
        #[sylvia::cw_schema::cw_serde]
        pub struct CustomQuery {}
        #[sylvia::cw_schema::cw_serde]
        pub struct CustomMigrate {}
        pub fn query(_deps: Deps, _env: Env, _msg: CustomQuery) -> StdResult<Binary> { Ok(Binary::default()) }
        pub fn migrate(_deps: DepsMut, _env: Env, _msg: CustomMigrate) -> StdResult<Response> { Ok(Response::new()) }
        pub fn reply(_deps: DepsMut, _env: Env, _msg: Reply) -> StdResult<Response> { Ok(Response::new()) }
    }

    pub struct Contract;

    #[entry_points]
    #[contract]
    #[sv::override_entry_point(query=eps::query(eps::CustomQuery))]
    #[sv::override_entry_point(migrate=eps::migrate(eps::CustomMigrate))]
    #[sv::override_entry_point(reply=eps::reply(sylvia::cw_std::Reply))]
    impl Contract {
        pub fn new() -> Self { Self }
        #[sv::msg(instantiate)]
        fn instantiate(&self, _ctx: InstantiateCtx) -> StdResult<Response> { Ok(Response::new()) }
        #[sv::msg(exec)]
        fn do_exec(&self, _ctx: ExecCtx) -> StdResult<Response> { Ok(Response::new()) }
        #[sv::msg(query)]
        fn do_query(&self, _ctx: QueryCtx) -> StdResult<Resp> { Ok(Resp {}) }
        #[sv::msg(sudo)]
        fn do_sudo(&self, _ctx: SudoCtx) -> StdResult<Response> { Ok(Response::new()) }
        #[sv::msg(migrate)]
        fn migrate(&self, _ctx: MigrateCtx) -> StdResult<Response> { Ok(Response::new()) }
        #[sv::msg(reply)]
        fn reply(&self, _ctx: sylvia::types::ReplyCtx, _msg: Reply) -> StdResult<Response> { Ok(Response::new()) }
    }
}

pub mod s_quer_migr_repl_nomr_r {
    use super::*;
    pub mod eps {
        use super::super::*;
        #[sylvia::cw_schema::cw_serde]
        pub struct CustomQuery {}
        #[sylvia::cw_schema::cw_serde]
        pub struct CustomMigrate {}
        pub fn query(_deps: Deps, _env: Env, _msg: CustomQuery) -> StdResult<Binary> { Ok(Binary::default()) }
        pub fn migrate(_deps: DepsMut, _env: Env, _msg: CustomMigrate) -> StdResult<Response> { Ok(Response::new()) }
        pub fn reply(_deps: DepsMut, _env: Env, _msg: Reply) -> StdResult<Response> { Ok(Response::new()) }
    }

    pub struct Contract;

    #[entry_points]
    #[contract]
    #[sv::features(replies)]
    #[sv::override_entry_point(query=eps::query(eps::CustomQuery))]
    #[sv::override_entry_point(migrate=eps::migrate(eps::CustomMigrate))]
    #[sv::override_entry_point(reply=eps::reply(sylvia::cw_std::Reply))]
    impl Contract {
        pub fn new() -> Self { Self }
        #[sv::msg(instantiate)]
        fn instantiate(&self, _ctx: InstantiateCtx) -> StdResult<Response> { Ok(Response::new()) }
        #[sv::msg(exec)]
        fn do_exec(&self, _ctx: ExecCtx) -> StdResult<Response> { Ok(Response::new()) }
        #[sv::msg(query)]
        fn do_query(&self, _ctx: QueryCtx) -> StdResult<Resp> { Ok(Resp {}) }
        #[sv::msg(sudo)]
        fn do_sudo(&self, _ctx: SudoCtx) -> StdResult<Response> { Ok(Response::new()) }
    }
}

pub mod s_quer_migr_repl_nomr_l {
    use super::*;
    pub mod eps {
        use super::super::*;
        #[sylvia::cw_schema::cw_serde]
        pub struct CustomQuery {}
        #[sylvia::cw_schema::cw_serde]
        pub struct CustomMigrate {}
        pub fn query(_deps: Deps, _env: Env, _msg: CustomQuery) -> StdResult<Binary> { Ok(Binary::default()) }
        pub fn migrate(_deps: DepsMut, _env: Env, _msg: CustomMigrate) -> StdResult<Response> { Ok(Response::new()) }
        pub fn reply(_deps: DepsMut, _env: Env, _msg: Reply) -> StdResult<Response> { Ok(Response::new()) }
    }

    pub struct Contract;

    #[entry_points]
    #[contract]
    #[sv::override_entry_point(query=eps::query(eps::CustomQuery))]
    #[sv::override_entry_point(migrate=eps::migrate(eps::CustomMigrate))]
    #[sv::override_entry_point(reply=eps::reply(sylvia::cw_std::Reply))]
    impl Contract {
        pub fn new() -> Self { Self }
        #[sv::msg(instantiate)]
        fn instantiate(&self, _ctx: InstantiateCtx) -> StdResult<Response> { Ok(Response::new()) }
        #[sv::msg(exec)]
        fn do_exec(&self, _ctx: ExecCtx) -> StdResult<Response> { Ok(Response::new()) }
        #[sv::msg(query)]
        fn do_query(&self, _ctx: QueryCtx) -> StdResult<Resp> { Ok(Resp {}) }
        #[sv::msg(sudo)]
        fn do_sudo(&self, _ctx: SudoCtx) -> StdResult<Response> { Ok(Response::new()) }
    }
}

pub mod s_sudo_migr_repl_mr_r {
    use super::*;
    pub mod eps {
        use super::super::*;
        #[sylvia::cw_schema::cw_serde]
        pub struct CustomSudo {}
        #[sylvia::cw_schema::cw_serde]
        pub struct CustomMigrate {}
        pub fn sudo(_deps: DepsMut, _env: Env, _msg: CustomSudo) -> StdResult<Response> { Ok(Response::new()) }
        pub fn migrate(_deps: DepsMut, _env: Env, _msg: CustomMigrate) -> StdResult<Response> { Ok(Response::new()) }
        pub fn reply(_deps: DepsMut, _env: Env, _msg: Reply) -> StdResult<Response> { Ok(Response::new()) }
    }

    pub struct Contract;

    #[entry_points]
    #[contract]
    #[sv::features(replies)]
    #[sv::override_entry_point(sudo=eps::sudo(eps::CustomSudo))]
    #[sv::override_entry_point(migrate=eps::migrate(eps::CustomMigrate))]
    #[sv::override_entry_point(reply=eps::reply(sylvia::cw_std::Reply))]
    impl Contract {
        pub fn new() -> Self { Self }
        #[sv::msg(instantiate)]
        fn instantiate(&self, _ctx: InstantiateCtx) -> StdResult<Response> { Ok(Response::new()) }
        #[sv::msg(exec)]
        fn do_exec(&self, _ctx: ExecCtx) -> StdResult<Response> { Ok(Response::new()) }
        #[sv::msg(query)]
        fn do_query(&self, _ctx: QueryCtx) -> StdResult<Resp> { Ok(Resp {}) }
        #[sv::msg(sudo)]
        fn do_sudo(&self, _ctx: SudoCtx) -> StdResult<Response> { Ok(Response::new()) }
        #[sv::msg(migrate)]
        fn migrate(&self, _ctx: MigrateCtx) -> StdResult<Response> { Ok(Response::new()) }
        #[sv::msg(reply, handlers=[on_done], reply_on=success)]
        fn on_done(&self, _ctx: ReplyCtx, #[sv::payload(raw)] _payload: Binary) -> StdResult<Response> { Ok(Response::new()) }
    }
}

pub mod s_sudo_migr_repl_mr_l {
    use super::*;
    pub mod eps {
        use super::super::*;
        #[sylvia::cw_schema::cw_serde]
        pub struct CustomSudo {}
        #[sylvia::cw_schema::cw_serde]
        pub struct CustomMigrate {}
        pub fn sudo(_deps: DepsMut, _env: Env, _msg: CustomSudo) -> StdResult<Response> { Ok(Response::new()) }
        pub fn migrate(_deps: DepsMut, _env: Env, _msg: CustomMigrate) -> StdResult<Response> { Ok(Response::new()) }
        pub fn reply(_deps: DepsMut, _env: Env, _msg: Reply) -> StdResult<Response> { Ok(Response::new()) }
    }

    pub struct Contract;

    #[entry_points]
    #[contract]
    #[sv::override_entry_point(sudo=eps::sudo(eps::CustomSudo))]
    #[sv::override_entry_point(migrate=eps::migrate(eps::CustomMigrate))]
    #[sv::override_entry_point(reply=eps::reply(sylvia::cw_std::Reply))]
    impl Contract {
        pub fn new() -> Self { Self }
        #[sv::msg(instantiate)]
        fn instantiate(&self, _ctx: InstantiateCtx) -> StdResult<Response> { Ok(Response::new()) }
        #[sv::msg(exec)]
        fn do_exec(&self, _ctx: ExecCtx) -> StdResult<Response> { Ok(Response::new()) }
        #[sv::msg(query)]
        fn do_query(&self, _ctx: QueryCtx) -> StdResult<Resp> { Ok(Resp {}) }
        #[sv::msg(sudo)]
        fn do_sudo(&self, _ctx: SudoCtx) -> StdResult<Response> { Ok(Response::new()) }
        #[sv::msg(migrate)]
        fn migrate(&self, _ctx: MigrateCtx) -> StdResult<Response> { Ok(Response::new()) }
        #[sv::msg(reply)]
        fn reply(&self, _ctx: sylvia::types::ReplyCtx, _msg: Reply) -> StdResult<Response> { Ok(Response::new()) }
    }
}

pub mod s_sudo_migr_repl_nomr_r {
    use super::*;
    pub mod eps {
        use super::super::*;
        #[sylvia::cw_schema::cw_serde]
        pub struct CustomSudo {}
        #[sylvia::cw_schema::cw_serde]
        pub struct CustomMigrate {}
        pub fn sudo(_deps: DepsMut, _env: Env, _msg: CustomSudo) -> StdResult<Response> { Ok(Response::new()) }
        pub fn migrate(_deps: DepsMut, _env: Env, _msg: CustomMigrate) -> StdResult<Response> { Ok(Response::new()) }
        pub fn reply(_deps: DepsMut, _env: Env, _msg: Reply) -> StdResult<Response> { Ok(Response::new()) }
    }

    pub struct Contract;

    #[entry_points]
    #[contract]
    #[sv::features(replies)]
    #[sv::override_entry_point(sudo=eps::sudo(eps::CustomSudo))]
    #[sv::override_entry_point(migrate=eps::migrate(eps::CustomMigrate))]
    #[sv::override_entry_point(reply=eps::reply(sylvia::cw_std::Reply))]
    impl Contract {
        pub fn new() -> Self { Self }
        #[sv::msg(instantiate)]
        fn instantiate(&self, _ctx: InstantiateCtx) -> StdResult<Response> { Ok(Response::new()) }
        #[sv::msg(exec)]
        fn do_exec(&self, _ctx: ExecCtx) -> StdResult<Response> { Ok(Response::new()) }
        #[sv::msg(query)]
        fn do_query(&self, _ctx: QueryCtx) -> StdResult<Resp> { Ok(Resp {}) }
        #[sv::msg(sudo)]
        fn do_sudo(&self, _ctx: SudoCtx) -> StdResult<Response> { Ok(Response::new()) }
    }
}

pub mod s_sudo_migr_repl_nomr_l {
    use super::*;
    pub mod eps {
        use super::super::*;
        #[sylvia::cw_schema::cw_serde]
        pub struct CustomSudo {}
        #[sylvia::cw_schema::cw_serde]
        pub struct CustomMigrate {}
        pub fn sudo(_deps: DepsMut, _env: Env, _msg: CustomSudo) -> StdResult<Response> { Ok(Response::new()) }
        pub fn migrate(_deps: DepsMut, _env: Env, _msg: CustomMigrate) -> StdResult<Response> { Ok(Response::new()) }
        pub fn reply(_deps: DepsMut, _env: Env, _msg: Reply) -> StdResult<Response> { Ok(Response::new()) }
    }

    pub struct Contract;

    #[entry_points]
    #[contract]
    #[sv::override_entry_point(sudo=eps::sudo(eps::CustomSudo))]
    #[sv::override_entry_point(migrate=eps::migrate(eps::CustomMigrate))]
    #[sv::override_entry_point(reply=eps::reply(sylvia::cw_std::Reply))]
    impl Contract {
        pub fn new() -> Self { Self }
        #[sv::msg(instantiate)]
        fn instantiate(&self, _ctx: InstantiateCtx) -> StdResult<Response> { Ok(Response::new()) }
        #[sv::msg(exec)]
        fn do_exec(&self, _ctx: ExecCtx) -> StdResult<Response> { Ok(Response::new()) }
        #[sv::msg(query)]
        fn do_query(&self, _ctx: QueryCtx) -> StdResult<Resp> { Ok(Resp {}) }
        #[sv::msg(sudo)]
        fn do_sudo(&self, _ctx: SudoCtx) -> StdResult<Response> { Ok(Response::new()) }
    }
}

pub mod s_inst_exec_quer_sudo_mr_r {
    use super::*;
    pub mod eps {
        use super::super::*;
        #[sylvia::cw_schema::cw_serde]
        pub struct CustomInstantiate {}
        #[sylvia::cw_schema::cw_serde]
        pub struct CustomExec {}
        #[sylvia::cw_schema::cw_serde]
        pub struct CustomQuery {}
        #[sylvia::cw_schema::cw_serde]
        pub struct CustomSudo {}
        pub fn instantiate(_deps: DepsMut, _env: Env, _info: MessageInfo, _msg: CustomInstantiate) -> StdResult<Response> { Ok(Response::new()) }
        pub fn execute(_deps: DepsMut, _env: Env, _info: MessageInfo, _msg: CustomExec) -> StdResult<Response> { Ok(Response::new()) }
        pub fn query(_deps: Deps, _env: Env, _msg: CustomQuery) -> StdResult<Binary> { Ok(Binary::default()) }
        pub fn sudo(_deps: DepsMut, _env: Env, _msg: CustomSudo) -> StdResult<Response> { Ok(Response::new()) }
    }

    pub struct Contract;

    #[entry_points]
    #[contract]
    #[sv::features(replies)]
    #[sv::override_entry_point(instantiate=eps::instantiate(eps::CustomInstantiate))]
    #[sv::override_entry_point(exec=eps::execute(eps::CustomExec))]
    #[sv::override_entry_point(query=eps::query(eps::CustomQuery))]
    #[sv::override_entry_point(sudo=eps::sudo(eps::CustomSudo))]
    impl Contract {
        pub fn new() -> Self { Self }
        #[sv::msg(instantiate)]
        fn instantiate(&self, _ctx: InstantiateCtx) -> StdResult<Response> { Ok(Response::new()) }
        #[sv::msg(exec)]
        fn do_exec(&self, _ctx: ExecCtx) -> StdResult<Response> { Ok(Response::new()) }
        #[sv::msg(query)]
        fn do_query(&self, _ctx: QueryCtx) -> StdResult<Resp> { Ok(Resp {}) }
        #[sv::msg(sudo)]
        fn do_sudo(&self, _ctx: SudoCtx) -> StdResult<Response> { Ok(Response::new()) }
        #[sv::msg(migrate)]
        fn migrate(&self, _ctx: MigrateCtx) -> StdResult<Response> { Ok(Response::new()) }
        #[sv::msg(reply, handlers=[on_done], reply_on=success)]
        fn on_done(&self, _ctx: ReplyCtx, #[sv::payload(raw)] _payload: Binary) -> StdResult<Response> { Ok(Response::new()) }
    }
}

pub mod s_inst_exec_quer_sudo_mr_l {
    use super::*;
    pub mod eps {
        use super::super::*;
        #[sylvia::cw_schema::cw_serde]
        pub struct CustomInstantiate {}
        #[sylvia::cw_schema::cw_serde]
        pub struct CustomExec {}
        #[sylvia::cw_schema::cw_serde]
        pub struct CustomQuery {}
        #[sylvia::cw_schema::cw_serde]
        pub struct CustomSudo {}
        pub fn instantiate(_deps: DepsMut, _env: Env, _info: MessageInfo, _msg: CustomInstantiate) -> StdResult<Response> { Ok(Response::new()) }
        pub fn execute(_deps: DepsMut, _env: Env, _info: MessageInfo, _msg: CustomExec) -> StdResult<Response> { Ok(Response::new()) }
        pub fn query(_deps: Deps, _env: Env, _msg: CustomQuery) -> StdResult<Binary> { Ok(Binary::default()) }
        pub fn sudo(_deps: DepsMut, _env: Env, _msg: CustomSudo) -> StdResult<Response> { Ok(Response::new()) }
    }

    pub struct Contract;

    #[entry_points]
    #[contract]
    #[sv::override_entry_point(instantiate=eps::instantiate(eps::CustomInstantiate))]
    #[sv::override_entry_point(exec=eps::execute(eps::CustomExec))]
    #[sv::override_entry_point(query=eps::query(eps::CustomQuery))]
    #[sv::override_entry_point(sudo=eps::sudo(eps::CustomSudo))]
    impl Contract {
        pub fn new() -> Self { Self }
        #[sv::msg(instantiate)]
        fn instantiate(&self, _ctx: InstantiateCtx) -> StdResult<Response> { Ok(Response::new()) }
        #[sv::msg(exec)]
        fn do_exec(&self, _ctx: ExecCtx) -> StdResult<Response> { Ok(Response::new()) }
        #[sv::msg(query)]
        fn do_query(&self, _ctx: QueryCtx) -> StdResult<Resp> { Ok(Resp {}) }
        #[sv::msg(sudo)]
        fn do_sudo(&self, _ctx: SudoCtx) -> StdResult<Response> { Ok(Response::new()) }
        #[sv::msg(migrate)]
        fn migrate(&self, _ctx: MigrateCtx) -> StdResult<Response> { Ok(Response::new()) }
        #[sv::msg(reply)]
        fn reply(&self, _ctx: sylvia::types::ReplyCtx, _msg: Reply) -> StdResult<Response> { Ok(Response::new()) }
    }
}

pub mod s_inst_exec_quer_sudo_nomr_r {
    use super::*;
    pub mod eps {
        use super::super::*;
        #[sylvia::cw_schema::cw_serde]
        pub struct CustomInstantiate {}
        #[sylvia::cw_schema::cw_serde]
        pub struct CustomExec {}
        #[sylvia::cw_schema::cw_serde]
        pub struct CustomQuery {}
        #[sylvia::cw_schema::cw_serde]
        pub struct CustomSudo {}
        pub fn instantiate(_deps: DepsMut, _env: Env, _info: MessageInfo, _msg: CustomInstantiate) -> StdResult<Response> { Ok(Response::new()) }
        pub fn execute(_deps: DepsMut, _env: Env, _info: MessageInfo, _msg: CustomExec) -> StdResult<Response> { Ok(Response::new()) }
        pub fn query(_deps: Deps, _env: Env, _msg: CustomQuery) -> StdResult<Binary> { Ok(Binary::default()) }
        pub fn sudo(_deps: DepsMut, _env: Env, _msg: CustomSudo) -> StdResult<Response> { Ok(Response::new()) }
    }

    pub struct Contract;

    #[entry_points]
    #[contract]
    #[sv::features(replies)]
    #[sv::override_entry_point(instantiate=eps::instantiate(eps::CustomInstantiate))]
    #[sv::override_entry_point(exec=eps::execute(eps::CustomExec))]
    #[sv::override_entry_point(query=eps::query(eps::CustomQuery))]
    #[sv::override_entry_point(sudo=eps::sudo(eps::CustomSudo))]
    impl Contract {
        pub fn new() -> Self { Self }
        #[sv::msg(instantiate)]
        fn instantiate(&self, _ctx: InstantiateCtx) -> StdResult<Response> { Ok(Response::new()) }
        #[sv::msg(exec)]
        fn do_exec(&self, _ctx: ExecCtx) -> StdResult<Response> { Ok(Response::new()) }
        #[sv::msg(query)]
        fn do_query(&self, _ctx: QueryCtx) -> StdResult<Resp> { Ok(Resp {}) }
        #[sv::msg(sudo)]
        fn do_sudo(&self, _ctx: SudoCtx) -> StdResult<Response> { Ok(Response::new()) }
    }
}

pub mod s_inst_exec_quer_sudo_nomr_l {
    use super::*;
    pub mod eps {
        use super::super::*;
        #[sylvia::cw_schema::cw_serde]
        pub struct CustomInstantiate {}
        #[sylvia::cw_schema::cw_serde]
        pub struct CustomExec {}
        #[sylvia::cw_schema::cw_serde]
        pub struct CustomQuery {}
        #[sylvia::cw_schema::cw_serde]
        pub struct CustomSudo {}
        pub fn instantiate(_deps: DepsMut, _env: Env, _info: MessageInfo, _msg: CustomInstantiate) -> StdResult<Response> { Ok(Response::new()) }
        pub fn execute(_deps: DepsMut, _env: Env, _info: MessageInfo, _msg: CustomExec) -> StdResult<Response> { Ok(Response::new()) }
        pub fn query(_deps: Deps, _env: Env, _msg: CustomQuery) -> StdResult<Binary> { Ok(Binary::default()) }
        pub fn sudo(_deps: DepsMut, _env: Env, _msg: CustomSudo) -> StdResult<Response> { Ok(Response::new()) }
    }

    pub struct Contract;

    #[entry_points]
    #[contract]
    #[sv::override_entry_point(instantiate=eps::instantiate(eps::CustomInstantiate))]
    #[sv::override_entry_point(exec=eps::execute(eps::CustomExec))]
    #[sv::override_entry_point(query=eps::query(eps::CustomQuery))]
    #[sv::override_entry_point(sudo=eps::sudo(eps::CustomSudo))]
    impl Contract {
        pub fn new() -> Self { Self }
        #[sv::msg(instantiate)]
        fn instantiate(&self, _ctx: InstantiateCtx) -> StdResult<Response> { Ok(Response::new()) }
        #[sv::msg(exec)]
        fn do_exec(&self, _ctx: ExecCtx) -> StdResult<Response> { Ok(Response::new()) }
        #[sv::msg(query)]
        fn do_query(&self, _ctx: QueryCtx) -> StdResult<Resp> { Ok(Resp {}) }
        #[sv::msg(sudo)]
        fn do_sudo(&self, _ctx: SudoCtx) -> StdResult<Response> { Ok(Response::new()) }
    }
}

pub mod s_inst_exec_quer_migr_mr_r {
    use super::*;
    pub mod eps {
        use super::super::*;
        #[sylvia::cw_schema::cw_serde]
        pub struct CustomInstantiate {}
        #[sylvia::cw_schema::cw_serde]
        pub struct CustomExec {}
        #[sylvia::cw_schema::cw_serde]
        pub struct CustomQuery {}
        #[sylvia::cw_schema::cw_serde]
        pub struct CustomMigrate {}
        pub fn instantiate(_deps: DepsMut, _env: Env, _info: MessageInfo, _msg: CustomInstantiate) -> StdResult<Response> { Ok(Response::new()) }
        pub fn execute(_deps: DepsMut, _env: Env, _info: MessageInfo, _msg: CustomExec) -> StdResult<Response> { Ok(Response::new()) }
        pub fn query(_deps: Deps, _env: Env, _msg: CustomQuery) -> StdResult<Binary> { Ok(Binary::default()) }
        pub fn migrate(_deps: DepsMut, _env: Env, _msg: CustomMigrate) -> StdResult<Response> { Ok(Response::new()) }
    }

    pub struct Contract;

    #[entry_points]
    #[contract]
    #[sv::features(replies)]
    #[sv::override_entry_point(instantiate=eps::instantiate(eps::CustomInstantiate))]
    #[sv::override_entry_point(exec=eps::execute(eps::CustomExec))]
    #[sv::override_entry_point(query=eps::query(eps::CustomQuery))]
    #[sv::override_entry_point(migrate=eps::migrate(eps::CustomMigrate))]
    impl Contract {
        pub fn new() -> Self { Self }
        #[sv::msg(instantiate)]
        fn instantiate(&self, _ctx: InstantiateCtx) -> StdResult<Response> { Ok(Response::new()) }
        #[sv::msg(exec)]
        fn do_exec(&self, _ctx: ExecCtx) -> StdResult<Response> { Ok(Response::new()) }
        #[sv::msg(query)]
        fn do_query(&self, _ctx: QueryCtx) -> StdResult<Resp> { Ok(Resp {}) }
        #[sv::msg(sudo)]
        fn do_sudo(&self, _ctx: SudoCtx) -> StdResult<Response> { Ok(Response::new()) }
        #[sv::msg(migrate)]
        fn migrate(&self, _ctx: MigrateCtx) -> StdResult<Response> { Ok(Response::new()) }
        #[sv::msg(reply, handlers=[on_done], reply_on=success)]
        fn on_done(&self, _ctx: ReplyCtx, #[sv::payload(raw)] _payload: Binary) -> StdResult<Response> { Ok(Response::new()) }
    }
}

pub mod s_inst_exec_quer_migr_mr_l {
    use super::*;
    pub mod eps {
        use super::super::*;
        #[sylvia::cw_schema::cw_serde]
        pub struct CustomInstantiate {}
        #[sylvia::cw_schema::cw_serde]
        pub struct CustomExec {}
        #[sylvia::cw_schema::cw_serde]
        pub struct CustomQuery {}
        #[sylvia::cw_schema::cw_serde]
        pub struct CustomMigrate {}
        pub fn instantiate(_deps: DepsMut, _env: Env, _info: MessageInfo, _msg: CustomInstantiate) -> StdResult<Response> { Ok(Response::new()) }
        pub fn execute(_deps: DepsMut, _env: Env, _info: MessageInfo, _msg: CustomExec) -> StdResult<Response> { Ok(Response::new()) }
        pub fn query(_deps: Deps, _env: Env, _msg: CustomQuery) -> StdResult<Binary> { Ok(Binary::default()) }
        pub fn migrate(_deps: DepsMut, _env: Env, _msg: CustomMigrate) -> StdResult<Response> { Ok(Response::new()) }
    }

    pub struct Contract;

    #[entry_points]
    #[contract]
    #[sv::override_entry_point(instantiate=eps::instantiate(eps::CustomInstantiate))]
    #[sv::override_entry_point(exec=eps::execute(eps::CustomExec))]
    #[sv::override_entry_point(query=eps::query(eps::CustomQuery))]
    #[sv::override_entry_point(migrate=eps::migrate(eps::CustomMigrate))]
    impl Contract {
        pub fn new() -> Self { Self }
        #[sv::msg(instantiate)]
        fn instantiate(&self, _ctx: InstantiateCtx) -> StdResult<Response> { Ok(Response::new()) }
        #[sv::msg(exec)]
        fn do_exec(&self, _ctx: ExecCtx) -> StdResult<Response> { Ok(Response::new()) }
        #[sv::msg(query)]
        fn do_query(&self, _ctx: QueryCtx) -> StdResult<Resp> { Ok(Resp {}) }
        #[sv::msg(sudo)]
        fn do_sudo(&self, _ctx: SudoCtx) -> StdResult<Response> { Ok(Response::new()) }
        #[sv::msg(migrate)]
        fn migrate(&self, _ctx: MigrateCtx) -> StdResult<Response> { Ok(Response::new()) }
        #[sv::msg(reply)]
        fn reply(&self, _ctx: sylvia::types::ReplyCtx, _msg: Reply) -> StdResult<Response> { Ok(Response::new()) }
    }
}

pub mod s_inst_exec_quer_migr_nomr_r {
    use super::*;
    pub mod eps {
        use super::super::*;
        #[sylvia::cw_schema::cw_serde]
        pub struct CustomInstantiate {}
        #[sylvia::cw_schema::cw_serde]
        pub struct CustomExec {}
        #[sylvia::cw_schema::cw_serde]
        pub struct CustomQuery {}
        #[sylvia::cw_schema::cw_serde]
        pub struct CustomMigrate {}
        pub fn instantiate(_deps: DepsMut, _env: Env, _info: MessageInfo, _msg: CustomInstantiate) -> StdResult<Response> { Ok(Response::new()) }
        pub fn execute(_deps: DepsMut, _env: Env, _info: MessageInfo, _msg: CustomExec) -> StdResult<Response> { Ok(Response::new()) }
        pub fn query(_deps: Deps, _env: Env, _msg: CustomQuery) -> StdResult<Binary> { Ok(Binary::default()) }
        pub fn migrate(_deps: DepsMut, _env: Env, _msg: CustomMigrate) -> StdResult<Response> { Ok(Response::new()) }
    }

    pub struct Contract;

    #[entry_points]
    #[contract]
    #[sv::features(replies)]
    #[sv::override_entry_point(instantiate=eps::instantiate(eps::CustomInstantiate))]
    #[sv::override_entry_point(exec=eps::execute(eps::CustomExec))]
    #[sv::override_entry_point(query=eps::query(eps::CustomQuery))]
    #[sv::override_entry_point(migrate=eps::migrate(eps::CustomMigrate))]
    impl Contract {
        pub fn new() -> Self { Self }
        #[sv::msg(instantiate)]
        fn instantiate(&self, _ctx: InstantiateCtx) -> StdResult<Response> { Ok(Response::new()) }
        #[sv::msg(exec)]
        fn do_exec(&self, _ctx: ExecCtx) -> StdResult<Response> { Ok(Response::new()) }
        #[sv::msg(query)]
        fn do_query(&self, _ctx: QueryCtx) -> StdResult<Resp> { Ok(Resp {}) }
        #[sv::msg(sudo)]
        fn do_sudo(&self, _ctx: SudoCtx) -> StdResult<Response> { Ok(Response::new()) }
    }
}

pub mod s_inst_exec_quer_migr_nomr_l {
    use super::*;
    pub mod eps {
        use super::super::*;
        #[sylvia::cw_schema::cw_serde]
        pub struct CustomInstantiate {}
        #[sylvia::cw_schema::cw_serde]
        pub struct CustomExec {}
        #[sylvia::cw_schema::cw_serde]
        pub struct CustomQuery {}
        #[sylvia::cw_schema::cw_serde]
        pub struct CustomMigrate {}
        pub fn instantiate(_deps: DepsMut, _env: Env, _info: MessageInfo, _msg: CustomInstantiate) -> StdResult<Response> { Ok(Response::new()) }
        pub fn execute(_deps: DepsMut, _env: Env, _info: MessageInfo, _msg: CustomExec) -> StdResult<Response> { Ok(Response::new()) }
        pub fn query(_deps: Deps, _env: Env, _msg: CustomQuery) -> StdResult<Binary> { Ok(Binary::default()) }
        pub fn migrate(_deps: DepsMut, _env: Env, _msg: CustomMigrate) -> StdResult<Response> { Ok(Response::new()) }
    }

    pub struct Contract;

    #[entry_points]
    #[contract]
    #[sv::override_entry_point(instantiate=eps::instantiate(eps::CustomInstantiate))]
    #[sv::override_entry_point(exec=eps::execute(eps::CustomExec))]
    #[sv::override_entry_point(query=eps::query(eps::CustomQuery))]
    #[sv::override_entry_point(migrate=eps::migrate(eps::CustomMigrate))]
    impl Contract {
        pub fn new() -> Self { Self }
        #[sv::msg(instantiate)]
        fn instantiate(&self, _ctx: InstantiateCtx) -> StdResult<Response> { Ok(Response::new()) }
        #[sv::msg(exec)]
        fn do_exec(&self, _ctx: ExecCtx) -> StdResult<Response> { Ok(Response::new()) }
        #[sv::msg(query)]
        fn do_query(&self, _ctx: QueryCtx) -> StdResult<Resp> { Ok(Resp {}) }
        #[sv::msg(sudo)]
        fn do_sudo(&self, _ctx: SudoCtx) -> StdResult<Response> { Ok(Response::new()) }
    }
}

pub mod s_inst_exec_quer_repl_mr_r {
    use super::*;
    pub mod eps {
        use super::super::*;
        #[sylvia::cw_schema::cw_serde]
        pub struct CustomInstantiate {}
        #[sylvia::cw_schema::cw_serde]
        pub struct CustomExec {}
        #[sylvia::cw_schema::cw_serde]
        pub struct CustomQuery {}
        pub fn instantiate(_deps: DepsMut, _env: Env, _info: MessageInfo, _msg: CustomInstantiate) -> StdResult<Response> { Ok(Response::new()) }
        pub fn execute(_deps: DepsMut, _env: Env, _info: MessageInfo, _msg: CustomExec) -> StdResult<Response> { Ok(Response::new()) }
        pub fn query(_deps: Deps, _env: Env, _msg: CustomQuery) -> StdResult<Binary> { Ok(Binary::default()) }
        pub fn reply(_deps: DepsMut, _env: Env, _msg: Reply) -> StdResult<Response> { Ok(Response::new()) }
    }

    pub struct Contract;

    #[entry_points]
    #[contract]
    #[sv::features(replies)]
    #[sv::override_entry_point(instantiate=eps::instantiate(eps::CustomInstantiate))]
    #[sv::override_entry_point(exec=eps::execute(eps::CustomExec))]
    #[sv::override_entry_point(query=eps::query(eps::CustomQuery))]
    #[sv::override_entry_point(reply=eps::reply(sylvia::cw_std::Reply))]
    impl Contract {
        pub fn new() -> Self { Self }
        #[sv::msg(instantiate)]
        fn instantiate(&self, _ctx: InstantiateCtx) -> StdResult<Response> { Ok(Response::new()) }
        #[sv::msg(exec)]
        fn do_exec(&self, _ctx: ExecCtx) -> StdResult<Response> { Ok(Response::new()) }
        #[sv::msg(query)]
        fn do_query(&self, _ctx: QueryCtx) -> StdResult<Resp> { Ok(Resp {}) }
        #[sv::msg(sudo)]
        fn do_sudo(&self, _ctx: SudoCtx) -> StdResult<Response> { Ok(Response::new()) }
        #[sv::msg(migrate)]
        fn migrate(&self, _ctx: MigrateCtx) -> StdResult<Response> { Ok(Response::new()) }
        #[sv::msg(reply, handlers=[on_done], reply_on=success)]
        fn on_done(&self, _ctx: ReplyCtx, #[sv::payload(raw)] _payload: Binary) -> StdResult<Response> { Ok(Response::new()) }
    }
}

pub mod s_inst_exec_quer_repl_mr_l {
    use super::*;
    pub mod eps {
        use super::super::*;
        #[sylvia::cw_schema::cw_serde]
        pub struct CustomInstantiate {}
        #[sylvia::cw_schema::cw_serde]
        pub struct CustomExec {}
        #[sylvia::cw_schema::cw_serde]
        pub struct CustomQuery {}
        pub fn instantiate(_deps: DepsMut, _env: Env, _info: MessageInfo, _msg: CustomInstantiate) -> StdResult<Response> { Ok(Response::new()) }
        pub fn execute(_deps: DepsMut, _env: Env, _info: MessageInfo, _msg: CustomExec) -> StdResult<Response> { Ok(Response::new()) }
        pub fn query(_deps: Deps, _env: Env, _msg: CustomQuery) -> StdResult<Binary> { Ok(Binary::default()) }
        pub fn reply(_deps: DepsMut, _env: Env, _msg: Reply) -> StdResult<Response> { Ok(Response::new()) }
    }

    pub struct Contract;

    #[entry_points]
    #[contract]
    #[sv::override_entry_point(instantiate=eps::instantiate(eps::CustomInstantiate))]
    #[sv::override_entry_point(exec=eps::execute(eps::CustomExec))]
    #[sv::override_entry_point(query=eps::query(eps::CustomQuery))]
    #[sv::override_entry_point(reply=eps::reply(sylvia::cw_std::Reply))]
    impl Contract {
        pub fn new() -> Self { Self }
        #[sv::msg(instantiate)]
        fn instantiate(&self, _ctx: InstantiateCtx) -> StdResult<Response> { Ok(Response::new()) }
        #[sv::msg(exec)]
        fn do_exec(&self, _ctx: ExecCtx) -> StdResult<Response> { Ok(Response::new()) }
        #[sv::msg(query)]
        fn do_query(&self, _ctx: QueryCtx) -> StdResult<Resp> { Ok(Resp {}) }
        #[sv::msg(sudo)]
        fn do_sudo(&self, _ctx: SudoCtx) -> StdResult<Response> { Ok(Response::new()) }
        #[sv::msg(migrate)]
        fn migrate(&self, _ctx: MigrateCtx) -> StdResult<Response> { Ok(Response::new()) }
        #[sv::msg(reply)]
        fn reply(&self, _ctx: sylvia::types::ReplyCtx, _msg: Reply) -> StdResult<Response> { Ok(Response::new()) }
    }
}

pub mod s_inst_exec_quer_repl_nomr_r {
    use super::*;
    pub mod eps {
        use super::super::*;
        #[sylvia::cw_schema::cw_serde]
        pub struct CustomInstantiate {}
        #[sylvia::cw_schema::cw_serde]
        pub struct CustomExec {}
        #[sylvia::cw_schema::cw_serde]
        pub struct CustomQuery {}
        pub fn instantiate(_deps: DepsMut, _env: Env, _info: MessageInfo, _msg: CustomInstantiate) -> StdResult<Response> { Ok(Response::new()) }
        pub fn execute(_deps: DepsMut, _env: Env, _info: MessageInfo, _msg: CustomExec) -> StdResult<Response> { Ok(Response::new()) }
        pub fn query(_deps: Deps, _env: Env, _msg: CustomQuery) -> StdResult<Binary> { Ok(Binary::default()) }
        pub fn reply(_deps: DepsMut, _env: Env, _msg: Reply) -> StdResult<Response> { Ok(Response::new()) }
    }

    pub struct Contract;

    #[entry_points]
    #[contract]
    #[sv::features(replies)]
    #[sv::override_entry_point(instantiate=eps::instantiate(eps::CustomInstantiate))]
    #[sv::override_entry_point(exec=eps::execute(eps::CustomExec))]
    #[sv::override_entry_point(query=eps::query(eps::CustomQuery))]
    #[sv::override_entry_point(reply=eps::reply(sylvia::cw_std::Reply))]
    impl Contract {
        pub fn new() -> Self { Self }
        #[sv::msg(instantiate)]
        fn instantiate(&self, _ctx: InstantiateCtx) -> StdResult<Response> { Ok(Response::new()) }
        #[sv::msg(exec)]
        fn do_exec(&self, _ctx: ExecCtx) -> StdResult<Response> { Ok(Response::new()) }
        #[sv::msg(query)]
        fn do_query(&self, _ctx: QueryCtx) -> StdResult<Resp> { Ok(Resp {}) }
        #[sv::msg(sudo)]
        fn do_sudo(&self, _ctx: SudoCtx) -> StdResult<Response> { Ok(Response::new()) }
    }
}

pub mod s_inst_exec_quer_repl_nomr_l {
    use super::*;
    pub mod eps {
        use super::super::*;
        #[sylvia::cw_schema::cw_serde]
        pub struct CustomInstantiate {}
        #[sylvia::cw_schema::cw_serde]
        pub struct CustomExec {}
        #[sylvia::cw_schema::cw_serde]
        pub struct CustomQuery {}
        pub fn instantiate(_deps: DepsMut, _env: Env, _info: MessageInfo, _msg: CustomInstantiate) -> StdResult<Response> { Ok(Response::new()) }
        pub fn execute(_deps: DepsMut, _env: Env, _info: MessageInfo, _msg: CustomExec) -> StdResult<Response> { Ok(Response::new()) }
        pub fn query(_deps: Deps, _env: Env, _msg: CustomQuery) -> StdResult<Binary> { Ok(Binary::default()) }
        pub fn reply(_deps: DepsMut, _env: Env, _msg: Reply) -> StdResult<Response> { Ok(Response::new()) }
    }

    pub struct Contract;

    #[entry_points]
    #[contract]
    #[sv::override_entry_point(instantiate=eps::instantiate(eps::CustomInstantiate))]
    #[sv::override_entry_point(exec=eps::execute(eps::CustomExec))]
    #[sv::override_entry_point(query=eps::query(eps::CustomQuery))]
    #[sv::override_entry_point(reply=eps::reply(sylvia::cw_std::Reply))]
    impl Contract {
        pub fn new() -> Self { Self }
        #[sv::msg(instantiate)]
        fn instantiate(&self, _ctx: InstantiateCtx) -> StdResult<Response> { Ok(Response::new()) }
        #[sv::msg(exec)]
        fn do_exec(&self, _ctx: ExecCtx) -> StdResult<Response> { Ok(Response::new()) }
        #[sv::msg(query)]
        fn do_query(&self, _ctx: QueryCtx) -> StdResult<Resp> { Ok(Resp {}) }
        #[sv::msg(sudo)]
        fn do_sudo(&self, _ctx: SudoCtx) -> StdResult<Response> { Ok(Response::new()) }
    }
}

pub mod s_inst_exec_sudo_migr_mr_r {
    use super::*;
    pub mod eps {
        use super::super::*;
        #[sylvia::cw_schema::cw_serde]
        pub struct CustomInstantiate {}
        #[sylvia::cw_schema::cw_serde]
        pub struct CustomExec {}
        #[sylvia::cw_schema::cw_serde]
        pub struct CustomSudo {}
        #[sylvia::cw_schema::cw_serde]
        pub struct CustomMigrate {}
        pub fn instantiate(_deps: DepsMut, _env: Env, _info: MessageInfo, _msg: CustomInstantiate) -> StdResult<Response> { Ok(Response::new()) }
        pub fn execute(_deps: DepsMut, _env: Env, _info: MessageInfo, _msg: CustomExec) -> StdResult<Response> { Ok(Response::new()) }
        pub fn sudo(_deps: DepsMut, _env: Env, _msg: CustomSudo) -> StdResult<Response> { Ok(Response::new()) }
        pub fn migrate(_deps: DepsMut, _env: Env, _msg: CustomMigrate) -> StdResult<Response> { Ok(Response::new()) }
    }

    pub struct Contract;

    #[entry_points]
    #[contract]
    #[sv::features(replies)]
    #[sv::override_entry_point(instantiate=eps::instantiate(eps::CustomInstantiate))]
    #[sv::override_entry_point(exec=eps::execute(eps::CustomExec))]
    #[sv::override_entry_point(sudo=eps::sudo(eps::CustomSudo))]
    #[sv::override_entry_point(migrate=eps::migrate(eps::CustomMigrate))]
    impl Contract {
        pub fn new() -> Self { Self }
        #[sv::msg(instantiate)]
        fn instantiate(&self, _ctx: InstantiateCtx) -> StdResult<Response> { Ok(Response::new()) }
        #[sv::msg(exec)]
        fn do_exec(&self, _ctx: ExecCtx) -> StdResult<Response> { Ok(Response::new()) }
        #[sv::msg(query)]
        fn do_query(&self, _ctx: QueryCtx) -> StdResult<Resp> { Ok(Resp {}) }
        #[sv::msg(sudo)]
        fn do_sudo(&self, _ctx: SudoCtx) -> StdResult<Response> { Ok(Response::new()) }
        #[sv::msg(migrate)]
        fn migrate(&self, _ctx: MigrateCtx) -> StdResult<Response> { Ok(Response::new()) }
        #[sv::msg(reply, handlers=[on_done], reply_on=success)]
        fn on_done(&self, _ctx: ReplyCtx, #[sv::payload(raw)] _payload: Binary) -> StdResult<Response> { Ok(Response::new()) }
    }
}

pub mod s_inst_exec_sudo_migr_mr_l {
    use super::*;
    pub mod eps {
        use super::super::*;
        #[sylvia::cw_schema::cw_serde]
        pub struct CustomInstantiate {}
        #[sylvia::cw_schema::cw_serde]
        pub struct CustomExec {}
        #[sylvia::cw_schema::cw_serde]
        pub struct CustomSudo {}
        #[sylvia::cw_schema::cw_serde]
        pub struct CustomMigrate {}
        pub fn instantiate(_deps: DepsMut, _env: Env, _info: MessageInfo, _msg: CustomInstantiate) -> StdResult<Response> { Ok(Response::new()) }
        pub fn execute(_deps: DepsMut, _env: Env, _info: MessageInfo, _msg: CustomExec) -> StdResult<Response> { Ok(Response::new()) }
        pub fn sudo(_deps: DepsMut, _env: Env, _msg: CustomSudo) -> StdResult<Response> { Ok(Response::new()) }
        pub fn migrate(_deps: DepsMut, _env: Env, _msg: CustomMigrate) -> StdResult<Response> { Ok(Response::new()) }
    }

    pub struct Contract;

    #[entry_points]
    #[contract]
    #[sv::override_entry_point(instantiate=eps::instantiate(eps::CustomInstantiate))]
    #[sv::override_entry_point(exec=eps::execute(eps::CustomExec))]
    #[sv::override_entry_point(sudo=eps::sudo(eps::CustomSudo))]
    #[sv::override_entry_point(migrate=eps::migrate(eps::CustomMigrate))]
    impl Contract {
        pub fn new() -> Self { Self }
        #[sv::msg(instantiate)]
        fn instantiate(&self, _ctx: InstantiateCtx) -> StdResult<Response> { Ok(Response::new()) }
        #[sv::msg(exec)]
        fn do_exec(&self, _ctx: ExecCtx) -> StdResult<Response> { Ok(Response::new()) }
        #[sv::msg(query)]
        fn do_query(&self, _ctx: QueryCtx) -> StdResult<Resp> { Ok(Resp {}) }
        #[sv::msg(sudo)]
        fn do_sudo(&self, _ctx: SudoCtx) -> StdResult<Response> { Ok(Response::new()) }
        #[sv::msg(migrate)]
        fn migrate(&self, _ctx: MigrateCtx) -> StdResult<Response> { Ok(Response::new()) }
        #[sv::msg(reply)]
        fn reply(&self, _ctx: sylvia::types::ReplyCtx, _msg: Reply) -> StdResult<Response> { Ok(Response::new()) }
    }
}

pub mod s_inst_exec_sudo_migr_nomr_r {
    use super::*;
    pub mod eps {
        use super::super::*;
        #[sylvia::cw_schema::cw_serde]
        pub struct CustomInstantiate {}
        #[sylvia::cw_schema::cw_serde]
        pub struct CustomExec {}
        #[sylvia::cw_schema::cw_serde]
        pub struct CustomSudo {}
        #[sylvia::cw_schema::cw_serde]
        pub struct CustomMigrate {}
        pub fn instantiate(_deps: DepsMut, _env: Env, _info: MessageInfo, _msg: CustomInstantiate) -> StdResult<Response> { Ok(Response::new()) }
        pub fn execute(_deps: DepsMut, _env: Env, _info: MessageInfo, _msg: CustomExec) -> StdResult<Response> { Ok(Response::new()) }
        pub fn sudo(_deps: DepsMut, _env: Env, _msg: CustomSudo) -> StdResult<Response> { Ok(Response::new()) }
        pub fn migrate(_deps: DepsMut, _env: Env, _msg: CustomMigrate) -> StdResult<Response> { Ok(Response::new()) }
    }

    pub struct Contract;

    #[entry_points]
    #[contract]
    #[sv::features(replies)]
    #[sv::override_entry_point(instantiate=eps::instantiate(eps::CustomInstantiate))]
    #[sv::override_entry_point(exec=eps::execute(eps::CustomExec))]
    #[sv::override_entry_point(sudo=eps::sudo(eps::CustomSudo))]
    #[sv::override_entry_point(migrate=eps::migrate(eps::CustomMigrate))]
    impl Contract {
        pub fn new() -> Self { Self }
        #[sv::msg(instantiate)]
        fn instantiate(&self, _ctx: InstantiateCtx) -> StdResult<Response> { Ok(Response::new()) }
        #[sv::msg(exec)]
        fn do_exec(&self, _ctx: ExecCtx) -> StdResult<Response> { Ok(Response::new()) }
        #[sv::msg(query)]
        fn do_query(&self, _ctx: QueryCtx) -> StdResult<Resp> { Ok(Resp {}) }
        #[sv::msg(sudo)]
        fn do_sudo(&self, _ctx: SudoCtx) -> StdResult<Response> { Ok(Response::new()) }
    }
}

pub mod s_inst_exec_sudo_migr_nomr_l {
    use super::*;
    pub mod eps {
        use super::super::*;
        #[sylvia::cw_schema::cw_serde]
        pub struct CustomInstantiate {}
        #[sylvia::cw_schema::cw_serde]
        pub struct CustomExec {}
        #[sylvia::cw_schema::cw_serde]
        pub struct CustomSudo {}
        #[sylvia::cw_schema::cw_serde]
        pub struct CustomMigrate {}
        pub fn instantiate(_deps: DepsMut, _env: Env, _info: MessageInfo, _msg: CustomInstantiate) -> StdResult<Response> { Ok(Response::new()) }
        pub fn execute(_deps: DepsMut, _env: Env, _info: MessageInfo, _msg: CustomExec) -> StdResult<Response> { Ok(Response::new()) }
        pub fn sudo(_deps: DepsMut, _env: Env, _msg: CustomSudo) -> StdResult<Response> { Ok(Response::new()) }
        pub fn migrate(_deps: DepsMut, _env: Env, _msg: CustomMigrate) -> StdResult<Response> { Ok(Response::new()) }
    }

    pub struct Contract;

    #[entry_points]
    #[contract]
    #[sv::override_entry_point(instantiate=eps::instantiate(eps::CustomInstantiate))]
    #[sv::override_entry_point(exec=eps::execute(eps::CustomExec))]
    #[sv::override_entry_point(sudo=eps::sudo(eps::CustomSudo))]
    #[sv::override_entry_point(migrate=eps::migrate(eps::CustomMigrate))]
    impl Contract {
        pub fn new() -> Self { Self }
        #[sv::msg(instantiate)]
        fn instantiate(&self, _ctx: InstantiateCtx) -> StdResult<Response> { Ok(Response::new()) }
        #[sv::msg(exec)]
        fn do_exec(&self, _ctx: ExecCtx) -> StdResult<Response> { Ok(Response::new()) }
        #[sv::msg(query)]
        fn do_query(&self, _ctx: QueryCtx) -> StdResult<Resp> { Ok(Resp {}) }
        #[sv::msg(sudo)]
        fn do_sudo(&self, _ctx: SudoCtx) -> StdResult<Response> { Ok(Response::new()) }
    }
}

pub mod s_inst_exec_sudo_repl_mr_r {
    use super::*;
    pub mod eps {
        use super::super::*;
        #[sylvia::cw_schema::cw_serde]
        pub struct CustomInstantiate {}
        #[sylvia::cw_schema::cw_serde]
        pub struct CustomExec {}
        #[sylvia::cw_schema::cw_serde]
        pub struct CustomSudo {}
        pub fn instantiate(_deps: DepsMut, _env: Env, _info: MessageInfo, _msg: CustomInstantiate) -> StdResult<Response> { Ok(Response::new()) }
        pub fn execute(_deps: DepsMut, _env: Env, _info: MessageInfo, _msg: CustomExec) -> StdResult<Response> { Ok(Response::new()) }
        pub fn sudo(_deps: DepsMut, _env: Env, _msg: CustomSudo) -> StdResult<Response> { Ok(Response::new()) }
        pub fn reply(_deps: DepsMut, _env: Env, _msg: Reply) -> StdResult<Response> { Ok(Response::new()) }
    }

    pub struct Contract;

    #[entry_points]
    #[contract]
    #[sv::features(replies)]
    #[sv::override_entry_point(instantiate=eps::instantiate(eps::CustomInstantiate))]
    #[sv::override_entry_point(exec=eps::execute(eps::CustomExec))]
    #[sv::override_entry_point(sudo=eps::sudo(eps::CustomSudo))]
    #[sv::override_entry_point(reply=eps::reply(sylvia::cw_std::Reply))]
    impl Contract {
        pub fn new() -> Self { Self }
        #[sv::msg(instantiate)]
        fn instantiate(&self, _ctx: InstantiateCtx) -> StdResult<Response> { Ok(Response::new()) }
        #[sv::msg(exec)]
        fn do_exec(&self, _ctx: ExecCtx) -> StdResult<Response> { Ok(Response::new()) }
        #[sv::msg(query)]
        fn do_query(&self, _ctx: QueryCtx) -> StdResult<Resp> { Ok(Resp {}) }
        #[sv::msg(sudo)]
        fn do_sudo(&self, _ctx: SudoCtx) -> StdResult<Response> { Ok(Response::new()) }
        #[sv::msg(migrate)]
        fn migrate(&self, _ctx: MigrateCtx) -> StdResult<Response> { Ok(Response::new()) }
        #[sv::msg(reply, handlers=[on_done], reply_on=success)]
        fn on_done(&self, _ctx: ReplyCtx, #[sv::payload(raw)] _payload: Binary) -> StdResult<Response> { Ok(Response::new()) }
    }
}

pub mod s_inst_exec_sudo_repl_mr_l {
    use super::*;
    pub mod eps {
        use super::super::*;
        #[sylvia::cw_schema::cw_serde]
        pub struct CustomInstantiate {}
        #[sylvia::cw_schema::cw_serde]
        pub struct CustomExec {}
        #[sylvia::cw_schema::cw_serde]
        pub struct CustomSudo {}
        pub fn instantiate(_deps: DepsMut, _env: Env, _info: MessageInfo, _msg: CustomInstantiate) -> StdResult<Response> { Ok(Response::new()) }
        pub fn execute(_deps: DepsMut, _env: Env, _info: MessageInfo, _msg: CustomExec) -> StdResult<Response> { Ok(Response::new()) }
        pub fn sudo(_deps: DepsMut, _env: Env, _msg: CustomSudo) -> StdResult<Response> { Ok(Response::new()) }
        pub fn reply(_deps: DepsMut, _env: Env, _msg: Reply) -> StdResult<Response> { Ok(Response::new()) }
    }

    pub struct Contract;

    #[entry_points]
    #[contract]
    #[sv::override_entry_point(instantiate=eps::instantiate(eps::CustomInstantiate))]
    #[sv::override_entry_point(exec=eps::execute(eps::CustomExec))]
    #[sv::override_entry_point(sudo=eps::sudo(eps::CustomSudo))]
    #[sv::override_entry_point(reply=eps::reply(sylvia::cw_std::Reply))]
    impl Contract {
        pub fn new() -> Self { Self }
        #[sv::msg(instantiate)]
        fn instantiate(&self, _ctx: InstantiateCtx) -> StdResult<Response> { Ok(Response::new()) }
        #[sv::msg(exec)]
        fn do_exec(&self, _ctx: ExecCtx) -> StdResult<Response> { Ok(Response::new()) }
        #[sv::msg(query)]
        fn do_query(&self, _ctx: QueryCtx) -> StdResult<Resp> { Ok(Resp {}) }
        #[sv::msg(sudo)]
        fn do_sudo(&self, _ctx: SudoCtx) -> StdResult<Response> { Ok(Response::new()) }
        #[sv::msg(migrate)]
        fn migrate(&self, _ctx: MigrateCtx) -> StdResult<Response> { Ok(Response::new()) }
        #[sv::msg(reply)]
        fn reply(&self, _ctx: sylvia::types::ReplyCtx, _msg: Reply) -> StdResult<Response> { Ok(Response::new()) }
    }
}

pub mod s_inst_exec_sudo_repl_nomr_r {
    use super::*;
    pub mod eps {
        use super::super::*;
        #[sylvia::cw_schema::cw_serde]
        pub struct CustomInstantiate {}
        #[sylvia::cw_schema::cw_serde]
        pub struct CustomExec {}
        #[sylvia::cw_schema::cw_serde]
        pub struct CustomSudo {}
        pub fn instantiate(_deps: DepsMut, _env: Env, _info: MessageInfo, _msg: CustomInstantiate) -> StdResult<Response> { Ok(Response::new()) }
        pub fn execute(_deps: DepsMut, _env: Env, _info: MessageInfo, _msg: CustomExec) -> StdResult<Response> { Ok(Response::new()) }
        pub fn sudo(_deps: DepsMut, _env: Env, _msg: CustomSudo) -> StdResult<Response> { Ok(Response::new()) }
        pub fn reply(_deps: DepsMut, _env: Env, _msg: Reply) -> StdResult<Response> { Ok(Response::new()) }
    }

    pub struct Contract;

    #[entry_points]
    #[contract]
    #[sv::features(replies)]
    #[sv::override_entry_point(instantiate=eps::instantiate(eps::CustomInstantiate))]
    #[sv::override_entry_point(exec=eps::execute(eps::CustomExec))]
    #[sv::override_entry_point(sudo=eps::sudo(eps::CustomSudo))]
    #[sv::override_entry_point(reply=eps::reply(sylvia::cw_std::Reply))]
    impl Contract {
        pub fn new() -> Self { Self }
        #[sv::msg(instantiate)]
        fn instantiate(&self, _ctx: InstantiateCtx) -> StdResult<Response> { Ok(Response::new()) }
        #[sv::msg(exec)]
        fn do_exec(&self, _ctx: ExecCtx) -> StdResult<Response> { Ok(Response::new()) }
        #[sv::msg(query)]
        fn do_query(&self, _ctx: QueryCtx) -> StdResult<Resp> { Ok(Resp {}) }
        #[sv::msg(sudo)]
        fn do_sudo(&self, _ctx: SudoCtx) -> StdResult<Response> { Ok(Response::new()) }
    }
}

pub mod s_inst_exec_sudo_repl_nomr_l {
    use super::*;
    pub mod eps {
        use super::super::*;
        #[sylvia::cw_schema::cw_serde]
        pub struct CustomInstantiate {}
        #[sylvia::cw_schema::cw_serde]
        pub struct CustomExec {}
        #[sylvia::cw_schema::cw_serde]
        pub struct CustomSudo {}
        pub fn instantiate(_deps: DepsMut, _env: Env, _info: MessageInfo, _msg: CustomInstantiate) -> StdResult<Response> { Ok(Response::new()) }
        pub fn execute(_deps: DepsMut, _env: Env, _info: MessageInfo, _msg: CustomExec) -> StdResult<Response> { Ok(Response::new()) }
        pub fn sudo(_deps: DepsMut, _env: Env, _msg: CustomSudo) -> StdResult<Response> { Ok(Response::new()) }
        pub fn reply(_deps: DepsMut, _env: Env, _msg: Reply) -> StdResult<Response> { Ok(Response::new()) }
    }

    pub struct Contract;

    #[entry_points]
    #[contract]
    #[sv::override_entry_point(instantiate=eps::instantiate(eps::CustomInstantiate))]
    #[sv::override_entry_point(exec=eps::execute(eps::CustomExec))]
    #[sv::override_entry_point(sudo=eps::sudo(eps::CustomSudo))]
    #[sv::override_entry_point(reply=eps::reply(sylvia::cw_std::Reply))]
    impl Contract {
        pub fn new() -> Self { Self }
        #[sv::msg(instantiate)]
        fn instantiate(&self, _ctx: InstantiateCtx) -> StdResult<Response> { Ok(Response::new()) }
        #[sv::msg(exec)]
        fn do_exec(&self, _ctx: ExecCtx) -> StdResult<Response> { Ok(Response::new()) }
        #[sv::msg(query)]
        fn do_query(&self, _ctx: QueryCtx) -> StdResult<Resp> { Ok(Resp {}) }
        #[sv::msg(sudo)]
        fn do_sudo(&self, _ctx: SudoCtx) -> StdResult<Response> { Ok(Response::new()) }
    }
}

pub mod s_inst_exec_migr_repl_mr_r {
    use super::*;
    pub mod eps {
        use super::super::*;
        #[sylvia::cw_schema::cw_serde]
        pub struct CustomInstantiate {}
        #[sylvia::cw_schema::cw_serde]
        pub struct CustomExec {}
        #[sylvia::cw_schema::cw_serde]
        pub struct CustomMigrate {}
        pub fn instantiate(_deps: DepsMut, _env: Env, _info: MessageInfo, _msg: CustomInstantiate) -> StdResult<Response> { Ok(Response::new()) }
        pub fn execute(_deps: DepsMut, _env: Env, _info: MessageInfo, _msg: CustomExec) -> StdResult<Response> { Ok(Response::new()) }
        pub fn migrate(_deps: DepsMut, _env: Env, _msg: CustomMigrate) -> StdResult<Response> { Ok(Response::new()) }
        pub fn reply(_deps: DepsMut, _env: Env, _msg: Reply) -> StdResult<Response> { Ok(Response::new()) }
    }

    pub struct Contract;

    #[entry_points]
    #[contract]
    #[sv::features(replies)]
    #[sv::override_entry_point(instantiate=eps::instantiate(eps::CustomInstantiate))]
    #[sv::override_entry_point(exec=eps::execute(eps::CustomExec))]
    #[sv::override_entry_point(migrate=eps::migrate(eps::CustomMigrate))]
    #[sv::override_entry_point(reply=eps::reply(sylvia::cw_std::Reply))]
    impl Contract {
        pub fn new() -> Self { Self }
        #[sv::msg(instantiate)]
        fn instantiate(&self, _ctx: InstantiateCtx) -> StdResult<Response> { Ok(Response::new()) }
        #[sv::msg(exec)]
        fn do_exec(&self, _ctx: ExecCtx) -> StdResult<Response> { Ok(Response::new()) }
        #[sv::msg(query)]
        fn do_query(&self, _ctx: QueryCtx) -> StdResult<Resp> { Ok(Resp {}) }
        #[sv::msg(sudo)]
        fn do_sudo(&self, _ctx: SudoCtx) -> StdResult<Response> { Ok(Response::new()) }
        #[sv::msg(migrate)]
        fn migrate(&self, _ctx: MigrateCtx) -> StdResult<Response> { Ok(Response::new()) }
        #[sv::msg(reply, handlers=[on_done], reply_on=success)]
        fn on_done(&self, _ctx: ReplyCtx, #[sv::payload(raw)] _payload: Binary) -> StdResult<Response> { Ok(Response::new()) }
    }
}

pub mod s_inst_exec_migr_repl_mr_l {
    use super::*;
    pub mod eps {
        use super::super::*;
        #[sylvia::cw_schema::cw_serde]
        pub struct CustomInstantiate {}
        #[sylvia::cw_schema::cw_serde]
        pub struct CustomExec {}
        #[sylvia::cw_schema::cw_serde]
        pub struct CustomMigrate {}
        pub fn instantiate(_deps: DepsMut, _env: Env, _info: MessageInfo, _msg: CustomInstantiate) -> StdResult<Response> { Ok(Response::new()) }
        pub fn execute(_deps: DepsMut, _env: Env, _info: MessageInfo, _msg: CustomExec) -> StdResult<Response> { Ok(Response::new()) }
        pub fn migrate(_deps: DepsMut, _env: Env, _msg: CustomMigrate) -> StdResult<Response> { Ok(Response::new()) }
        pub fn reply(_deps: DepsMut, _env: Env, _msg: Reply) -> StdResult<Response> { Ok(Response::new()) }
    }

    pub struct Contract;

    #[entry_points]
    #[contract]
    #[sv::override_entry_point(instantiate=eps::instantiate(eps::CustomInstantiate))]
    #[sv::override_entry_point(exec=eps::execute(eps::CustomExec))]
    #[sv::override_entry_point(migrate=eps::migrate(eps::CustomMigrate))]
    #[sv::override_entry_point(reply=eps::reply(sylvia::cw_std::Reply))]
    impl Contract {
        pub fn new() -> Self { Self }
        #[sv::msg(instantiate)]
        fn instantiate(&self, _ctx: InstantiateCtx) -> StdResult<Response> { Ok(Response::new()) }
        #[sv::msg(exec)]
        fn do_exec(&self, _ctx: ExecCtx) -> StdResult<Response> { Ok(Response::new()) }
        #[sv::msg(query)]
        fn do_query(&self, _ctx: QueryCtx) -> StdResult<Resp> { Ok(Resp {}) }
        #[sv::msg(sudo)]
        fn do_sudo(&self, _ctx: SudoCtx) -> StdResult<Response> { Ok(Response::new()) }
        #[sv::msg(migrate)]
        fn migrate(&self, _ctx: MigrateCtx) -> StdResult<Response> { Ok(Response::new()) }
        #[sv::msg(reply)]
        fn reply(&self, _ctx: sylvia::types::ReplyCtx, _msg: Reply) -> StdResult<Response> { Ok(Response::new()) }
    }
}

pub mod s_inst_exec_migr_repl_nomr_r {
    use super::*;
    pub mod eps {
        use super::super::*;
        #[sylvia::cw_schema::cw_serde]
        pub struct CustomInstantiate {}
        #[sylvia::cw_schema::cw_serde]
        pub struct CustomExec {}
        #[sylvia::cw_schema::cw_serde]
        pub struct CustomMigrate {}
        pub fn instantiate(_deps: DepsMut, _env: Env, _info: MessageInfo, _msg: CustomInstantiate) -> StdResult<Response> { Ok(Response::new()) }
        pub fn execute(_deps: DepsMut, _env: Env, _info: MessageInfo, _msg: CustomExec) -> StdResult<Response> { Ok(Response::new()) }
        pub fn migrate(_deps: DepsMut, _env: Env, _msg: CustomMigrate) -> StdResult<Response> { Ok(Response::new()) }
        pub fn reply(_deps: DepsMut, _env: Env, _msg: Reply) -> StdResult<Response> { Ok(Response::new()) }
    }

    pub struct Contract;

    #[entry_points]
    #[contract]
    #[sv::features(replies)]
    #[sv::override_entry_point(instantiate=eps::instantiate(eps::CustomInstantiate))]
    #[sv::override_entry_point(exec=eps::execute(eps::CustomExec))]
    #[sv::override_entry_point(migrate=eps::migrate(eps::CustomMigrate))]
    #[sv::override_entry_point(reply=eps::reply(sylvia::cw_std::Reply))]
    impl Contract {
        pub fn new() -> Self { Self }
        #[sv::msg(instantiate)]
        fn instantiate(&self, _ctx: InstantiateCtx) -> StdResult<Response> { Ok(Response::new()) }
        #[sv::msg(exec)]
        fn do_exec(&self, _ctx: ExecCtx) -> StdResult<Response> { Ok(Response::new()) }
        #[sv::msg(query)]
        fn do_query(&self, _ctx: QueryCtx) -> StdResult<Resp> { Ok(Resp {}) }
        #[sv::msg(sudo)]
        fn do_sudo(&self, _ctx: SudoCtx) -> StdResult<Response> { Ok(Response::new()) }
    }
}

pub mod s_inst_exec_migr_repl_nomr_l {
    use super::*;
    pub mod eps {
        use super::super::*;
        #[sylvia::cw_schema::cw_serde]
        pub struct CustomInstantiate {}
        #[sylvia::cw_schema::cw_serde]
        pub struct CustomExec {}
        #[sylvia::cw_schema::cw_serde]
        pub struct CustomMigrate {}
        pub fn instantiate(_deps: DepsMut, _env: Env, _info: MessageInfo, _msg: CustomInstantiate) -> StdResult<Response> { Ok(Response::new()) }
        pub fn execute(_deps: DepsMut, _env: Env, _info: MessageInfo, _msg: CustomExec) -> StdResult<Response> { Ok(Response::new()) }
        pub fn migrate(_deps: DepsMut, _env: Env, _msg: CustomMigrate) -> StdResult<Response> { Ok(Response::new()) }
        pub fn reply(_deps: DepsMut, _env: Env, _msg: Reply) -> StdResult<Response> { Ok(Response::new()) }
    }

    pub struct Contract;

    #[entry_points]
    #[contract]
    #[sv::override_entry_point(instantiate=eps::instantiate(eps::CustomInstantiate))]
    #[sv::override_entry_point(exec=eps::execute(eps::CustomExec))]
    #[sv::override_entry_point(migrate=eps::migrate(eps::CustomMigrate))]
    #[sv::override_entry_point(reply=eps::reply(sylvia::cw_std::Reply))]
    impl Contract {
        pub fn new() -> Self { Self }
        #[sv::msg(instantiate)]
        fn instantiate(&self, _ctx: InstantiateCtx) -> StdResult<Response> { Ok(Response::new()) }
        #[sv::msg(exec)]
        fn do_exec(&self, _ctx: ExecCtx) -> StdResult<Response> { Ok(Response::new()) }
        #[sv::msg(query)]
        fn do_query(&self, _ctx: QueryCtx) -> StdResult<Resp> { Ok(Resp {}) }
        #[sv::msg(sudo)]
        fn do_sudo(&self, _ctx: SudoCtx) -> StdResult<Response> { Ok(Response::new()) }
    }
}

pub mod s_inst_quer_sudo_migr_mr_r {
    use super::*;
    pub mod eps {
        use super::super::*;
        #[sylvia::cw_schema::cw_serde]
        pub struct CustomInstantiate {}
        #[sylvia::cw_schema::cw_serde]
        pub struct CustomQuery {}
        #[sylvia::cw_schema::cw_serde]
        pub struct CustomSudo {}
        #[sylvia::cw_schema::cw_serde]
        pub struct CustomMigrate {}
        pub fn instantiate(_deps: DepsMut, _env: Env, _info: MessageInfo, _msg: CustomInstantiate) -> StdResult<Response> { Ok(Response::new()) }
        pub fn query(_deps: Deps, _env: Env, _msg: CustomQuery) -> StdResult<Binary> { Ok(Binary::default()) }
        pub fn sudo(_deps: DepsMut, _env: Env, _msg: CustomSudo) -> StdResult<Response> { Ok(Response::new()) }
        pub fn migrate(_deps: DepsMut, _env: Env, _msg: CustomMigrate) -> StdResult<Response> { Ok(Response::new()) }
    }

    pub struct Contract;

    #[entry_points]
    #[contract]
    #[sv::features(replies)]
    #[sv::override_entry_point(instantiate=eps::instantiate(eps::CustomInstantiate))]
    #[sv::override_entry_point(query=eps::query(eps::CustomQuery))]
    #[sv::override_entry_point(sudo=eps::sudo(eps::CustomSudo))]
    #[sv::override_entry_point(migrate=eps::migrate(eps::CustomMigrate))]
    impl Contract {
        pub fn new() -> Self { Self }
        #[sv::msg(instantiate)]
        fn instantiate(&self, _ctx: InstantiateCtx) -> StdResult<Response> { Ok(Response::new()) }
        #[sv::msg(exec)]
        fn do_exec(&self, _ctx: ExecCtx) -> StdResult<Response> { Ok(Response::new()) }
        #[sv::msg(query)]
        fn do_query(&self, _ctx: QueryCtx) -> StdResult<Resp> { Ok(Resp {}) }
        #[sv::msg(sudo)]
        fn do_sudo(&self, _ctx: SudoCtx) -> StdResult<Response> { Ok(Response::new()) }
        #[sv::msg(migrate)]
        fn migrate(&self, _ctx: MigrateCtx) -> StdResult<Response> { Ok(Response::new()) }
        #[sv::msg(reply, handlers=[on_done], reply_on=success)]
        fn on_done(&self, _ctx: ReplyCtx, #[sv::payload(raw)] _payload: Binary) -> StdResult<Response> { Ok(Response::new()) }
    }
}

pub mod s_inst_quer_sudo_migr_mr_l {
    use super::*;
    pub mod eps {
        use super::super::*;
        #[sylvia::cw_schema::cw_serde]
        pub struct CustomInstantiate {}
        #[sylvia::cw_schema::cw_serde]
        pub struct CustomQuery {}
        #[sylvia::cw_schema::cw_serde]
        pub struct CustomSudo {}
        #[sylvia::cw_schema::cw_serde]
        pub struct CustomMigrate {}
        pub fn instantiate(_deps: DepsMut, _env: Env, _info: MessageInfo, _msg: CustomInstantiate) -> StdResult<Response> { Ok(Response::new()) }
        pub fn query(_deps: Deps, _env: Env, _msg: CustomQuery) -> StdResult<Binary> { Ok(Binary::default()) }
        pub fn sudo(_deps: DepsMut, _env: Env, _msg: CustomSudo) -> StdResult<Response> { Ok(Response::new()) }
        pub fn migrate(_deps: DepsMut, _env: Env, _msg: CustomMigrate) -> StdResult<Response> { Ok(Response::new()) }
    }

    pub struct Contract;

    #[entry_points]
    #[contract]
    #[sv::override_entry_point(instantiate=eps::instantiate(eps::CustomInstantiate))]
    #[sv::override_entry_point(query=eps::query(eps::CustomQuery))]
    #[sv::override_entry_point(sudo=eps::sudo(eps::CustomSudo))]
    #[sv::override_entry_point(migrate=eps::migrate(eps::CustomMigrate))]
    impl Contract {
        pub fn new() -> Self { Self }
        #[sv::msg(instantiate)]
        fn instantiate(&self, _ctx: InstantiateCtx) -> StdResult<Response> { Ok(Response::new()) }
        #[sv::msg(exec)]
        fn do_exec(&self, _ctx: ExecCtx) -> StdResult<Response> { Ok(Response::new()) }
        #[sv::msg(query)]
        fn do_query(&self, _ctx: QueryCtx) -> StdResult<Resp> { Ok(Resp {}) }
        #[sv::msg(sudo)]
        fn do_sudo(&self, _ctx: SudoCtx) -> StdResult<Response> { Ok(Response::new()) }
        #[sv::msg(migrate)]
        fn migrate(&self, _ctx: MigrateCtx) -> StdResult<Response> { Ok(Response::new()) }
        #[sv::msg(reply)]
        fn reply(&self, _ctx: sylvia::types::ReplyCtx, _msg: Reply) -> StdResult<Response> { Ok(Response::new()) }
    }
}

pub mod s_inst_quer_sudo_migr_nomr_r {
    use super::*;
    pub mod eps {
        use super::super::*;
        #[sylvia::cw_schema::cw_serde]
        pub struct CustomInstantiate {}
        #[sylvia::cw_schema::cw_serde]
        pub struct CustomQuery {}
        #[sylvia::cw_schema::cw_serde]
        pub struct CustomSudo {}
        #[sylvia::cw_schema::cw_serde]
        pub struct CustomMigrate {}
        pub fn instantiate(_deps: DepsMut, _env: Env, _info: MessageInfo, _msg: CustomInstantiate) -> StdResult<Response> { Ok(Response::new()) }
        pub fn query(_deps: Deps, _env: Env, _msg: CustomQuery) -> StdResult<Binary> { Ok(Binary::default()) }
        pub fn sudo(_deps: DepsMut, _env: Env, _msg: CustomSudo) -> StdResult<Response> { Ok(Response::new()) }
        pub fn migrate(_deps: DepsMut, _env: Env, _msg: CustomMigrate) -> StdResult<Response> { Ok(Response::new()) }
    }

    pub struct Contract;

    #[entry_points]
    #[contract]
    #[sv::features(replies)]
    #[sv::override_entry_point(instantiate=eps::instantiate(eps::CustomInstantiate))]
    #[sv::override_entry_point(query=eps::query(eps::CustomQuery))]
    #[sv::override_entry_point(sudo=eps::sudo(eps::CustomSudo))]
    #[sv::override_entry_point(migrate=eps::migrate(eps::CustomMigrate))]
    impl Contract {
        pub fn new() -> Self { Self }
        #[sv::msg(instantiate)]
        fn instantiate(&self, _ctx: InstantiateCtx) -> StdResult<Response> { Ok(Response::new()) }
        #[sv::msg(exec)]
        fn do_exec(&self, _ctx: ExecCtx) -> StdResult<Response> { Ok(Response::new()) }
        #[sv::msg(query)]
        fn do_query(&self, _ctx: QueryCtx) -> StdResult<Resp> { Ok(Resp {}) }
        #[sv::msg(sudo)]
        fn do_sudo(&self, _ctx: SudoCtx) -> StdResult<Response> { Ok(Response::new()) }
    }
}

pub mod s_inst_quer_sudo_migr_nomr_l {
    use super::*;
    pub mod eps {
        use super::super::*;
        #[sylvia::cw_schema::cw_serde]
        pub struct CustomInstantiate {}
        #[sylvia::cw_schema::cw_serde]
        pub struct CustomQuery {}
        #[sylvia::cw_schema::cw_serde]
        pub struct CustomSudo {}
        #[sylvia::cw_schema::cw_serde]
        pub struct CustomMigrate {}
        pub fn instantiate(_deps: DepsMut, _env: Env, _info: MessageInfo, _msg: CustomInstantiate) -> StdResult<Response> { Ok(Response::new()) }
        pub fn query(_deps: Deps, _env: Env, _msg: CustomQuery) -> StdResult<Binary> { Ok(Binary::default()) }
        pub fn sudo(_deps: DepsMut, _env: Env, _msg: CustomSudo) -> StdResult<Response> { Ok(Response::new()) }
        pub fn migrate(_deps: DepsMut, _env: Env, _msg: CustomMigrate) -> StdResult<Response> { Ok(Response::new()) }
    }

    pub struct Contract;

    #[entry_points]
    #[contract]
    #[sv::override_entry_point(instantiate=eps::instantiate(eps::CustomInstantiate))]
    #[sv::override_entry_point(query=eps::query(eps::CustomQuery))]
    #[sv::override_entry_point(sudo=eps::sudo(eps::CustomSudo))]
    #[sv::override_entry_point(migrate=eps::migrate(eps::CustomMigrate))]
    impl Contract {
        pub fn new() -> Self { Self }
        #[sv::msg(instantiate)]
        fn instantiate(&self, _ctx: InstantiateCtx) -> StdResult<Response> { Ok(Response::new()) }
        #[sv::msg(exec)]
        fn do_exec(&self, _ctx: ExecCtx) -> StdResult<Response> { Ok(Response::new()) }
        #[sv::msg(query)]
        fn do_query(&self, _ctx: QueryCtx) -> StdResult<Resp> { Ok(Resp {}) }
        #[sv::msg(sudo)]
        fn do_sudo(&self, _ctx: SudoCtx) -> StdResult<Response> { Ok(Response::new()) }
    }
}

pub mod s_inst_quer_sudo_repl_mr_r {
    use super::*;
    pub mod eps {
        use super::super::*;
        #[sylvia::cw_schema::cw_serde]
        pub struct CustomInstantiate {}
        #[sylvia::cw_schema::cw_serde]
        pub struct CustomQuery {}
        #[sylvia::cw_schema::cw_serde]
        pub struct CustomSudo {}
        pub fn instantiate(_deps: DepsMut, _env: Env, _info: MessageInfo, _msg: CustomInstantiate) -> StdResult<Response> { Ok(Response::new()) }
        pub fn query(_deps: Deps, _env: Env, _msg: CustomQuery) -> StdResult<Binary> { Ok(Binary::default()) }
        pub fn sudo(_deps: DepsMut, _env: Env, _msg: CustomSudo) -> StdResult<Response> { Ok(Response::new()) }
        pub fn reply(_deps: DepsMut, _env: Env, _msg: Reply) -> StdResult<Response> { Ok(Response::new()) }
    }

    pub struct Contract;

    #[entry_points]
    #[contract]
    #[sv::features(replies)]
    #[sv::override_entry_point(instantiate=eps::instantiate(eps::CustomInstantiate))]
    #[sv::override_entry_point(query=eps::query(eps::CustomQuery))]
    #[sv::override_entry_point(sudo=eps::sudo(eps::CustomSudo))]
    #[sv::override_entry_point(reply=eps::reply(sylvia::cw_std::Reply))]
    impl Contract {
        pub fn new() -> Self { Self }
        #[sv::msg(instantiate)]
        fn instantiate(&self, _ctx: InstantiateCtx) -> StdResult<Response> { Ok(Response::new()) }
        #[sv::msg(exec)]
        fn do_exec(&self, _ctx: ExecCtx) -> StdResult<Response> { Ok(Response::new()) }
        #[sv::msg(query)]
        fn do_query(&self, _ctx: QueryCtx) -> StdResult<Resp> { Ok(Resp {}) }
        #[sv::msg(sudo)]
        fn do_sudo(&self, _ctx: SudoCtx) -> StdResult<Response> { Ok(Response::new()) }
        #[sv::msg(migrate)]
        fn migrate(&self, _ctx: MigrateCtx) -> StdResult<Response> { Ok(Response::new()) }
        #[sv::msg(reply, handlers=[on_done], reply_on=success)]
        fn on_done(&self, _ctx: ReplyCtx, #[sv::payload(raw)] _payload: Binary) -> StdResult<Response> { Ok(Response::new()) }
    }
}

pub mod s_inst_quer_sudo_repl_mr_l {
    use super::*;
    pub mod eps {
        use super::super::*;
        #[sylvia::cw_schema::cw_serde]
        pub struct CustomInstantiate {}
        #[sylvia::cw_schema::cw_serde]
        pub struct CustomQuery {}
        #[sylvia::cw_schema::cw_serde]
        pub struct CustomSudo {}
        pub fn instantiate(_deps: DepsMut, _env: Env, _info: MessageInfo, _msg: CustomInstantiate) -> StdResult<Response> { Ok(Response::new()) }
        pub fn query(_deps: Deps, _env: Env, _msg: CustomQuery) -> StdResult<Binary> { Ok(Binary::default()) }
        pub fn sudo(_deps: DepsMut, _env: Env, _msg: CustomSudo) -> StdResult<Response> { Ok(Response::new()) }
        pub fn reply(_deps: DepsMut, _env: Env, _msg: Reply) -> StdResult<Response> { Ok(Response::new()) }
    }

    pub struct Contract;

    #[entry_points]
    #[contract]
    #[sv::override_entry_point(instantiate=eps::instantiate(eps::CustomInstantiate))]
    #[sv::override_entry_point(query=eps::query(eps::CustomQuery))]
    #[sv::override_entry_point(sudo=eps::sudo(eps::CustomSudo))]
    #[sv::override_entry_point(reply=eps::reply(sylvia::cw_std::Reply))]
    impl Contract {
        pub fn new() -> Self { Self }
        #[sv::msg(instantiate)]
        fn instantiate(&self, _ctx: InstantiateCtx) -> StdResult<Response> { Ok(Response::new()) }
        #[sv::msg(exec)]
        fn do_exec(&self, _ctx: ExecCtx) -> StdResult<Response> { Ok(Response::new()) }
        #[sv::msg(query)]
        fn do_query(&self, _ctx: QueryCtx) -> StdResult<Resp> { Ok(Resp {}) }
        #[sv::msg(sudo)]
        fn do_sudo(&self, _ctx: SudoCtx) -> StdResult<Response> { Ok(Response::new()) }
        #[sv::msg(migrate)]
        fn migrate(&self, _ctx: MigrateCtx) -> StdResult<Response> { Ok(Response::new()) }
        #[sv::msg(reply)]
        fn reply(&self, _ctx: sylvia::types::ReplyCtx, _msg: Reply) -> StdResult<Response> { Ok(Response::new()) }
    }
}

pub mod s_inst_quer_sudo_repl_nomr_r {
    use super::*;
    pub mod eps {
        use super::super::*;
        #[sylvia::cw_schema::cw_serde]
        pub struct CustomInstantiate {}
        #[sylvia::cw_schema::cw_serde]
        pub struct CustomQuery {}
        #[sylvia::cw_schema::cw_serde]
        pub struct CustomSudo {}
        pub fn instantiate(_deps: DepsMut, _env: Env, _info: MessageInfo, _msg: CustomInstantiate) -> StdResult<Response> { Ok(Response::new()) }
        pub fn query(_deps: Deps, _env: Env, _msg: CustomQuery) -> StdResult<Binary> { Ok(Binary::default()) }
        pub fn sudo(_deps: DepsMut, _env: Env, _msg: CustomSudo) -> StdResult<Response> { Ok(Response::new()) }
        pub fn reply(_deps: DepsMut, _env: Env, _msg: Reply) -> StdResult<Response> { Ok(Response::new()) }
    }

    pub struct Contract;

    #[entry_points]
    #[contract]
    #[sv::features(replies)]
    #[sv::override_entry_point(instantiate=eps::instantiate(eps::CustomInstantiate))]
    #[sv::override_entry_point(query=eps::query(eps::CustomQuery))]
    #[sv::override_entry_point(sudo=eps::sudo(eps::CustomSudo))]
    #[sv::override_entry_point(reply=eps::reply(sylvia::cw_std::Reply))]
    impl Contract {
        pub fn new() -> Self { Self }
        #[sv::msg(instantiate)]
        fn instantiate(&self, _ctx: InstantiateCtx) -> StdResult<Response> { Ok(Response::new()) }
        #[sv::msg(exec)]
        fn do_exec(&self, _ctx: ExecCtx) -> StdResult<Response> { Ok(Response::new()) }
        #[sv::msg(query)]
        fn do_query(&self, _ctx: QueryCtx) -> StdResult<Resp> { Ok(Resp {}) }
        #[sv::msg(sudo)]
        fn do_sudo(&self, _ctx: SudoCtx) -> StdResult<Response> { Ok(Response::new()) }
    }
}

pub mod s_inst_quer_sudo_repl_nomr_l {
    use super::*;
    pub mod eps {
        use super::super::*;
        #[sylvia::cw_schema::cw_serde]
        pub struct CustomInstantiate {}
        #[sylvia::cw_schema::cw_serde]
        pub struct CustomQuery {}
        #[sylvia::cw_schema::cw_serde]
        pub struct CustomSudo {}
        pub fn instantiate(_deps: DepsMut, _env: Env, _info: MessageInfo, _msg: CustomInstantiate) -> StdResult<Response> { Ok(Response::new()) }
        pub fn query(_deps: Deps, _env: Env, _msg: CustomQuery) -> StdResult<Binary> { Ok(Binary::default()) }
        pub fn sudo(_deps: DepsMut, _env: Env, _msg: CustomSudo) -> StdResult<Response> { Ok(Response::new()) }
        pub fn reply(_deps: DepsMut, _env: Env, _msg: Reply) -> StdResult<Response> { Ok(Response::new()) }
    }

    pub struct Contract;

    #[entry_points]
    #[contract]
    #[sv::override_entry_point(instantiate=eps::instantiate(eps::CustomInstantiate))]
    #[sv::override_entry_point(query=eps::query(eps::CustomQuery))]
    #[sv::override_entry_point(sudo=eps::sudo(eps::CustomSudo))]
    #[sv::override_entry_point(reply=eps::reply(sylvia::cw_std::Reply))]
    impl Contract {
        pub fn new() -> Self { Self }
        #[sv::msg(instantiate)]
        fn instantiate(&self, _ctx: InstantiateCtx) -> StdResult<Response> { Ok(Response::new()) }
        #[sv::msg(exec)]
        fn do_exec(&self, _ctx: ExecCtx) -> StdResult<Response> { Ok(Response::new()) }
        #[sv::msg(query)]
        fn do_query(&self, _ctx: QueryCtx) -> StdResult<Resp> { Ok(Resp {}) }
        #[sv::msg(sudo)]
        fn do_sudo(&self, _ctx: SudoCtx) -> StdResult<Response> { Ok(Response::new()) }
    }
}

pub mod s_inst_quer_migr_repl_mr_r {
    use super::*;
    pub mod eps {
        use super::super::*;
        #[sylvia::cw_schema::cw_serde]
        pub struct CustomInstantiate {}
        #[sylvia::cw_schema::cw_serde]
        pub struct CustomQuery {}
        #[sylvia::cw_schema::cw_serde]
        pub struct CustomMigrate {}
        pub fn instantiate(_deps: DepsMut, _env: Env, _info: MessageInfo, _msg: CustomInstantiate) -> StdResult<Response> { Ok(Response::new()) }
        pub fn query(_deps: Deps, _env: Env, _msg: CustomQuery) -> StdResult<Binary> { Ok(Binary::default()) }
        pub fn migrate(_deps: DepsMut, _env: Env, _msg: CustomMigrate) -> StdResult<Response> { Ok(Response::new()) }
        pub fn reply(_deps: DepsMut, _env: Env, _msg: Reply) -> StdResult<Response> { Ok(Response::new()) }
    }

    pub struct Contract;

    #[entry_points]
    #[contract]
    #[sv::features(replies)]
    #[sv::override_entry_point(instantiate=eps::instantiate(eps::CustomInstantiate))]
    #[sv::override_entry_point(query=eps::query(eps::CustomQuery))]
    #[sv::override_entry_point(migrate=eps::migrate(eps::CustomMigrate))]
    #[sv::override_entry_point(reply=eps::reply(sylvia::cw_std::Reply))]
    impl Contract {
        pub fn new() -> Self { Self }
        #[sv::msg(instantiate)]
        fn instantiate(&self, _ctx: InstantiateCtx) -> StdResult<Response> { Ok(Response::new()) }
        #[sv::msg(exec)]
        fn do_exec(&self, _ctx: ExecCtx) -> StdResult<Response> { Ok(Response::new()) }
        #[sv::msg(query)]
        fn do_query(&self, _ctx: QueryCtx) -> StdResult<Resp> { Ok(Resp {}) }
        #[sv::msg(sudo)]
        fn do_sudo(&self, _ctx: SudoCtx) -> StdResult<Response> { Ok(Response::new()) }
        #[sv::msg(migrate)]
        fn migrate(&self, _ctx: MigrateCtx) -> StdResult<Response> { Ok(Response::new()) }
        #[sv::msg(reply, handlers=[on_done], reply_on=success)]
        fn on_done(&self, _ctx: ReplyCtx, #[sv::payload(raw)] _payload: Binary) -> StdResult<Response> { Ok(Response::new()) }
    }
}

pub mod s_inst_quer_migr_repl_mr_l {
    use super::*;
    pub mod eps {
        use super::super::*;
        #[sylvia::cw_schema::cw_serde]
        pub struct CustomInstantiate {}
        #[sylvia::cw_schema::cw_serde]
        pub struct CustomQuery {}
        #[sylvia::cw_schema::cw_serde]
        pub struct CustomMigrate {}
        pub fn instantiate(_deps: DepsMut, _env: Env, _info: MessageInfo, _msg: CustomInstantiate) -> StdResult<Response> { Ok(Response::new()) }
        pub fn query(_deps: Deps, _env: Env, _msg: CustomQuery) -> StdResult<Binary> { Ok(Binary::default()) }
        pub fn migrate(_deps: DepsMut, _env: Env, _msg: CustomMigrate) -> StdResult<Response> { Ok(Response::new()) }
        pub fn reply(_deps: DepsMut, _env: Env, _msg: Reply) -> StdResult<Response> { Ok(Response::new()) }
    }

    pub struct Contract;

    #[entry_points]
    #[contract]
    #[sv::override_entry_point(instantiate=eps::instantiate(eps::CustomInstantiate))]
    #[sv::override_entry_point(query=eps::query(eps::CustomQuery))]
    #[sv::override_entry_point(migrate=eps::migrate(eps::CustomMigrate))]
    #[sv::override_entry_point(reply=eps::reply(sylvia::cw_std::Reply))]
    impl Contract {
        pub fn new() -> Self { Self }
        #[sv::msg(instantiate)]
        fn instantiate(&self, _ctx: InstantiateCtx) -> StdResult<Response> { Ok(Response::new()) }
        #[sv::msg(exec)]
        fn do_exec(&self, _ctx: ExecCtx) -> StdResult<Response> { Ok(Response::new()) }
        #[sv::msg(query)]
        fn do_query(&self, _ctx: QueryCtx) -> StdResult<Resp> { Ok(Resp {}) }
        #[sv::msg(sudo)]
        fn do_sudo(&self, _ctx: SudoCtx) -> StdResult<Response> { Ok(Response::new()) }
        #[sv::msg(migrate)]
        fn migrate(&self, _ctx: MigrateCtx) -> StdResult<Response> { Ok(Response::new()) }
        #[sv::msg(reply)]
        fn reply(&self, _ctx: sylvia::types::ReplyCtx, _msg: Reply) -> StdResult<Response> { Ok(Response::new()) }
    }
}

pub mod s_inst_quer_migr_repl_nomr_r {
    use super::*;
    pub mod eps {
        use super::super::*;
        #[sylvia::cw_schema::cw_serde]
        pub struct CustomInstantiate {}
        #[sylvia::cw_schema::cw_serde]
        pub struct CustomQuery {}
        #[sylvia::cw_schema::cw_serde]
        pub struct CustomMigrate {}
        pub fn instantiate(_deps: DepsMut, _env: Env, _info: MessageInfo, _msg: CustomInstantiate) -> StdResult<Response> { Ok(Response::new()) }
        pub fn query(_deps: Deps, _env: Env, _msg: CustomQuery) -> StdResult<Binary> { Ok(Binary::default()) }
        pub fn migrate(_deps: DepsMut, _env: Env, _msg: CustomMigrate) -> StdResult<Response> { Ok(Response::new()) }
        pub fn reply(_deps: DepsMut, _env: Env, _msg: Reply) -> StdResult<Response> { Ok(Response::new()) }
    }

    pub struct Contract;

    #[entry_points]
    #[contract]
    #[sv::features(replies)]
    #[sv::override_entry_point(instantiate=eps::instantiate(eps::CustomInstantiate))]
    #[sv::override_entry_point(query=eps::query(eps::CustomQuery))]
    #[sv::override_entry_point(migrate=eps::migrate(eps::CustomMigrate))]
    #[sv::override_entry_point(reply=eps::reply(sylvia::cw_std::Reply))]
    impl Contract {
        pub fn new() -> Self { Self }
        #[sv::msg(instantiate)]
        fn instantiate(&self, _ctx: InstantiateCtx) -> StdResult<Response> { Ok(Response::new()) }
        #[sv::msg(exec)]
        fn do_exec(&self, _ctx: ExecCtx) -> StdResult<Response> { Ok(Response::new()) }
        #[sv::msg(query)]
        fn do_query(&self, _ctx: QueryCtx) -> StdResult<Resp> { Ok(Resp {}) }
        #[sv::msg(sudo)]
        fn do_sudo(&self, _ctx: SudoCtx) -> StdResult<Response> { Ok(Response::new()) }
    }
}

pub mod s_inst_quer_migr_repl_nomr_l {
    use super::*;
    pub mod eps {
        use super::super::*;
        #[sylvia::cw_schema::cw_serde]
        pub struct CustomInstantiate {}
        #[sylvia::cw_schema::cw_serde]
        pub struct CustomQuery {}
        #[sylvia::cw_schema::cw_serde]
        pub struct CustomMigrate {}
        pub fn instantiate(_deps: DepsMut, _env: Env, _info: MessageInfo, _msg: CustomInstantiate) -> StdResult<Response> { Ok(Response::new()) }
        pub fn query(_deps: Deps, _env: Env, _msg: CustomQuery) -> StdResult<Binary> { Ok(Binary::default()) }
        pub fn migrate(_deps: DepsMut, _env: Env, _msg: CustomMigrate) -> StdResult<Response> { Ok(Response::new()) }
        pub fn reply(_deps: DepsMut, _env: Env, _msg: Reply) -> StdResult<Response> { Ok(Response::new()) }
    }

    pub struct Contract;

    #[entry_points]
    #[contract]
    #[sv::override_entry_point(instantiate=eps::instantiate(eps::CustomInstantiate))]
    #[sv::override_entry_point(query=eps::query(eps::CustomQuery))]
    #[sv::override_entry_point(migrate=eps::migrate(eps::CustomMigrate))]
    #[sv::override_entry_point(reply=eps::reply(sylvia::cw_std::Reply))]
    impl Contract {
        pub fn new() -> Self { Self }
        #[sv::msg(instantiate)]
        fn instantiate(&self, _ctx: InstantiateCtx) -> StdResult<Response> { Ok(Response::new()) }
        #[sv::msg(exec)]
        fn do_exec(&self, _ctx: ExecCtx) -> StdResult<Response> { Ok(Response::new()) }
        #[sv::msg(query)]
        fn do_query(&self, _ctx: QueryCtx) -> StdResult<Resp> { Ok(Resp {}) }
        #[sv::msg(sudo)]
        fn do_sudo(&self, _ctx: SudoCtx) -> StdResult<Response> { Ok(Response::new()) }
    }
}

pub mod s_inst_sudo_migr_repl_mr_r {
    use super::*;
    pub mod eps {
        use super::super::*;
        #[sylvia::cw_schema::cw_serde]
        pub struct CustomInstantiate {}
        #[sylvia::cw_schema::cw_serde]
        pub struct CustomSudo {}
        #[sylvia::cw_schema::cw_serde]
        pub struct CustomMigrate {}
        pub fn instantiate(_deps: DepsMut, _env: Env, _info: MessageInfo, _msg: CustomInstantiate) -> StdResult<Response> { Ok(Response::new()) }
        pub fn sudo(_deps: DepsMut, _env: Env, _msg: CustomSudo) -> StdResult<Response> { Ok(Response::new()) }
        pub fn migrate(_deps: DepsMut, _env: Env, _msg: CustomMigrate) -> StdResult<Response> { Ok(Response::new()) }
        pub fn reply(_deps: DepsMut, _env: Env, _msg: Reply) -> StdResult<Response> { Ok(Response::new()) }
    }

    pub struct Contract;

    #[entry_points]
    #[contract]
    #[sv::features(replies)]
    #[sv::override_entry_point(instantiate=eps::instantiate(eps::CustomInstantiate))]
    #[sv::override_entry_point(sudo=eps::sudo(eps::CustomSudo))]
    #[sv::override_entry_point(migrate=eps::migrate(eps::CustomMigrate))]
    #[sv::override_entry_point(reply=eps::reply(sylvia::cw_std::Reply))]
    impl Contract {
        pub fn new() -> Self { Self }
        #[sv::msg(instantiate)]
        fn instantiate(&self, _ctx: InstantiateCtx) -> StdResult<Response> { Ok(Response::new()) }
        #[sv::msg(exec)]
        fn do_exec(&self, _ctx: ExecCtx) -> StdResult<Response> { Ok(Response::new()) }
        #[sv::msg(query)]
        fn do_query(&self, _ctx: QueryCtx) -> StdResult<Resp> { Ok(Resp {}) }
        #[sv::msg(sudo)]
        fn do_sudo(&self, _ctx: SudoCtx) -> StdResult<Response> { Ok(Response::new()) }
        #[sv::msg(migrate)]
        fn migrate(&self, _ctx: MigrateCtx) -> StdResult<Response> { Ok(Response::new()) }
        #[sv::msg(reply, handlers=[on_done], reply_on=success)]
        fn on_done(&self, _ctx: ReplyCtx, #[sv::payload(raw)] _payload: Binary) -> StdResult<Response> { Ok(Response::new()) }
    }
}

pub mod s_inst_sudo_migr_repl_mr_l {
    use super::*;
    pub mod eps {
        use super::super::*;
        #[sylvia::cw_schema::cw_serde]
        pub struct CustomInstantiate {}
        #[sylvia::cw_schema::cw_serde]
        pub struct CustomSudo {}
        #[sylvia::cw_schema::cw_serde]
        pub struct CustomMigrate {}
        pub fn instantiate(_deps: DepsMut, _env: Env, _info: MessageInfo, _msg: CustomInstantiate) -> StdResult<Response> { Ok(Response::new()) }
        pub fn sudo(_deps: DepsMut, _env: Env, _msg: CustomSudo) -> StdResult<Response> { Ok(Response::new()) }
        pub fn migrate(_deps: DepsMut, _env: Env, _msg: CustomMigrate) -> StdResult<Response> { Ok(Response::new()) }
        pub fn reply(_deps: DepsMut, _env: Env, _msg: Reply) -> StdResult<Response> { Ok(Response::new()) }
    }

    pub struct Contract;

    #[entry_points]
    #[contract]
    #[sv::override_entry_point(instantiate=eps::instantiate(eps::CustomInstantiate))]
    #[sv::override_entry_point(sudo=eps::sudo(eps::CustomSudo))]
    #[sv::override_entry_point(migrate=eps::migrate(eps::CustomMigrate))]
    #[sv::override_entry_point(reply=eps::reply(sylvia::cw_std::Reply))]
    impl Contract {
        pub fn new() -> Self { Self }
        #[sv::msg(instantiate)]
        fn instantiate(&self, _ctx: InstantiateCtx) -> StdResult<Response> { Ok(Response::new()) }
        #[sv::msg(exec)]
        fn do_exec(&self, _ctx: ExecCtx) -> StdResult<Response> { Ok(Response::new()) }
        #[sv::msg(query)]
        fn do_query(&self, _ctx: QueryCtx) -> StdResult<Resp> { Ok(Resp {}) }
        #[sv::msg(sudo)]
        fn do_sudo(&self, _ctx: SudoCtx) -> StdResult<Response> { Ok(Response::new()) }
        #[sv::msg(migrate)]
        fn migrate(&self, _ctx: MigrateCtx) -> StdResult<Response> { Ok(Response::new()) }
        #[sv::msg(reply)]
        fn reply(&self, _ctx: sylvia::types::ReplyCtx, _msg: Reply) -> StdResult<Response> { Ok(Response::new()) }
    }
}

pub mod s_inst_sudo_migr_repl_nomr_r {
    use super::*;
    pub mod eps {
        use super::super::*;
        #[sylvia::cw_schema::cw_serde]
        pub struct CustomInstantiate {}
        #[sylvia::cw_schema::cw_serde]
        pub struct CustomSudo {}
        #[sylvia::cw_schema::cw_serde]
        pub struct CustomMigrate {}
        pub fn instantiate(_deps: DepsMut, _env: Env, _info: MessageInfo, _msg: CustomInstantiate) -> StdResult<Response> { Ok(Response::new()) }
        pub fn sudo(_deps: DepsMut, _env: Env, _msg: CustomSudo) -> StdResult<Response> { Ok(Response::new()) }
        pub fn migrate(_deps: DepsMut, _env: Env, _msg: CustomMigrate) -> StdResult<Response> { Ok(Response::new()) }
        pub fn reply(_deps: DepsMut, _env: Env, _msg: Reply) -> StdResult<Response> { Ok(Response::new()) }
    }

    pub struct Contract;

    #[entry_points]
    #[contract]
    #[sv::features(replies)]
    #[sv::override_entry_point(instantiate=eps::instantiate(eps::CustomInstantiate))]
    #[sv::override_entry_point(sudo=eps::sudo(eps::CustomSudo))]
    #[sv::override_entry_point(migrate=eps::migrate(eps::CustomMigrate))]
    #[sv::override_entry_point(reply=eps::reply(sylvia::cw_std::Reply))]
    impl Contract {
        pub fn new() -> Self { Self }
        #[sv::msg(instantiate)]
        fn instantiate(&self, _ctx: InstantiateCtx) -> StdResult<Response> { Ok(Response::new()) }
        #[sv::msg(exec)]
        fn do_exec(&self, _ctx: ExecCtx) -> StdResult<Response> { Ok(Response::new()) }
        #[sv::msg(query)]
        fn do_query(&self, _ctx: QueryCtx) -> StdResult<Resp> { Ok(Resp {}) }
        #[sv::msg(sudo)]
        fn do_sudo(&self, _ctx: SudoCtx) -> StdResult<Response> { Ok(Response::new()) }
    }
}

pub mod s_inst_sudo_migr_repl_nomr_l {
    use super::*;
    pub mod eps {
        use super::super::*;
        #[sylvia::cw_schema::cw_serde]
        pub struct CustomInstantiate {}
        #[sylvia::cw_schema::cw_serde]
        pub struct CustomSudo {}
        #[sylvia::cw_schema::cw_serde]
        pub struct CustomMigrate {}
        pub fn instantiate(_deps: DepsMut, _env: Env, _info: MessageInfo, _msg: CustomInstantiate) -> StdResult<Response> { Ok(Response::new()) }
        pub fn sudo(_deps: DepsMut, _env: Env, _msg: CustomSudo) -> StdResult<Response> { Ok(Response::new()) }
        pub fn migrate(_deps: DepsMut, _env: Env, _msg: CustomMigrate) -> StdResult<Response> { Ok(Response::new()) }
        pub fn reply(_deps: DepsMut, _env: Env, _msg: Reply) -> StdResult<Response> { Ok(Response::new()) }
    }

    pub struct Contract;

    #[entry_points]
    #[contract]
    #[sv::override_entry_point(instantiate=eps::instantiate(eps::CustomInstantiate))]
    #[sv::override_entry_point(sudo=eps::sudo(eps::CustomSudo))]
    #[sv::override_entry_point(migrate=eps::migrate(eps::CustomMigrate))]
    #[sv::override_entry_point(reply=eps::reply(sylvia::cw_std::Reply))]
    impl Contract {
        pub fn new() -> Self { Self }
        #[sv::msg(instantiate)]
        fn instantiate(&self, _ctx: InstantiateCtx) -> StdResult<Response> { Ok(Response::new()) }
        #[sv::msg(exec)]
        fn do_exec(&self, _ctx: ExecCtx) -> StdResult<Response> { Ok(Response::new()) }
        #[sv::msg(query)]
        fn do_query(&self, _ctx: QueryCtx) -> StdResult<Resp> { Ok(Resp {}) }
        #[sv::msg(sudo)]
        fn do_sudo(&self, _ctx: SudoCtx) -> StdResult<Response> { Ok(Response::new()) }
    }
}

pub mod s_exec_quer_sudo_migr_mr_r {
    use super::*;
    pub mod eps {
        use super::super::*;
        #[sylvia::cw_schema::cw_serde]
        pub struct CustomExec {}
        #[sylvia::cw_schema::cw_serde]
        pub struct CustomQuery {}
        #[sylvia::cw_schema::cw_serde]
        pub struct CustomSudo {}
        #[sylvia::cw_schema::cw_serde]
        pub struct CustomMigrate {}
        pub fn execute(_deps: DepsMut, _env: Env, _info: MessageInfo, _msg: CustomExec) -> StdResult<Response> { Ok(Response::new()) }
        pub fn query(_deps: Deps, _env: Env, _msg: CustomQuery) -> StdResult<Binary> { Ok(Binary::default()) }
        pub fn sudo(_deps: DepsMut, _env: Env, _msg: CustomSudo) -> StdResult<Response> { Ok(Response::new()) }
        pub fn migrate(_deps: DepsMut, _env: Env, _msg: CustomMigrate) -> StdResult<Response> { Ok(Response::new()) }
    }

    pub struct Contract;

    #[entry_points]
    #[contract]
    #[sv::features(replies)]
    #[sv::override_entry_point(exec=eps::execute(eps::CustomExec))]
    #[sv::override_entry_point(query=eps::query(eps::CustomQuery))]
    #[sv::override_entry_point(sudo=eps::sudo(eps::CustomSudo))]
    #[sv::override_entry_point(migrate=eps::migrate(eps::CustomMigrate))]
    impl Contract {
        pub fn new() -> Self { Self }
        #[sv::msg(instantiate)]
        fn instantiate(&self, _ctx: InstantiateCtx) -> StdResult<Response> { Ok(Response::new()) }
        #[sv::msg(exec)]
        fn do_exec(&self, _ctx: ExecCtx) -> StdResult<Response> { Ok(Response::new()) }
        #[sv::msg(query)]
        fn do_query(&self, _ctx: QueryCtx) -> StdResult<Resp> { Ok(Resp {}) }
        #[sv::msg(sudo)]
        fn do_sudo(&self, _ctx: SudoCtx) -> StdResult<Response> { Ok(Response::new()) }
        #[sv::msg(migrate)]
        fn migrate(&self, _ctx: MigrateCtx) -> StdResult<Response> { Ok(Response::new()) }
        #[sv::msg(reply, handlers=[on_done], reply_on=success)]
        fn on_done(&self, _ctx: ReplyCtx, #[sv::payload(raw)] _payload: Binary) -> StdResult<Response> { Ok(Response::new()) }
    }
}

pub mod s_exec_quer_sudo_migr_mr_l {
    use super::*;
    pub mod eps {
        use super::super::*;
        #[sylvia::cw_schema::cw_serde]
        pub struct CustomExec {}
        #[sylvia::cw_schema::cw_serde]
        pub struct CustomQuery {}
        #[sylvia::cw_schema::cw_serde]
        pub struct CustomSudo {}
        #[sylvia::cw_schema::cw_serde]
        pub struct CustomMigrate {}
        pub fn execute(_deps: DepsMut, _env: Env, _info: MessageInfo, _msg: CustomExec) -> StdResult<Response> { Ok(Response::new()) }
        pub fn query(_deps: Deps, _env: Env, _msg: CustomQuery) -> StdResult<Binary> { Ok(Binary::default()) }
        pub fn sudo(_deps: DepsMut, _env: Env, _msg: CustomSudo) -> StdResult<Response> { Ok(Response::new()) }
        pub fn migrate(_deps: DepsMut, _env: Env, _msg: CustomMigrate) -> StdResult<Response> { Ok(Response::new()) }
    }

    pub struct Contract;

    #[entry_points]
    #[contract]
    #[sv::override_entry_point(exec=eps::execute(eps::CustomExec))]
    #[sv::override_entry_point(query=eps::query(eps::CustomQuery))]
    #[sv::override_entry_point(sudo=eps::sudo(eps::CustomSudo))]
    #[sv::override_entry_point(migrate=eps::migrate(eps::CustomMigrate))]
    impl Contract {
        pub fn new() -> Self { Self }
        #[sv::msg(instantiate)]
        fn instantiate(&self, _ctx: InstantiateCtx) -> StdResult<Response> { Ok(Response::new()) }
        #[sv::msg(exec)]
        fn do_exec(&self, _ctx: ExecCtx) -> StdResult<Response> { Ok(Response::new()) }
        #[sv::msg(query)]
        fn do_query(&self, _ctx: QueryCtx) -> StdResult<Resp> { Ok(Resp {}) }
        #[sv::msg(sudo)]
        fn do_sudo(&self, _ctx: SudoCtx) -> StdResult<Response> { Ok(Response::new()) }
        #[sv::msg(migrate)]
        fn migrate(&self, _ctx: MigrateCtx) -> StdResult<Response> { Ok(Response::new()) }
        #[sv::msg(reply)]
        fn reply(&self, _ctx: sylvia::types::ReplyCtx, _msg: Reply) -> StdResult<Response> { Ok(Response::new()) }
    }
}

pub mod s_exec_quer_sudo_migr_nomr_r {
    use super::*;
    pub mod eps {
        use super::super::*;
        #[sylvia::cw_schema::cw_serde]
        pub struct CustomExec {}
        #[sylvia::cw_schema::cw_serde]
        pub struct CustomQuery {}
        #[sylvia::cw_schema::cw_serde]
        pub struct CustomSudo {}
        #[sylvia::cw_schema::cw_serde]
        pub struct CustomMigrate {}
        pub fn execute(_deps: DepsMut, _env: Env, _info: MessageInfo, _msg: CustomExec) -> StdResult<Response> { Ok(Response::new()) }
        pub fn query(_deps: Deps, _env: Env, _msg: CustomQuery) -> StdResult<Binary> { Ok(Binary::default()) }
        pub fn sudo(_deps: DepsMut, _env: Env, _msg: CustomSudo) -> StdResult<Response> { Ok(Response::new()) }
        pub fn migrate(_deps: DepsMut, _env: Env, _msg: CustomMigrate) -> StdResult<Response> { Ok(Response::new()) }
    }

    pub struct Contract;

    #[entry_points]
    #[contract]
    #[sv::features(replies)]
    #[sv::override_entry_point(exec=eps::execute(eps::CustomExec))]
    #[sv::override_entry_point(query=eps::query(eps::CustomQuery))]
    #[sv::override_entry_point(sudo=eps::sudo(eps::CustomSudo))]
    #[sv::override_entry_point(migrate=eps::migrate(eps::CustomMigrate))]
    impl Contract {
        pub fn new() -> Self { Self }
        #[sv::msg(instantiate)]
        fn instantiate(&self, _ctx: InstantiateCtx) -> StdResult<Response> { Ok(Response::new()) }
        #[sv::msg(exec)]
        fn do_exec(&self, _ctx: ExecCtx) -> StdResult<Response> { Ok(Response::new()) }
        #[sv::msg(query)]
        fn do_query(&self, _ctx: QueryCtx) -> StdResult<Resp> { Ok(Resp {}) }
        #[sv::msg(sudo)]
        fn do_sudo(&self, _ctx: SudoCtx) -> StdResult<Response> { Ok(Response::new()) }
    }
}

pub mod s_exec_quer_sudo_migr_nomr_l {
    use super::*;
    pub mod eps {
        use super::super::*;
        #[sylvia::cw_schema::cw_serde]
        pub struct CustomExec {}
        #[sylvia::cw_schema::cw_serde]
        pub struct CustomQuery {}
        #[sylvia::cw_schema::cw_serde]
        pub struct CustomSudo {}
        #[sylvia::cw_schema::cw_serde]
        pub struct CustomMigrate {}
        pub fn execute(_deps: DepsMut, _env: Env, _info: MessageInfo, _msg: CustomExec) -> StdResult<Response> { Ok(Response::new()) }
        pub fn query(_deps: Deps, _env: Env, _msg: CustomQuery) -> StdResult<Binary> { Ok(Binary::default()) }
        pub fn sudo(_deps: DepsMut, _env: Env, _msg: CustomSudo) -> StdResult<Response> { Ok(Response::new()) }
        pub fn migrate(_deps: DepsMut, _env: Env, _msg: CustomMigrate) -> StdResult<Response> { Ok(Response::new()) }
    }

    pub struct Contract;

    #[entry_points]
    #[contract]
    #[sv::override_entry_point(exec=eps::execute(eps::CustomExec))]
    #[sv::override_entry_point(query=eps::query(eps::CustomQuery))]
    #[sv::override_entry_point(sudo=eps::sudo(eps::CustomSudo))]
    #[sv::override_entry_point(migrate=eps::migrate(eps::CustomMigrate))]
    impl Contract {
        pub fn new() -> Self { Self }
        #[sv::msg(instantiate)]
        fn instantiate(&self, _ctx: InstantiateCtx) -> StdResult<Response> { Ok(Response::new()) }
        #[sv::msg(exec)]
        fn do_exec(&self, _ctx: ExecCtx) -> StdResult<Response> { Ok(Response::new()) }
        #[sv::msg(query)]
        fn do_query(&self, _ctx: QueryCtx) -> StdResult<Resp> { Ok(Resp {}) }
        #[sv::msg(sudo)]
        fn do_sudo(&self, _ctx: SudoCtx) -> StdResult<Response> { Ok(Response::new()) }
    }
}

pub mod s_exec_quer_sudo_repl_mr_r {
    use super::*;
    pub mod eps {
        use super::super::*;
        #[sylvia::cw_schema::cw_serde]
        pub struct CustomExec {}
        #[sylvia::cw_schema::cw_serde]
        pub struct CustomQuery {}
        #[sylvia::cw_schema::cw_serde]
        pub struct CustomSudo {}
        pub fn execute(_deps: DepsMut, _env: Env, _info: MessageInfo, _msg: CustomExec) -> StdResult<Response> { Ok(Response::new()) }
        pub fn query(_deps: Deps, _env: Env, _msg: CustomQuery) -> StdResult<Binary> { Ok(Binary::default()) }
        pub fn sudo(_deps: DepsMut, _env: Env, _msg: CustomSudo) -> StdResult<Response> { Ok(Response::new()) }
        pub fn reply(_deps: DepsMut, _env: Env, _msg: Reply) -> StdResult<Response> { Ok(Response::new()) }
    }

    pub struct Contract;

    #[entry_points]
    #[contract]
    #[sv::features(replies)]
    #[sv::override_entry_point(exec=eps::execute(eps::CustomExec))]
    #[sv::override_entry_point(query=eps::query(eps::CustomQuery))]
    #[sv::override_entry_point(sudo=eps::sudo(eps::CustomSudo))]
    #[sv::override_entry_point(reply=eps::reply(sylvia::cw_std::Reply))]
    impl Contract {
        pub fn new() -> Self { Self }
        #[sv::msg(instantiate)]
        fn instantiate(&self, _ctx: InstantiateCtx) -> StdResult<Response> { Ok(Response::new()) }
        #[sv::msg(exec)]
        fn do_exec(&self, _ctx: ExecCtx) -> StdResult<Response> { Ok(Response::new()) }
        #[sv::msg(query)]
        fn do_query(&self, _ctx: QueryCtx) -> StdResult<Resp> { Ok(Resp {}) }
        #[sv::msg(sudo)]
        fn do_sudo(&self, _ctx: SudoCtx) -> StdResult<Response> { Ok(Response::new()) }
        #[sv::msg(migrate)]
        fn migrate(&self, _ctx: MigrateCtx) -> StdResult<Response> { Ok(Response::new()) }
        #[sv::msg(reply, handlers=[on_done], reply_on=success)]
        fn on_done(&self, _ctx: ReplyCtx, #[sv::payload(raw)] _payload: Binary) -> StdResult<Response> { Ok(Response::new()) }
    }
}

pub mod s_exec_quer_sudo_repl_mr_l {
    use super::*;
    pub mod eps {
        use super::super::*;
        #[sylvia::cw_schema::cw_serde]
        pub struct CustomExec {}
        #[sylvia::cw_schema::cw_serde]
        pub struct CustomQuery {}
        #[sylvia::cw_schema::cw_serde]
        pub struct CustomSudo {}
        pub fn execute(_deps: DepsMut, _env: Env, _info: MessageInfo, _msg: CustomExec) -> StdResult<Response> { Ok(Response::new()) }
        pub fn query(_deps: Deps, _env: Env, _msg: CustomQuery) -> StdResult<Binary> { Ok(Binary::default()) }
        pub fn sudo(_deps: DepsMut, _env: Env, _msg: CustomSudo) -> StdResult<Response> { Ok(Response::new()) }
        pub fn reply(_deps: DepsMut, _env: Env, _msg: Reply) -> StdResult<Response> { Ok(Response::new()) }
    }

    pub struct Contract;

    #[entry_points]
    #[contract]
    #[sv::override_entry_point(exec=eps::execute(eps::CustomExec))]
    #[sv::override_entry_point(query=eps::query(eps::CustomQuery))]
    #[sv::override_entry_point(sudo=eps::sudo(eps::CustomSudo))]
    #[sv::override_entry_point(reply=eps::reply(sylvia::cw_std::Reply))]
    impl Contract {
        pub fn new() -> Self { Self }
        #[sv::msg(instantiate)]
        fn instantiate(&self, _ctx: InstantiateCtx) -> StdResult<Response> { Ok(Response::new()) }
        #[sv::msg(exec)]
        fn do_exec(&self, _ctx: ExecCtx) -> StdResult<Response> { Ok(Response::new()) }
        #[sv::msg(query)]
        fn do_query(&self, _ctx: QueryCtx) -> StdResult<Resp> { Ok(Resp {}) }
        #[sv::msg(sudo)]
        fn do_sudo(&self, _ctx: SudoCtx) -> StdResult<Response> { Ok(Response::new()) }
        #[sv::msg(migrate)]
        fn migrate(&self, _ctx: MigrateCtx) -> StdResult<Response> { Ok(Response::new()) }
        #[sv::msg(reply)]
        fn reply(&self, _ctx: sylvia::types::ReplyCtx, _msg: Reply) -> StdResult<Response> { Ok(Response::new()) }
    }
}

pub mod s_exec_quer_sudo_repl_nomr_r {
    use super::*;
    pub mod eps {
        use super::super::*;
        #[sylvia::cw_schema::cw_serde]
        pub struct CustomExec {}
        #[sylvia::cw_schema::cw_serde]
        pub struct CustomQuery {}
        #[sylvia::cw_schema::cw_serde]
        pub struct CustomSudo {}
        pub fn execute(_deps: DepsMut, _env: Env, _info: MessageInfo, _msg: CustomExec) -> StdResult<Response> { Ok(Response::new()) }
        pub fn query(_deps: Deps, _env: Env, _msg: CustomQuery) -> StdResult<Binary> { Ok(Binary::default()) }
        pub fn sudo(_deps: DepsMut, _env: Env, _msg: CustomSudo) -> StdResult<Response> { Ok(Response::new()) }
        pub fn reply(_deps: DepsMut, _env: Env, _msg: Reply) -> StdResult<Response> { Ok(Response::new()) }
    }

    pub struct Contract;

    #[entry_points]
    #[contract]
    #[sv::features(replies)]
    #[sv::override_entry_point(exec=eps::execute(eps::CustomExec))]
    #[sv::override_entry_point(query=eps::query(eps::CustomQuery))]
    #[sv::override_entry_point(sudo=eps::sudo(eps::CustomSudo))]
    #[sv::override_entry_point(reply=eps::reply(sylvia::cw_std::Reply))]
    impl Contract {
        pub fn new() -> Self { Self }
        #[sv::msg(instantiate)]
        fn instantiate(&self, _ctx: InstantiateCtx) -> StdResult<Response> { Ok(Response::new()) }
        #[sv::msg(exec)]
        fn do_exec(&self, _ctx: ExecCtx) -> StdResult<Response> { Ok(Response::new()) }
        #[sv::msg(query)]
        fn do_query(&self, _ctx: QueryCtx) -> StdResult<Resp> { Ok(Resp {}) }
        #[sv::msg(sudo)]
        fn do_sudo(&self, _ctx: SudoCtx) -> StdResult<Response> { Ok(Response::new()) }
    }
}

pub mod s_exec_quer_sudo_repl_nomr_l {
    use super::*;
    pub mod eps {
        use super::super::*;
        #[sylvia::cw_schema::cw_serde]
        pub struct CustomExec {}
        #[sylvia::cw_schema::cw_serde]
        pub struct CustomQuery {}
        #[sylvia::cw_schema::cw_serde]
        pub struct CustomSudo {}
        pub fn execute(_deps: DepsMut, _env: Env, _info: MessageInfo, _msg: CustomExec) -> StdResult<Response> { Ok(Response::new()) }
        pub fn query(_deps: Deps, _env: Env, _msg: CustomQuery) -> StdResult<Binary> { Ok(Binary::default()) }
        pub fn sudo(_deps: DepsMut, _env: Env, _msg: CustomSudo) -> StdResult<Response> { Ok(Response::new()) }
        pub fn reply(_deps: DepsMut, _env: Env, _msg: Reply) -> StdResult<Response> { Ok(Response::new()) }
    }

    pub struct Contract;

    #[entry_points]
    #[contract]
    #[sv::override_entry_point(exec=eps::execute(eps::CustomExec))]
    #[sv::override_entry_point(query=eps::query(eps::CustomQuery))]
    #[sv::override_entry_point(sudo=eps::sudo(eps::CustomSudo))]
    #[sv::override_entry_point(reply=eps::reply(sylvia::cw_std::Reply))]
    impl Contract {
        pub fn new() -> Self { Self }
        #[sv::msg(instantiate)]
        fn instantiate(&self, _ctx: InstantiateCtx) -> StdResult<Response> { Ok(Response::new()) }
        #[sv::msg(exec)]
        fn do_exec(&self, _ctx: ExecCtx) -> StdResult<Response> { Ok(Response::new()) }
        #[sv::msg(query)]
        fn do_query(&self, _ctx: QueryCtx) -> StdResult<Resp> { Ok(Resp {}) }
        #[sv::msg(sudo)]
        fn do_sudo(&self, _ctx: SudoCtx) -> StdResult<Response> { Ok(Response::new()) }
    }
}

pub mod s_exec_quer_migr_repl_mr_r {
    use super::*;
    pub mod eps {
        use super::super::*;
        #[sylvia::cw_schema::cw_serde]
        pub struct CustomExec {}
        #[sylvia::cw_schema::cw_serde]
        pub struct CustomQuery {}
        #[sylvia::cw_schema::cw_serde]
        pub struct CustomMigrate {}
        pub fn execute(_deps: DepsMut, _env: Env, _info: MessageInfo, _msg: CustomExec) -> StdResult<Response> { Ok(Response::new()) }
        pub fn query(_deps: Deps, _env: Env, _msg: CustomQuery) -> StdResult<Binary> { Ok(Binary::default()) }
        pub fn migrate(_deps: DepsMut, _env: Env, _msg: CustomMigrate) -> StdResult<Response> { Ok(Response::new()) }
        pub fn reply(_deps: DepsMut, _env: Env, _msg: Reply) -> StdResult<Response> { Ok(Response::new()) }
    }

    pub struct Contract;

    #[entry_points]
    #[contract]
    #[sv::features(replies)]
    #[sv::override_entry_point(exec=eps::execute(eps::CustomExec))]
    #[sv::override_entry_point(query=eps::query(eps::CustomQuery))]
    #[sv::override_entry_point(migrate=eps::migrate(eps::CustomMigrate))]
    #[sv::override_entry_point(reply=eps::reply(sylvia::cw_std::Reply))]
    impl Contract {
        pub fn new() -> Self { Self }
        #[sv::msg(instantiate)]
        fn instantiate(&self, _ctx: InstantiateCtx) -> StdResult<Response> { Ok(Response::new()) }
        #[sv::msg(exec)]
        fn do_exec(&self, _ctx: ExecCtx) -> StdResult<Response> { Ok(Response::new()) }
        #[sv::msg(query)]
        fn do_query(&self, _ctx: QueryCtx) -> StdResult<Resp> { Ok(Resp {}) }
        #[sv::msg(sudo)]
        fn do_sudo(&self, _ctx: SudoCtx) -> StdResult<Response> { Ok(Response::new()) }
        #[sv::msg(migrate)]
        fn migrate(&self, _ctx: MigrateCtx) -> StdResult<Response> { Ok(Response::new()) }
        #[sv::msg(reply, handlers=[on_done], reply_on=success)]
        fn on_done(&self, _ctx: ReplyCtx, #[sv::payload(raw)] _payload: Binary) -> StdResult<Response> { Ok(Response::new()) }
    }
}

pub mod s_exec_quer_migr_repl_mr_l {
    use super::*;
    pub mod eps {
        use super::super::*;
        #[sylvia::cw_schema::cw_serde]
        pub struct CustomExec {}
        #[sylvia::cw_schema::cw_serde]
        pub struct CustomQuery {}
        #[sylvia::cw_schema::cw_serde]
        pub struct CustomMigrate {}
        pub fn execute(_deps: DepsMut, _env: Env, _info: MessageInfo, _msg: CustomExec) -> StdResult<Response> { Ok(Response::new()) }
        pub fn query(_deps: Deps, _env: Env, _msg: CustomQuery) -> StdResult<Binary> { Ok(Binary::default()) }
        pub fn migrate(_deps: DepsMut, _env: Env, _msg: CustomMigrate) -> StdResult<Response> { Ok(Response::new()) }
        pub fn reply(_deps: DepsMut, _env: Env, _msg: Reply) -> StdResult<Response> { Ok(Response::new()) }
    }

    pub struct Contract;

    #[entry_points]
    #[contract]
    #[sv::override_entry_point(exec=eps::execute(eps::CustomExec))]
    #[sv::override_entry_point(query=eps::query(eps::CustomQuery))]
    #[sv::override_entry_point(migrate=eps::migrate(eps::CustomMigrate))]
    #[sv::override_entry_point(reply=eps::reply(sylvia::cw_std::Reply))]
    impl Contract {
        pub fn new() -> Self { Self }
        #[sv::msg(instantiate)]
        fn instantiate(&self, _ctx: InstantiateCtx) -> StdResult<Response> { Ok(Response::new()) }
        #[sv::msg(exec)]
        fn do_exec(&self, _ctx: ExecCtx) -> StdResult<Response> { Ok(Response::new()) }
        #[sv::msg(query)]
        fn do_query(&self, _ctx: QueryCtx) -> StdResult<Resp> { Ok(Resp {}) }
        #[sv::msg(sudo)]
        fn do_sudo(&self, _ctx: SudoCtx) -> StdResult<Response> { Ok(Response::new()) }
        #[sv::msg(migrate)]
        fn migrate(&self, _ctx: MigrateCtx) -> StdResult<Response> { Ok(Response::new()) }
        #[sv::msg(reply)]
        fn reply(&self, _ctx: sylvia::types::ReplyCtx, _msg: Reply) -> StdResult<Response> { Ok(Response::new()) }
    }
}

pub mod s_exec_quer_migr_repl_nomr_r {
    use super::*;
    pub mod eps {
        use super::super::*;
        #[sylvia::cw_schema::cw_serde]
        pub struct CustomExec {}
        #[sylvia::cw_schema::cw_serde]
        pub struct CustomQuery {}
        #[sylvia::cw_schema::cw_serde]
        pub struct CustomMigrate {}
        pub fn execute(_deps: DepsMut, _env: Env, _info: MessageInfo, _msg: CustomExec) -> StdResult<Response> { Ok(Response::new()) }
        pub fn query(_deps: Deps, _env: Env, _msg: CustomQuery) -> StdResult<Binary> { Ok(Binary::default()) }
        pub fn migrate(_deps: DepsMut, _env: Env, _msg: CustomMigrate) -> StdResult<Response> { Ok(Response::new()) }
        pub fn reply(_deps: DepsMut, _env: Env, _msg: Reply) -> StdResult<Response> { Ok(Response::new()) }
    }

    pub struct Contract;

    #[entry_points]
    #[contract]
    #[sv::features(replies)]
    #[sv::override_entry_point(exec=eps::execute(eps::CustomExec))]
    #[sv::override_entry_point(query=eps::query(eps::CustomQuery))]
    #[sv::override_entry_point(migrate=eps::migrate(eps::CustomMigrate))]
    #[sv::override_entry_point(reply=eps::reply(sylvia::cw_std::Reply))]
    impl Contract {
        pub fn new() -> Self { Self }
        #[sv::msg(instantiate)]
        fn instantiate(&self, _ctx: InstantiateCtx) -> StdResult<Response> { Ok(Response::new()) }
        #[sv::msg(exec)]
        fn do_exec(&self, _ctx: ExecCtx) -> StdResult<Response> { Ok(Response::new()) }
        #[sv::msg(query)]
        fn do_query(&self, _ctx: QueryCtx) -> StdResult<Resp> { Ok(Resp {}) }
        #[sv::msg(sudo)]
        fn do_sudo(&self, _ctx: SudoCtx) -> StdResult<Response> { Ok(Response::new()) }
    }
}

pub mod s_exec_quer_migr_repl_nomr_l {
    use super::*;
    pub mod eps {
        use super::super::*;
        #[sylvia::cw_schema::cw_serde]
        pub struct CustomExec {}
        #[sylvia::cw_schema::cw_serde]
        pub struct CustomQuery {}
        #[sylvia::cw_schema::cw_serde]
        pub struct CustomMigrate {}
        pub fn execute(_deps: DepsMut, _env: Env, _info: MessageInfo, _msg: CustomExec) -> StdResult<Response> { Ok(Response::new()) }
        pub fn query(_deps: Deps, _env: Env, _msg: CustomQuery) -> StdResult<Binary> { Ok(Binary::default()) }
        pub fn migrate(_deps: DepsMut, _env: Env, _msg: CustomMigrate) -> StdResult<Response> { Ok(Response::new()) }
        pub fn reply(_deps: DepsMut, _env: Env, _msg: Reply) -> StdResult<Response> { Ok(Response::new()) }
    }

    pub struct Contract;

    #[entry_points]
    #[contract]
    #[sv::override_entry_point(exec=eps::execute(eps::CustomExec))]
    #[sv::override_entry_point(query=eps::query(eps::CustomQuery))]
    #[sv::override_entry_point(migrate=eps::migrate(eps::CustomMigrate))]
    #[sv::override_entry_point(reply=eps::reply(sylvia::cw_std::Reply))]
    impl Contract {
        pub fn new() -> Self { Self }
        #[sv::msg(instantiate)]
        fn instantiate(&self, _ctx: InstantiateCtx) -> StdResult<Response> { Ok(Response::new()) }
        #[sv::msg(exec)]
        fn do_exec(&self, _ctx: ExecCtx) -> StdResult<Response> { Ok(Response::new()) }
        #[sv::msg(query)]
        fn do_query(&self, _ctx: QueryCtx) -> StdResult<Resp> { Ok(Resp {}) }
        #[sv::msg(sudo)]
        fn do_sudo(&self, _ctx: SudoCtx) -> StdResult<Response> { Ok(Response::new()) }
    }
}

pub mod s_exec_sudo_migr_repl_mr_r {
    use super::*;
    pub mod eps {
        use super::super::*;
        #[sylvia::cw_schema::cw_serde]
        pub struct CustomExec {}
        #[sylvia::cw_schema::cw_serde]
        pub struct CustomSudo {}
        #[sylvia::cw_schema::cw_serde]
        pub struct CustomMigrate {}
        pub fn execute(_deps: DepsMut, _env: Env, _info: MessageInfo, _msg: CustomExec) -> StdResult<Response> { Ok(Response::new()) }
        pub fn sudo(_deps: DepsMut, _env: Env, _msg: CustomSudo) -> StdResult<Response> { Ok(Response::new()) }
        pub fn migrate(_deps: DepsMut, _env: Env, _msg: CustomMigrate) -> StdResult<Response> { Ok(Response::new()) }
        pub fn reply(_deps: DepsMut, _env: Env, _msg: Reply) -> StdResult<Response> { Ok(Response::new()) }
    }

    pub struct Contract;

    #[entry_points]
    #[contract]
    #[sv::features(replies)]
    #[sv::override_entry_point(exec=eps::execute(eps::CustomExec))]
    #[sv::override_entry_point(sudo=eps::sudo(eps::CustomSudo))]
    #[sv::override_entry_point(migrate=eps::migrate(eps::CustomMigrate))]
    #[sv::override_entry_point(reply=eps::reply(sylvia::cw_std::Reply))]
    impl Contract {
        pub fn new() -> Self { Self }
        #[sv::msg(instantiate)]
        fn instantiate(&self, _ctx: InstantiateCtx) -> StdResult<Response> { Ok(Response::new()) }
        #[sv::msg(exec)]
        fn do_exec(&self, _ctx: ExecCtx) -> StdResult<Response> { Ok(Response::new()) }
        #[sv::msg(query)]
        fn do_query(&self, _ctx: QueryCtx) -> StdResult<Resp> { Ok(Resp {}) }
        #[sv::msg(sudo)]
        fn do_sudo(&self, _ctx: SudoCtx) -> StdResult<Response> { Ok(Response::new()) }
        #[sv::msg(migrate)]
        fn migrate(&self, _ctx: MigrateCtx) -> StdResult<Response> { Ok(Response::new()) }
        #[sv::msg(reply, handlers=[on_done], reply_on=success)]
        fn on_done(&self, _ctx: ReplyCtx, #[sv::payload(raw)] _payload: Binary) -> StdResult<Response> { Ok(Response::new()) }
    }
}

pub mod s_exec_sudo_migr_repl_mr_l {
    use super::*;
    pub mod eps {
        use super::super::*;
        #[sylvia::cw_schema::cw_serde]
        pub struct CustomExec {}
        #[sylvia::cw_schema::cw_serde]
        pub struct CustomSudo {}
        #[sylvia::cw_schema::cw_serde]
        pub struct CustomMigrate {}
        pub fn execute(_deps: DepsMut, _env: Env, _info: MessageInfo, _msg: CustomExec) -> StdResult<Response> { Ok(Response::new()) }
        pub fn sudo(_deps: DepsMut, _env: Env, _msg: CustomSudo) -> StdResult<Response> { Ok(Response::new()) }
        pub fn migrate(_deps: DepsMut, _env: Env, _msg: CustomMigrate) -> StdResult<Response> { Ok(Response::new()) }
        pub fn reply(_deps: DepsMut, _env: Env, _msg: Reply) -> StdResult<Response> { Ok(Response::new()) }
    }

    pub struct Contract;

    #[entry_points]
    #[contract]
    #[sv::override_entry_point(exec=eps::execute(eps::CustomExec))]
    #[sv::override_entry_point(sudo=eps::sudo(eps::CustomSudo))]
    #[sv::override_entry_point(migrate=eps::migrate(eps::CustomMigrate))]
    #[sv::override_entry_point(reply=eps::reply(sylvia::cw_std::Reply))]
    impl Contract {
        pub fn new() -> Self { Self }
        #[sv::msg(instantiate)]
        fn instantiate(&self, _ctx: InstantiateCtx) -> StdResult<Response> { Ok(Response::new()) }
        #[sv::msg(exec)]
        fn do_exec(&self, _ctx: ExecCtx) -> StdResult<Response> { Ok(Response::new()) }
        #[sv::msg(query)]
        fn do_query(&self, _ctx: QueryCtx) -> StdResult<Resp> { Ok(Resp {}) }
        #[sv::msg(sudo)]
        fn do_sudo(&self, _ctx: SudoCtx) -> StdResult<Response> { Ok(Response::new()) }
        #[sv::msg(migrate)]
        fn migrate(&self, _ctx: MigrateCtx) -> StdResult<Response> { Ok(Response::new()) }
        #[sv::msg(reply)]
        fn reply(&self, _ctx: sylvia::types::ReplyCtx, _msg: Reply) -> StdResult<Response> { Ok(Response::new()) }
    }
}

pub mod s_exec_sudo_migr_repl_nomr_r {
    use super::*;
    pub mod eps {
        use super::super::*;
        #[sylvia::cw_schema::cw_serde]
        pub struct CustomExec {}
        #[sylvia::cw_schema::cw_serde]
        pub struct CustomSudo {}
        #[sylvia::cw_schema::cw_serde]
        pub struct CustomMigrate {}
        pub fn execute(_deps: DepsMut, _env: Env, _info: MessageInfo, _msg: CustomExec) -> StdResult<Response> { Ok(Response::new()) }
        pub fn sudo(_deps: DepsMut, _env: Env, _msg: CustomSudo) -> StdResult<Response> { Ok(Response::new()) }
        pub fn migrate(_deps: DepsMut, _env: Env, _msg: CustomMigrate) -> StdResult<Response> { Ok(Response::new()) }
        pub fn reply(_deps: DepsMut, _env: Env, _msg: Reply) -> StdResult<Response> { Ok(Response::new()) }
    }

    pub struct Contract;

    #[entry_points]
    #[contract]
    #[sv::features(replies)]
    #[sv::override_entry_point(exec=eps::execute(eps::CustomExec))]
    #[sv::override_entry_point(sudo=eps::sudo(eps::CustomSudo))]
    #[sv::override_entry_point(migrate=eps::migrate(eps::CustomMigrate))]
    #[sv::override_entry_point(reply=eps::reply(sylvia::cw_std::Reply))]
    impl Contract {
        pub fn new() -> Self { Self }
        #[sv::msg(instantiate)]
        fn instantiate(&self, _ctx: InstantiateCtx) -> StdResult<Response> { Ok(Response::new()) }
        #[sv::msg(exec)]
        fn do_exec(&self, _ctx: ExecCtx) -> StdResult<Response> { Ok(Response::new()) }
        #[sv::msg(query)]
        fn do_query(&self, _ctx: QueryCtx) -> StdResult<Resp> { Ok(Resp {}) }
        #[sv::msg(sudo)]
        fn do_sudo(&self, _ctx: SudoCtx) -> StdResult<Response> { Ok(Response::new()) }
    }
}

pub mod s_exec_sudo_migr_repl_nomr_l {
    use super::*;
    pub mod eps {
        use super::super::*;
        #[sylvia::cw_schema::cw_serde]
        pub struct CustomExec {}
        #[sylvia::cw_schema::cw_serde]
        pub struct CustomSudo {}
        #[sylvia::cw_schema::cw_serde]
        pub struct CustomMigrate {}
        pub fn execute(_deps: DepsMut, _env: Env, _info: MessageInfo, _msg: CustomExec) -> StdResult<Response> { Ok(Response::new()) }
        pub fn sudo(_deps: DepsMut, _env: Env, _msg: CustomSudo) -> StdResult<Response> { Ok(Response::new()) }
        pub fn migrate(_deps: DepsMut, _env: Env, _msg: CustomMigrate) -> StdResult<Response> { Ok(Response::new()) }
        pub fn reply(_deps: DepsMut, _env: Env, _msg: Reply) -> StdResult<Response> { Ok(Response::new()) }
    }

    pub struct Contract;

    #[entry_points]
    #[contract]
    #[sv::override_entry_point(exec=eps::execute(eps::CustomExec))]
    #[sv::override_entry_point(sudo=eps::sudo(eps::CustomSudo))]
    #[sv::override_entry_point(migrate=eps::migrate(eps::CustomMigrate))]
    #[sv::override_entry_point(reply=eps::reply(sylvia::cw_std::Reply))]
    impl Contract {
        pub fn new() -> Self { Self }
        #[sv::msg(instantiate)]
        fn instantiate(&self, _ctx: InstantiateCtx) -> StdResult<Response> { Ok(Response::new()) }
        #[sv::msg(exec)]
        fn do_exec(&self, _ctx: ExecCtx) -> StdResult<Response> { Ok(Response::new()) }
        #[sv::msg(query)]
        fn do_query(&self, _ctx: QueryCtx) -> StdResult<Resp> { Ok(Resp {}) }
        #[sv::msg(sudo)]
        fn do_sudo(&self, _ctx: SudoCtx) -> StdResult<Response> { Ok(Response::new()) }
    }
}

pub mod s_quer_sudo_migr_repl_mr_r {
    use super::*;
    pub mod eps {
        use super::super::*;
        #[sylvia::cw_schema::cw_serde]
        pub struct CustomQuery {}
        #[sylvia::cw_schema::cw_serde]
        pub struct CustomSudo {}
        #[sylvia::cw_schema::cw_serde]
        pub struct CustomMigrate {}
        pub fn query(_deps: Deps, _env: Env, _msg: CustomQuery) -> StdResult<Binary> { Ok(Binary::default()) }
        pub fn sudo(_deps: DepsMut, _env: Env, _msg: CustomSudo) -> StdResult<Response> { Ok(Response::new()) }
        pub fn migrate(_deps: DepsMut, _env: Env, _msg: CustomMigrate) -> StdResult<Response> { Ok(Response::new()) }
        pub fn reply(_deps: DepsMut, _env: Env, _msg: Reply) -> StdResult<Response> { Ok(Response::new()) }
    }

    pub struct Contract;

    #[entry_points]
    #[contract]
    #[sv::features(replies)]
    #[sv::override_entry_point(query=eps::query(eps::CustomQuery))]
    #[sv::override_entry_point(sudo=eps::sudo(eps::CustomSudo))]
    #[sv::override_entry_point(migrate=eps::migrate(eps::CustomMigrate))]
    #[sv::override_entry_point(reply=eps::reply(sylvia::cw_std::Reply))]
    impl Contract {
        pub fn new() -> Self { Self }
        #[sv::msg(instantiate)]
        fn instantiate(&self, _ctx: InstantiateCtx) -> StdResult<Response> { Ok(Response::new()) }
        #[sv::msg(exec)]
        fn do_exec(&self, _ctx: ExecCtx) -> StdResult<Response> { Ok(Response::new()) }
        #[sv::msg(query)]
        fn do_query(&self, _ctx: QueryCtx) -> StdResult<Resp> { Ok(Resp {}) }
        #[sv::msg(sudo)]
        fn do_sudo(&self, _ctx: SudoCtx) -> StdResult<Response> { Ok(Response::new()) }
        #[sv::msg(migrate)]
        fn migrate(&self, _ctx: MigrateCtx) -> StdResult<Response> { Ok(Response::new()) }
        #[sv::msg(reply, handlers=[on_done], reply_on=success)]
        fn on_done(&self, _ctx: ReplyCtx, #[sv::payload(raw)] _payload: Binary) -> StdResult<Response> { Ok(Response::new()) }
    }
}

pub mod s_quer_sudo_migr_repl_mr_l {
    use super::*;
    pub mod eps {
        use super::super::*;
        #[sylvia::cw_schema::cw_serde]
        pub struct CustomQuery {}
        #[sylvia::cw_schema::cw_serde]
        pub struct CustomSudo {}
        #[sylvia::cw_schema::cw_serde]
        pub struct CustomMigrate {}
        pub fn query(_deps: Deps, _env: Env, _msg: CustomQuery) -> StdResult<Binary> { Ok(Binary::default()) }
        pub fn sudo(_deps: DepsMut, _env: Env, _msg: CustomSudo) -> StdResult<Response> { Ok(Response::new()) }
        pub fn migrate(_deps: DepsMut, _env: Env, _msg: CustomMigrate) -> StdResult<Response> { Ok(Response::new()) }
        pub fn reply(_deps: DepsMut, _env: Env, _msg: Reply) -> StdResult<Response> { Ok(Response::new()) }
    }

    pub struct Contract;

    #[entry_points]
    #[contract]
    #[sv::override_entry_point(query=eps::query(eps::CustomQuery))]
    #[sv::override_entry_point(sudo=eps::sudo(eps::CustomSudo))]
    #[sv::override_entry_point(migrate=eps::migrate(eps::CustomMigrate))]
    #[sv::override_entry_point(reply=eps::reply(sylvia::cw_std::Reply))]
    impl Contract {
        pub fn new() -> Self { Self }
        #[sv::msg(instantiate)]
        fn instantiate(&self, _ctx: InstantiateCtx) -> StdResult<Response> { Ok(Response::new()) }
        #[sv::msg(exec)]
        fn do_exec(&self, _ctx: ExecCtx) -> StdResult<Response> { Ok(Response::new()) }
        #[sv::msg(query)]
        fn do_query(&self, _ctx: QueryCtx) -> StdResult<Resp> { Ok(Resp {}) }
        #[sv::msg(sudo)]
        fn do_sudo(&self, _ctx: SudoCtx) -> StdResult<Response> { Ok(Response::new()) }
        #[sv::msg(migrate)]
        fn migrate(&self, _ctx: MigrateCtx) -> StdResult<Response> { Ok(Response::new()) }
        #[sv::msg(reply)]
        fn reply(&self, _ctx: sylvia::types::ReplyCtx, _msg: Reply) -> StdResult<Response> { Ok(Response::new()) }
    }
}

pub mod s_quer_sudo_migr_repl_nomr_r {
    use super::*;
    pub mod eps {
        use super::super::*;
        #[sylvia::cw_schema::cw_serde]
        pub struct CustomQuery {}
        #[sylvia::cw_schema::cw_serde]
        pub struct CustomSudo {}
        #[sylvia::cw_schema::cw_serde]
        pub struct CustomMigrate {}
        pub fn query(_deps: Deps, _env: Env, _msg: CustomQuery) -> StdResult<Binary> { Ok(Binary::default()) }
        pub fn sudo(_deps: DepsMut, _env: Env, _msg: CustomSudo) -> StdResult<Response> { Ok(Response::new()) }
        pub fn migrate(_deps: DepsMut, _env: Env, _msg: CustomMigrate) -> StdResult<Response> { Ok(Response::new()) }
        pub fn reply(_deps: DepsMut, _env: Env, _msg: Reply) -> StdResult<Response> { Ok(Response::new()) }
    }

    pub struct Contract;

    #[entry_points]
    #[contract]
    #[sv::features(replies)]
    #[sv::override_entry_point(query=eps::query(eps::CustomQuery))]
    #[sv::override_entry_point(sudo=eps::sudo(eps::CustomSudo))]
    #[sv::override_entry_point(migrate=eps::migrate(eps::CustomMigrate))]
    #[sv::override_entry_point(reply=eps::reply(sylvia::cw_std::Reply))]
    impl Contract {
        pub fn new() -> Self { Self }
        #[sv::msg(instantiate)]
        fn instantiate(&self, _ctx: InstantiateCtx) -> StdResult<Response> { Ok(Response::new()) }
        #[sv::msg(exec)]
        fn do_exec(&self, _ctx: ExecCtx) -> StdResult<Response> { Ok(Response::new()) }
        #[sv::msg(query)]
        fn do_query(&self, _ctx: QueryCtx) -> StdResult<Resp> { Ok(Resp {}) }
        #[sv::msg(sudo)]
        fn do_sudo(&self, _ctx: SudoCtx) -> StdResult<Response> { Ok(Response::new()) }
    }
}

pub mod s_quer_sudo_migr_repl_nomr_l {
    use super::*;
    pub mod eps {
        use super::super::*;
        #[sylvia::cw_schema::cw_serde]
        pub struct CustomQuery {}
        #[sylvia::cw_schema::cw_serde]
        pub struct CustomSudo {}
        #[sylvia::cw_schema::cw_serde]
        pub struct CustomMigrate {}
        pub fn query(_deps: Deps, _env: Env, _msg: CustomQuery) -> StdResult<Binary> { Ok(Binary::default()) }
        pub fn sudo(_deps: DepsMut, _env: Env, _msg: CustomSudo) -> StdResult<Response> { Ok(Response::new()) }
        pub fn migrate(_deps: DepsMut, _env: Env, _msg: CustomMigrate) -> StdResult<Response> { Ok(Response::new()) }
        pub fn reply(_deps: DepsMut, _env: Env, _msg: Reply) -> StdResult<Response> { Ok(Response::new()) }
    }

    pub struct Contract;

    #[entry_points]
    #[contract]
    #[sv::override_entry_point(query=eps::query(eps::CustomQuery))]
    #[sv::override_entry_point(sudo=eps::sudo(eps::CustomSudo))]
    #[sv::override_entry_point(migrate=eps::migrate(eps::CustomMigrate))]
    #[sv::override_entry_point(reply=eps::reply(sylvia::cw_std::Reply))]
    impl Contract {
        pub fn new() -> Self { Self }
        #[sv::msg(instantiate)]
        fn instantiate(&self, _ctx: InstantiateCtx) -> StdResult<Response> { Ok(Response::new()) }
        #[sv::msg(exec)]
        fn do_exec(&self, _ctx: ExecCtx) -> StdResult<Response> { Ok(Response::new()) }
        #[sv::msg(query)]
        fn do_query(&self, _ctx: QueryCtx) -> StdResult<Resp> { Ok(Resp {}) }
        #[sv::msg(sudo)]
        fn do_sudo(&self, _ctx: SudoCtx) -> StdResult<Response> { Ok(Response::new()) }
    }
}

pub mod s_inst_exec_quer_sudo_migr_mr_r {
    use super::*;
    pub mod eps {
        use super::super::*;
        #[sylvia::cw_schema::cw_serde]
        pub struct CustomInstantiate {}
        #[sylvia::cw_schema::cw_serde]
        pub struct CustomExec {}
        #[sylvia::cw_schema::cw_serde]
        pub struct CustomQuery {}
        #[sylvia::cw_schema::cw_serde]
        pub struct CustomSudo {}
        #[sylvia::cw_schema::cw_serde]
        pub struct CustomMigrate {}
        pub fn instantiate(_deps: DepsMut, _env: Env, _info: MessageInfo, _msg: CustomInstantiate) -> StdResult<Response> { Ok(Response::new()) }
        pub fn execute(_deps: DepsMut, _env: Env, _info: MessageInfo, _msg: CustomExec) -> StdResult<Response> { Ok(Response::new()) }
        pub fn query(_deps: Deps, _env: Env, _msg: CustomQuery) -> StdResult<Binary> { Ok(Binary::default()) }
        pub fn sudo(_deps: DepsMut, _env: Env, _msg: CustomSudo) -> StdResult<Response> { Ok(Response::new()) }
        pub fn migrate(_deps: DepsMut, _env: Env, _msg: CustomMigrate) -> StdResult<Response> { Ok(Response::new()) }
    }

    pub struct Contract;

    #[entry_points]
    #[contract]
    #[sv::features(replies)]
    #[sv::override_entry_point(instantiate=eps::instantiate(eps::CustomInstantiate))]
    #[sv::override_entry_point(exec=eps::execute(eps::CustomExec))]
    #[sv::override_entry_point(query=eps::query(eps::CustomQuery))]
    #[sv::override_entry_point(sudo=eps::sudo(eps::CustomSudo))]
    #[sv::override_entry_point(migrate=eps::migrate(eps::CustomMigrate))]
    impl Contract {
        pub fn new() -> Self { Self }
        #[sv::msg(instantiate)]
        fn instantiate(&self, _ctx: InstantiateCtx) -> StdResult<Response> { Ok(Response::new()) }
        #[sv::msg(exec)]
        fn do_exec(&self, _ctx: ExecCtx) -> StdResult<Response> { Ok(Response::new()) }
        #[sv::msg(query)]
        fn do_query(&self, _ctx: QueryCtx) -> StdResult<Resp> { Ok(Resp {}) }
        #[sv::msg(sudo)]
        fn do_sudo(&self, _ctx: SudoCtx) -> StdResult<Response> { Ok(Response::new()) }
        #[sv::msg(migrate)]
        fn migrate(&self, _ctx: MigrateCtx) -> StdResult<Response> { Ok(Response::new()) }
        #[sv::msg(reply, handlers=[on_done], reply_on=success)]
        fn on_done(&self, _ctx: ReplyCtx, #[sv::payload(raw)] _payload: Binary) -> StdResult<Response> { Ok(Response::new()) }
    }
}

pub mod s_inst_exec_quer_sudo_migr_mr_l {
    use super::*;
    pub mod eps {
        use super::super::*;
        #[sylvia::cw_schema::cw_serde]
        pub struct CustomInstantiate {}
        #[sylvia::cw_schema::cw_serde]
        pub struct CustomExec {}
        #[sylvia::cw_schema::cw_serde]
        pub struct CustomQuery {}
        #[sylvia::cw_schema::cw_serde]
        pub struct CustomSudo {}
        #[sylvia::cw_schema::cw_serde]
        pub struct CustomMigrate {}
        pub fn instantiate(_deps: DepsMut, _env: Env, _info: MessageInfo, _msg: CustomInstantiate) -> StdResult<Response> { Ok(Response::new()) }
        pub fn execute(_deps: DepsMut, _env: Env, _info: MessageInfo, _msg: CustomExec) -> StdResult<Response> { Ok(Response::new()) }
        pub fn query(_deps: Deps, _env: Env, _msg: CustomQuery) -> StdResult<Binary> { Ok(Binary::default()) }
        pub fn sudo(_deps: DepsMut, _env: Env, _msg: CustomSudo) -> StdResult<Response> { Ok(Response::new()) }
        pub fn migrate(_deps: DepsMut, _env: Env, _msg: CustomMigrate) -> StdResult<Response> { Ok(Response::new()) }
    }

    pub struct Contract;

    #[entry_points]
    #[contract]
    #[sv::override_entry_point(instantiate=eps::instantiate(eps::CustomInstantiate))]
    #[sv::override_entry_point(exec=eps::execute(eps::CustomExec))]
    #[sv::override_entry_point(query=eps::query(eps::CustomQuery))]
    #[sv::override_entry_point(sudo=eps::sudo(eps::CustomSudo))]
    #[sv::override_entry_point(migrate=eps::migrate(eps::CustomMigrate))]
    impl Contract {
        pub fn new() -> Self { Self }
        #[sv::msg(instantiate)]
        fn instantiate(&self, _ctx: InstantiateCtx) -> StdResult<Response> { Ok(Response::new()) }
        #[sv::msg(exec)]
        fn do_exec(&self, _ctx: ExecCtx) -> StdResult<Response> { Ok(Response::new()) }
        #[sv::msg(query)]
        fn do_query(&self, _ctx: QueryCtx) -> StdResult<Resp> { Ok(Resp {}) }
        #[sv::msg(sudo)]
        fn do_sudo(&self, _ctx: SudoCtx) -> StdResult<Response> { Ok(Response::new()) }
        #[sv::msg(migrate)]
        fn migrate(&self, _ctx: MigrateCtx) -> StdResult<Response> { Ok(Response::new()) }
        #[sv::msg(reply)]
        fn reply(&self, _ctx: sylvia::types::ReplyCtx, _msg: Reply) -> StdResult<Response> { Ok(Response::new()) }
    }
}

pub mod s_inst_exec_quer_sudo_migr_nomr_r {
    use super::*;
    pub mod eps {
        use super::super::*;
        #[sylvia::cw_schema::cw_serde]
        pub struct CustomInstantiate {}
        #[sylvia::cw_schema::cw_serde]
        pub struct CustomExec {}
        #[sylvia::cw_schema::cw_serde]
        pub struct CustomQuery {}
        #[sylvia::cw_schema::cw_serde]
        pub struct CustomSudo {}
        #[sylvia::cw_schema::cw_serde]
        pub struct CustomMigrate {}
        pub fn instantiate(_deps: DepsMut, _env: Env, _info: MessageInfo, _msg: CustomInstantiate) -> StdResult<Response> { Ok(Response::new()) }
        pub fn execute(_deps: DepsMut, _env: Env, _info: MessageInfo, _msg: CustomExec) -> StdResult<Response> { Ok(Response::new()) }
        pub fn query(_deps: Deps, _env: Env, _msg: CustomQuery) -> StdResult<Binary> { Ok(Binary::default()) }
        pub fn sudo(_deps: DepsMut, _env: Env, _msg: CustomSudo) -> StdResult<Response> { Ok(Response::new()) }
        pub fn migrate(_deps: DepsMut, _env: Env, _msg: CustomMigrate) -> StdResult<Response> { Ok(Response::new()) }
    }

    pub struct Contract;

    #[entry_points]
    #[contract]
    #[sv::features(replies)]
    #[sv::override_entry_point(instantiate=eps::instantiate(eps::CustomInstantiate))]
    #[sv::override_entry_point(exec=eps::execute(eps::CustomExec))]
    #[sv::override_entry_point(query=eps::query(eps::CustomQuery))]
    #[sv::override_entry_point(sudo=eps::sudo(eps::CustomSudo))]
    #[sv::override_entry_point(migrate=eps::migrate(eps::CustomMigrate))]
    impl Contract {
        pub fn new() -> Self { Self }
        #[sv::msg(instantiate)]
        fn instantiate(&self, _ctx: InstantiateCtx) -> StdResult<Response> { Ok(Response::new()) }
        #[sv::msg(exec)]
        fn do_exec(&self, _ctx: ExecCtx) -> StdResult<Response> { Ok(Response::new()) }
        #[sv::msg(query)]
        fn do_query(&self, _ctx: QueryCtx) -> StdResult<Resp> { Ok(Resp {}) }
        #[sv::msg(sudo)]
        fn do_sudo(&self, _ctx: SudoCtx) -> StdResult<Response> { Ok(Response::new()) }
    }
}

pub mod s_inst_exec_quer_sudo_migr_nomr_l {
    use super::*;
    pub mod eps {
        use super::super::*;
        #[sylvia::cw_schema::cw_serde]
        pub struct CustomInstantiate {}
        #[sylvia::cw_schema::cw_serde]
        pub struct CustomExec {}
        #[sylvia::cw_schema::cw_serde]
        pub struct CustomQuery {}
        #[sylvia::cw_schema::cw_serde]
        pub struct CustomSudo {}
        #[sylvia::cw_schema::cw_serde]
        pub struct CustomMigrate {}
        pub fn instantiate(_deps: DepsMut, _env: Env, _info: MessageInfo, _msg: CustomInstantiate) -> StdResult<Response> { Ok(Response::new()) }
        pub fn execute(_deps: DepsMut, _env: Env, _info: MessageInfo, _msg: CustomExec) -> StdResult<Response> { Ok(Response::new()) }
        pub fn query(_deps: Deps, _env: Env, _msg: CustomQuery) -> StdResult<Binary> { Ok(Binary::default()) }
        pub fn sudo(_deps: DepsMut, _env: Env, _msg: CustomSudo) -> StdResult<Response> { Ok(Response::new()) }
        pub fn migrate(_deps: DepsMut, _env: Env, _msg: CustomMigrate) -> StdResult<Response> { Ok(Response::new()) }
    }

    pub struct Contract;

    #[entry_points]
    #[contract]
    #[sv::override_entry_point(instantiate=eps::instantiate(eps::CustomInstantiate))]
    #[sv::override_entry_point(exec=eps::execute(eps::CustomExec))]
    #[sv::override_entry_point(query=eps::query(eps::CustomQuery))]
    #[sv::override_entry_point(sudo=eps::sudo(eps::CustomSudo))]
    #[sv::override_entry_point(migrate=eps::migrate(eps::CustomMigrate))]
    impl Contract {
        pub fn new() -> Self { Self }
        #[sv::msg(instantiate)]
        fn instantiate(&self, _ctx: InstantiateCtx) -> StdResult<Response> { Ok(Response::new()) }
        #[sv::msg(exec)]
        fn do_exec(&self, _ctx: ExecCtx) -> StdResult<Response> { Ok(Response::new()) }
        #[sv::msg(query)]
        fn do_query(&self, _ctx: QueryCtx) -> StdResult<Resp> { Ok(Resp {}) }
        #[sv::msg(sudo)]
        fn do_sudo(&self, _ctx: SudoCtx) -> StdResult<Response> { Ok(Response::new()) }
    }
}

pub mod s_inst_exec_quer_sudo_repl_mr_r {
    use super::*;
    pub mod eps {
        use super::super::*;
        #[sylvia::cw_schema::cw_serde]
        pub struct CustomInstantiate {}
        #[sylvia::cw_schema::cw_serde]
        pub struct CustomExec {}
        #[sylvia::cw_schema::cw_serde]
        pub struct CustomQuery {}
        #[sylvia::cw_schema::cw_serde]
        pub struct CustomSudo {}
        pub fn instantiate(_deps: DepsMut, _env: Env, _info: MessageInfo, _msg: CustomInstantiate) -> StdResult<Response> { Ok(Response::new()) }
        pub fn execute(_deps: DepsMut, _env: Env, _info: MessageInfo, _msg: CustomExec) -> StdResult<Response> { Ok(Response::new()) }
        pub fn query(_deps: Deps, _env: Env, _msg: CustomQuery) -> StdResult<Binary> { Ok(Binary::default()) }
        pub fn sudo(_deps: DepsMut, _env: Env, _msg: CustomSudo) -> StdResult<Response> { Ok(Response::new()) }
        pub fn reply(_deps: DepsMut, _env: Env, _msg: Reply) -> StdResult<Response> { Ok(Response::new()) }
    }

    pub struct Contract;

    #[entry_points]
    #[contract]
    #[sv::features(replies)]
    #[sv::override_entry_point(instantiate=eps::instantiate(eps::CustomInstantiate))]
    #[sv::override_entry_point(exec=eps::execute(eps::CustomExec))]
    #[sv::override_entry_point(query=eps::query(eps::CustomQuery))]
    #[sv::override_entry_point(sudo=eps::sudo(eps::CustomSudo))]
    #[sv::override_entry_point(reply=eps::reply(sylvia::cw_std::Reply))]
    impl Contract {
        pub fn new() -> Self { Self }
        #[sv::msg(instantiate)]
        fn instantiate(&self, _ctx: InstantiateCtx) -> StdResult<Response> { Ok(Response::new()) }
        #[sv::msg(exec)]
        fn do_exec(&self, _ctx: ExecCtx) -> StdResult<Response> { Ok(Response::new()) }
        #[sv::msg(query)]
        fn do_query(&self, _ctx: QueryCtx) -> StdResult<Resp> { Ok(Resp {}) }
        #[sv::msg(sudo)]
        fn do_sudo(&self, _ctx: SudoCtx) -> StdResult<Response> { Ok(Response::new()) }
        #[sv::msg(migrate)]
        fn migrate(&self, _ctx: MigrateCtx) -> StdResult<Response> { Ok(Response::new()) }
        #[sv::msg(reply, handlers=[on_done], reply_on=success)]
        fn on_done(&self, _ctx: ReplyCtx, #[sv::payload(raw)] _payload: Binary) -> StdResult<Response> { Ok(Response::new()) }
    }
}

pub mod s_inst_exec_quer_sudo_repl_mr_l {
    use super::*;
    pub mod eps {
        use super::super::*;
        #[sylvia::cw_schema::cw_serde]
        pub struct CustomInstantiate {}
        #[sylvia::cw_schema::cw_serde]
        pub struct CustomExec {}
        #[sylvia::cw_schema::cw_serde]
        pub struct CustomQuery {}
        #[sylvia::cw_schema::cw_serde]
        pub struct CustomSudo {}
        pub fn instantiate(_deps: DepsMut, _env: Env, _info: MessageInfo, _msg: CustomInstantiate) -> StdResult<Response> { Ok(Response::new()) }
        pub fn execute(_deps: DepsMut, _env: Env, _info: MessageInfo, _msg: CustomExec) -> StdResult<Response> { Ok(Response::new()) }
        pub fn query(_deps: Deps, _env: Env, _msg: CustomQuery) -> StdResult<Binary> { Ok(Binary::default()) }
        pub fn sudo(_deps: DepsMut, _env: Env, _msg: CustomSudo) -> StdResult<Response> { Ok(Response::new()) }
        pub fn reply(_deps: DepsMut, _env: Env, _msg: Reply) -> StdResult<Response> { Ok(Response::new()) }
    }

    pub struct Contract;

    #[entry_points]
    #[contract]
    #[sv::override_entry_point(instantiate=eps::instantiate(eps::CustomInstantiate))]
    #[sv::override_entry_point(exec=eps::execute(eps::CustomExec))]
    #[sv::override_entry_point(query=eps::query(eps::CustomQuery))]
    #[sv::override_entry_point(sudo=eps::sudo(eps::CustomSudo))]
    #[sv::override_entry_point(reply=eps::reply(sylvia::cw_std::Reply))]
    impl Contract {
        pub fn new() -> Self { Self }
        #[sv::msg(instantiate)]
        fn instantiate(&self, _ctx: InstantiateCtx) -> StdResult<Response> { Ok(Response::new()) }
        #[sv::msg(exec)]
        fn do_exec(&self, _ctx: ExecCtx) -> StdResult<Response> { Ok(Response::new()) }
        #[sv::msg(query)]
        fn do_query(&self, _ctx: QueryCtx) -> StdResult<Resp> { Ok(Resp {}) }
        #[sv::msg(sudo)]
        fn do_sudo(&self, _ctx: SudoCtx) -> StdResult<Response> { Ok(Response::new()) }
        #[sv::msg(migrate)]
        fn migrate(&self, _ctx: MigrateCtx) -> StdResult<Response> { Ok(Response::new()) }
        #[sv::msg(reply)]
        fn reply(&self, _ctx: sylvia::types::ReplyCtx, _msg: Reply) -> StdResult<Response> { Ok(Response::new()) }
    }
}

pub mod s_inst_exec_quer_sudo_repl_nomr_r {
    use super::*;
    pub mod eps {
        use super::super::*;
        #[sylvia::cw_schema::cw_serde]
        pub struct CustomInstantiate {}
        #[sylvia::cw_schema::cw_serde]
        pub struct CustomExec {}
        #[sylvia::cw_schema::cw_serde]
        pub struct CustomQuery {}
        #[sylvia::cw_schema::cw_serde]
        pub struct CustomSudo {}
        pub fn instantiate(_deps: DepsMut, _env: Env, _info: MessageInfo, _msg: CustomInstantiate) -> StdResult<Response> { Ok(Response::new()) }
        pub fn execute(_deps: DepsMut, _env: Env, _info: MessageInfo, _msg: CustomExec) -> StdResult<Response> { Ok(Response::new()) }
        pub fn query(_deps: Deps, _env: Env, _msg: CustomQuery) -> StdResult<Binary> { Ok(Binary::default()) }
        pub fn sudo(_deps: DepsMut, _env: Env, _msg: CustomSudo) -> StdResult<Response> { Ok(Response::new()) }
        pub fn reply(_deps: DepsMut, _env: Env, _msg: Reply) -> StdResult<Response> { Ok(Response::new()) }
    }

    pub struct Contract;

    #[entry_points]
    #[contract]
    #[sv::features(replies)]
    #[sv::override_entry_point(instantiate=eps::instantiate(eps::CustomInstantiate))]
    #[sv::override_entry_point(exec=eps::execute(eps::CustomExec))]
    #[sv::override_entry_point(query=eps::query(eps::CustomQuery))]
    #[sv::override_entry_point(sudo=eps::sudo(eps::CustomSudo))]
    #[sv::override_entry_point(reply=eps::reply(sylvia::cw_std::Reply))]
    impl Contract {
        pub fn new() -> Self { Self }
        #[sv::msg(instantiate)]
        fn instantiate(&self, _ctx: InstantiateCtx) -> StdResult<Response> { Ok(Response::new()) }
        #[sv::msg(exec)]
        fn do_exec(&self, _ctx: ExecCtx) -> StdResult<Response> { Ok(Response::new()) }
        #[sv::msg(query)]
        fn do_query(&self, _ctx: QueryCtx) -> StdResult<Resp> { Ok(Resp {}) }
        #[sv::msg(sudo)]
        fn do_sudo(&self, _ctx: SudoCtx) -> StdResult<Response> { Ok(Response::new()) }
    }
}

pub mod s_inst_exec_quer_sudo_repl_nomr_l {
    use super::*;
    pub mod eps {
        use super::super::*;
        #[sylvia::cw_schema::cw_serde]
        pub struct CustomInstantiate {}
        #[sylvia::cw_schema::cw_serde]
        pub struct CustomExec {}
        #[sylvia::cw_schema::cw_serde]
        pub struct CustomQuery {}
        #[sylvia::cw_schema::cw_serde]
        pub struct CustomSudo {}
        pub fn instantiate(_deps: DepsMut, _env: Env, _info: MessageInfo, _msg: CustomInstantiate) -> StdResult<Response> { Ok(Response::new()) }
        pub fn execute(_deps: DepsMut, _env: Env, _info: MessageInfo, _msg: CustomExec) -> StdResult<Response> { Ok(Response::new()) }
        pub fn query(_deps: Deps, _env: Env, _msg: CustomQuery) -> StdResult<Binary> { Ok(Binary::default()) }
        pub fn sudo(_deps: DepsMut, _env: Env, _msg: CustomSudo) -> StdResult<Response> { Ok(Response::new()) }
        pub fn reply(_deps: DepsMut, _env: Env, _msg: Reply) -> StdResult<Response> { Ok(Response::new()) }
    }

    pub struct Contract;

    #[entry_points]
    #[contract]
    #[sv::override_entry_point(instantiate=eps::instantiate(eps::CustomInstantiate))]
    #[sv::override_entry_point(exec=eps::execute(eps::CustomExec))]
    #[sv::override_entry_point(query=eps::query(eps::CustomQuery))]
    #[sv::override_entry_point(sudo=eps::sudo(eps::CustomSudo))]
    #[sv::override_entry_point(reply=eps::reply(sylvia::cw_std::Reply))]
    impl Contract {
        pub fn new() -> Self { Self }
        #[sv::msg(instantiate)]
        fn instantiate(&self, _ctx: InstantiateCtx) -> StdResult<Response> { Ok(Response::new()) }
        #[sv::msg(exec)]
        fn do_exec(&self, _ctx: ExecCtx) -> StdResult<Response> { Ok(Response::new()) }
        #[sv::msg(query)]
        fn do_query(&self, _ctx: QueryCtx) -> StdResult<Resp> { Ok(Resp {}) }
        #[sv::msg(sudo)]
        fn do_sudo(&self, _ctx: SudoCtx) -> StdResult<Response> { Ok(Response::new()) }
    }
}

pub mod s_inst_exec_quer_migr_repl_mr_r {
    use super::*;
    pub mod eps {
        use super::super::*;
        #[sylvia::cw_schema::cw_serde]
        pub struct CustomInstantiate {}
        #[sylvia::cw_schema::cw_serde]
        pub struct CustomExec {}
        #[sylvia::cw_schema::cw_serde]
        pub struct CustomQuery {}
        #[sylvia::cw_schema::cw_serde]
        pub struct CustomMigrate {}
        pub fn instantiate(_deps: DepsMut, _env: Env, _info: MessageInfo, _msg: CustomInstantiate) -> StdResult<Response> { Ok(Response::new()) }
        pub fn execute(_deps: DepsMut, _env: Env, _info: MessageInfo, _msg: CustomExec) -> StdResult<Response> { Ok(Response::new()) }
        pub fn query(_deps: Deps, _env: Env, _msg: CustomQuery) -> StdResult<Binary> { Ok(Binary::default()) }
        pub fn migrate(_deps: DepsMut, _env: Env, _msg: CustomMigrate) -> StdResult<Response> { Ok(Response::new()) }
        pub fn reply(_deps: DepsMut, _env: Env, _msg: Reply) -> StdResult<Response> { Ok(Response::new()) }
    }

    pub struct Contract;

    #[entry_points]
    #[contract]
    #[sv::features(replies)]
    #[sv::override_entry_point(instantiate=eps::instantiate(eps::CustomInstantiate))]
    #[sv::override_entry_point(exec=eps::execute(eps::CustomExec))]
    #[sv::override_entry_point(query=eps::query(eps::CustomQuery))]
    #[sv::override_entry_point(migrate=eps::migrate(eps::CustomMigrate))]
    #[sv::override_entry_point(reply=eps::reply(sylvia::cw_std::Reply))]
    impl Contract {
        pub fn new() -> Self { Self }
        #[sv::msg(instantiate)]
        fn instantiate(&self, _ctx: InstantiateCtx) -> StdResult<Response> { Ok(Response::new()) }
        #[sv::msg(exec)]
        fn do_exec(&self, _ctx: ExecCtx) -> StdResult<Response> { Ok(Response::new()) }
        #[sv::msg(query)]
        fn do_query(&self, _ctx: QueryCtx) -> StdResult<Resp> { Ok(Resp {}) }
        #[sv::msg(sudo)]
        fn do_sudo(&self, _ctx: SudoCtx) -> StdResult<Response> { Ok(Response::new()) }
        #[sv::msg(migrate)]
        fn migrate(&self, _ctx: MigrateCtx) -> StdResult<Response> { Ok(Response::new()) }
        #[sv::msg(reply, handlers=[on_done], reply_on=success)]
        fn on_done(&self, _ctx: ReplyCtx, #[sv::payload(raw)] _payload: Binary) -> StdResult<Response> { Ok(Response::new()) }
    }
}

pub mod s_inst_exec_quer_migr_repl_mr_l {
    use super::*;
    pub mod eps {
        use super::super::*;
        #[sylvia::cw_schema::cw_serde]
        pub struct CustomInstantiate {}
        #[sylvia::cw_schema::cw_serde]
        pub struct CustomExec {}
        #[sylvia::cw_schema::cw_serde]
        pub struct CustomQuery {}
        #[sylvia::cw_schema::cw_serde]
        pub struct CustomMigrate {}
        pub fn instantiate(_deps: DepsMut, _env: Env, _info: MessageInfo, _msg: CustomInstantiate) -> StdResult<Response> { Ok(Response::new()) }
        pub fn execute(_deps: DepsMut, _env: Env, _info: MessageInfo, _msg: CustomExec) -> StdResult<Response> { Ok(Response::new()) }
        pub fn query(_deps: Deps, _env: Env, _msg: CustomQuery) -> StdResult<Binary> { Ok(Binary::default()) }
        pub fn migrate(_deps: DepsMut, _env: Env, _msg: CustomMigrate) -> StdResult<Response> { Ok(Response::new()) }
        pub fn reply(_deps: DepsMut, _env: Env, _msg: Reply) -> StdResult<Response> { Ok(Response::new()) }
    }

    pub struct Contract;

    #[entry_points]
    #[contract]
    #[sv::override_entry_point(instantiate=eps::instantiate(eps::CustomInstantiate))]
    #[sv::override_entry_point(exec=eps::execute(eps::CustomExec))]
    #[sv::override_entry_point(query=eps::query(eps::CustomQuery))]
    #[sv::override_entry_point(migrate=eps::migrate(eps::CustomMigrate))]
    #[sv::override_entry_point(reply=eps::reply(sylvia::cw_std::Reply))]
    impl Contract {
        pub fn new() -> Self { Self }
        #[sv::msg(instantiate)]
        fn instantiate(&self, _ctx: InstantiateCtx) -> StdResult<Response> { Ok(Response::new()) }
        #[sv::msg(exec)]
        fn do_exec(&self, _ctx: ExecCtx) -> StdResult<Response> { Ok(Response::new()) }
        #[sv::msg(query)]
        fn do_query(&self, _ctx: QueryCtx) -> StdResult<Resp> { Ok(Resp {}) }
        #[sv::msg(sudo)]
        fn do_sudo(&self, _ctx: SudoCtx) -> StdResult<Response> { Ok(Response::new()) }
        #[sv::msg(migrate)]
        fn migrate(&self, _ctx: MigrateCtx) -> StdResult<Response> { Ok(Response::new()) }
        #[sv::msg(reply)]
        fn reply(&self, _ctx: sylvia::types::ReplyCtx, _msg: Reply) -> StdResult<Response> { Ok(Response::new()) }
    }
}

pub mod s_inst_exec_quer_migr_repl_nomr_r {
    use super::*;
    pub mod eps {
        use super::super::*;
        #[sylvia::cw_schema::cw_serde]
        pub struct CustomInstantiate {}
        #[sylvia::cw_schema::cw_serde]
        pub struct CustomExec {}
        #[sylvia::cw_schema::cw_serde]
        pub struct CustomQuery {}
        #[sylvia::cw_schema::cw_serde]
        pub struct CustomMigrate {}
        pub fn instantiate(_deps: DepsMut, _env: Env, _info: MessageInfo, _msg: CustomInstantiate) -> StdResult<Response> { Ok(Response::new()) }
        pub fn execute(_deps: DepsMut, _env: Env, _info: MessageInfo, _msg: CustomExec) -> StdResult<Response> { Ok(Response::new()) }
        pub fn query(_deps: Deps, _env: Env, _msg: CustomQuery) -> StdResult<Binary> { Ok(Binary::default()) }
        pub fn migrate(_deps: DepsMut, _env: Env, _msg: CustomMigrate) -> StdResult<Response> { Ok(Response::new()) }
        pub fn reply(_deps: DepsMut, _env: Env, _msg: Reply) -> StdResult<Response> { Ok(Response::new()) }
    }

    pub struct Contract;

    #[entry_points]
    #[contract]
    #[sv::features(replies)]
    #[sv::override_entry_point(instantiate=eps::instantiate(eps::CustomInstantiate))]
    #[sv::override_entry_point(exec=eps::execute(eps::CustomExec))]
    #[sv::override_entry_point(query=eps::query(eps::CustomQuery))]
    #[sv::override_entry_point(migrate=eps::migrate(eps::CustomMigrate))]
    #[sv::override_entry_point(reply=eps::reply(sylvia::cw_std::Reply))]
    impl Contract {
        pub fn new() -> Self { Self }
        #[sv::msg(instantiate)]
        fn instantiate(&self, _ctx: InstantiateCtx) -> StdResult<Response> { Ok(Response::new()) }
        #[sv::msg(exec)]
        fn do_exec(&self, _ctx: ExecCtx) -> StdResult<Response> { Ok(Response::new()) }
        #[sv::msg(query)]
        fn do_query(&self, _ctx: QueryCtx) -> StdResult<Resp> { Ok(Resp {}) }
        #[sv::msg(sudo)]
        fn do_sudo(&self, _ctx: SudoCtx) -> StdResult<Response> { Ok(Response::new()) }
    }
}

pub mod s_inst_exec_quer_migr_repl_nomr_l {
    use super::*;
    pub mod eps {
        use super::super::*;
        #[sylvia::cw_schema::cw_serde]
        pub struct CustomInstantiate {}
        #[sylvia::cw_schema::cw_serde]
        pub struct CustomExec {}
        #[sylvia::cw_schema::cw_serde]
        pub struct CustomQuery {}
        #[sylvia::cw_schema::cw_serde]
        pub struct CustomMigrate {}
        pub fn instantiate(_deps: DepsMut, _env: Env, _info: MessageInfo, _msg: CustomInstantiate) -> StdResult<Response> { Ok(Response::new()) }
        pub fn execute(_deps: DepsMut, _env: Env, _info: MessageInfo, _msg: CustomExec) -> StdResult<Response> { Ok(Response::new()) }
        pub fn query(_deps: Deps, _env: Env, _msg: CustomQuery) -> StdResult<Binary> { Ok(Binary::default()) }
        pub fn migrate(_deps: DepsMut, _env: Env, _msg: CustomMigrate) -> StdResult<Response> { Ok(Response::new()) }
        pub fn reply(_deps: DepsMut, _env: Env, _msg: Reply) -> StdResult<Response> { Ok(Response::new()) }
    }

    pub struct Contract;

    #[entry_points]
    #[contract]
    #[sv::override_entry_point(instantiate=eps::instantiate(eps::CustomInstantiate))]
    #[sv::override_entry_point(exec=eps::execute(eps::CustomExec))]
    #[sv::override_entry_point(query=eps::query(eps::CustomQuery))]
    #[sv::override_entry_point(migrate=eps::migrate(eps::CustomMigrate))]
    #[sv::override_entry_point(reply=eps::reply(sylvia::cw_std::Reply))]
    impl Contract {
        pub fn new() -> Self { Self }
        #[sv::msg(instantiate)]
        fn instantiate(&self, _ctx: InstantiateCtx) -> StdResult<Response> { Ok(Response::new()) }
        #[sv::msg(exec)]
        fn do_exec(&self, _ctx: ExecCtx) -> StdResult<Response> { Ok(Response::new()) }
        #[sv::msg(query)]
        fn do_query(&self, _ctx: QueryCtx) -> StdResult<Resp> { Ok(Resp {}) }
        #[sv::msg(sudo)]
        fn do_sudo(&self, _ctx: SudoCtx) -> StdResult<Response> { Ok(Response::new()) }
    }
}

pub mod s_inst_exec_sudo_migr_repl_mr_r {
    use super::*;
    pub mod eps {
        use super::super::*;
        #[sylvia::cw_schema::cw_serde]
        pub struct CustomInstantiate {}
        #[sylvia::cw_schema::cw_serde]
        pub struct CustomExec {}
        #[sylvia::cw_schema::cw_serde]
        pub struct CustomSudo {}
        #[sylvia::cw_schema::cw_serde]
        pub struct CustomMigrate {}
        pub fn instantiate(_deps: DepsMut, _env: Env, _info: MessageInfo, _msg: CustomInstantiate) -> StdResult<Response> { Ok(Response::new()) }
        pub fn execute(_deps: DepsMut, _env: Env, _info: MessageInfo, _msg: CustomExec) -> StdResult<Response> { Ok(Response::new()) }
        pub fn sudo(_deps: DepsMut, _env: Env, _msg: CustomSudo) -> StdResult<Response> { Ok(Response::new()) }
        pub fn migrate(_deps: DepsMut, _env: Env, _msg: CustomMigrate) -> StdResult<Response> { Ok(Response::new()) }
        pub fn reply(_deps: DepsMut, _env: Env, _msg: Reply) -> StdResult<Response> { Ok(Response::new()) }
    }

    pub struct Contract;

    #[entry_points]
    #[contract]
    #[sv::features(replies)]
    #[sv::override_entry_point(instantiate=eps::instantiate(eps::CustomInstantiate))]
    #[sv::override_entry_point(exec=eps::execute(eps::CustomExec))]
    #[sv::override_entry_point(sudo=eps::sudo(eps::CustomSudo))]
    #[sv::override_entry_point(migrate=eps::migrate(eps::CustomMigrate))]
    #[sv::override_entry_point(reply=eps::reply(sylvia::cw_std::Reply))]
    impl Contract {
        pub fn new() -> Self { Self }
        #[sv::msg(instantiate)]
        fn instantiate(&self, _ctx: InstantiateCtx) -> StdResult<Response> { Ok(Response::new()) }
        #[sv::msg(exec)]
        fn do_exec(&self, _ctx: ExecCtx) -> StdResult<Response> { Ok(Response::new()) }
        #[sv::msg(query)]
        fn do_query(&self, _ctx: QueryCtx) -> StdResult<Resp> { Ok(Resp {}) }
        #[sv::msg(sudo)]
        fn do_sudo(&self, _ctx: SudoCtx) -> StdResult<Response> { Ok(Response::new()) }
        #[sv::msg(migrate)]
        fn migrate(&self, _ctx: MigrateCtx) -> StdResult<Response> { Ok(Response::new()) }
        #[sv::msg(reply, handlers=[on_done], reply_on=success)]
        fn on_done(&self, _ctx: ReplyCtx, #[sv::payload(raw)] _payload: Binary) -> StdResult<Response> { Ok(Response::new()) }
    }
}

pub mod s_inst_exec_sudo_migr_repl_mr_l {
    use super::*;
    pub mod eps {
        use super::super::*;
        #[sylvia::cw_schema::cw_serde]
        pub struct CustomInstantiate {}
        #[sylvia::cw_schema::cw_serde]
        pub struct CustomExec {}
        #[sylvia::cw_schema::cw_serde]
        pub struct CustomSudo {}
        #[sylvia::cw_schema::cw_serde]
        pub struct CustomMigrate {}
        pub fn instantiate(_deps: DepsMut, _env: Env, _info: MessageInfo, _msg: CustomInstantiate) -> StdResult<Response> { Ok(Response::new()) }
        pub fn execute(_deps: DepsMut, _env: Env, _info: MessageInfo, _msg: CustomExec) -> StdResult<Response> { Ok(Response::new()) }
        pub fn sudo(_deps: DepsMut, _env: Env, _msg: CustomSudo) -> StdResult<Response> { Ok(Response::new()) }
        pub fn migrate(_deps: DepsMut, _env: Env, _msg: CustomMigrate) -> StdResult<Response> { Ok(Response::new()) }
        pub fn reply(_deps: DepsMut, _env: Env, _msg: Reply) -> StdResult<Response> { Ok(Response::new()) }
    }

    pub struct Contract;

    #[entry_points]
    #[contract]
    #[sv::override_entry_point(instantiate=eps::instantiate(eps::CustomInstantiate))]
    #[sv::override_entry_point(exec=eps::execute(eps::CustomExec))]
    #[sv::override_entry_point(sudo=eps::sudo(eps::CustomSudo))]
    #[sv::override_entry_point(migrate=eps::migrate(eps::CustomMigrate))]
    #[sv::override_entry_point(reply=eps::reply(sylvia::cw_std::Reply))]
    impl Contract {
        pub fn new() -> Self { Self }
        #[sv::msg(instantiate)]
        fn instantiate(&self, _ctx: InstantiateCtx) -> StdResult<Response> { Ok(Response::new()) }
        #[sv::msg(exec)]
        fn do_exec(&self, _ctx: ExecCtx) -> StdResult<Response> { Ok(Response::new()) }
        #[sv::msg(query)]
        fn do_query(&self, _ctx: QueryCtx) -> StdResult<Resp> { Ok(Resp {}) }
        #[sv::msg(sudo)]
        fn do_sudo(&self, _ctx: SudoCtx) -> StdResult<Response> { Ok(Response::new()) }
        #[sv::msg(migrate)]
        fn migrate(&self, _ctx: MigrateCtx) -> StdResult<Response> { Ok(Response::new()) }
        #[sv::msg(reply)]
        fn reply(&self, _ctx: sylvia::types::ReplyCtx, _msg: Reply) -> StdResult<Response> { Ok(Response::new()) }
    }
}

pub mod s_inst_exec_sudo_migr_repl_nomr_r {
    use super::*;
    pub mod eps {
        use super::super::*;
        #[sylvia::cw_schema::cw_serde]
        pub struct CustomInstantiate {}
        #[sylvia::cw_schema::cw_serde]
        pub struct CustomExec {}
        #[sylvia::cw_schema::cw_serde]
        pub struct CustomSudo {}
        #[sylvia::cw_schema::cw_serde]
        pub struct CustomMigrate {}
        pub fn instantiate(_deps: DepsMut, _env: Env, _info: MessageInfo, _msg: CustomInstantiate) -> StdResult<Response> { Ok(Response::new()) }
        pub fn execute(_deps: DepsMut, _env: Env, _info: MessageInfo, _msg: CustomExec) -> StdResult<Response> { Ok(Response::new()) }
        pub fn sudo(_deps: DepsMut, _env: Env, _msg: CustomSudo) -> StdResult<Response> { Ok(Response::new()) }
        pub fn migrate(_deps: DepsMut, _env: Env, _msg: CustomMigrate) -> StdResult<Response> { Ok(Response::new()) }
        pub fn reply(_deps: DepsMut, _env: Env, _msg: Reply) -> StdResult<Response> { Ok(Response::new()) }
    }

    pub struct Contract;

    #[entry_points]
    #[contract]
    #[sv::features(replies)]
    #[sv::override_entry_point(instantiate=eps::instantiate(eps::CustomInstantiate))]
    #[sv::override_entry_point(exec=eps::execute(eps::CustomExec))]
    #[sv::override_entry_point(sudo=eps::sudo(eps::CustomSudo))]
    #[sv::override_entry_point(migrate=eps::migrate(eps::CustomMigrate))]
    #[sv::override_entry_point(reply=eps::reply(sylvia::cw_std::Reply))]
    impl Contract {
        pub fn new() -> Self { Self }
        #[sv::msg(instantiate)]
        fn instantiate(&self, _ctx: InstantiateCtx) -> StdResult<Response> { Ok(Response::new()) }
        #[sv::msg(exec)]
        fn do_exec(&self, _ctx: ExecCtx) -> StdResult<Response> { Ok(Response::new()) }
        #[sv::msg(query)]
        fn do_query(&self, _ctx: QueryCtx) -> StdResult<Resp> { Ok(Resp {}) }
        #[sv::msg(sudo)]
        fn do_sudo(&self, _ctx: SudoCtx) -> StdResult<Response> { Ok(Response::new()) }
    }
}

pub mod s_inst_exec_sudo_migr_repl_nomr_l {
    use super::*;
    pub mod eps {
        use super::super::*;
        #[sylvia::cw_schema::cw_serde]
        pub struct CustomInstantiate {}
        #[sylvia::cw_schema::cw_serde]
        pub struct CustomExec {}
        #[sylvia::cw_schema::cw_serde]
        pub struct CustomSudo {}
        #[sylvia::cw_schema::cw_serde]
        pub struct CustomMigrate {}
        pub fn instantiate(_deps: DepsMut, _env: Env, _info: MessageInfo, _msg: CustomInstantiate) -> StdResult<Response> { Ok(Response::new()) }
        pub fn execute(_deps: DepsMut, _env: Env, _info: MessageInfo, _msg: CustomExec) -> StdResult<Response> { Ok(Response::new()) }
        pub fn sudo(_deps: DepsMut, _env: Env, _msg: CustomSudo) -> StdResult<Response> { Ok(Response::new()) }
        pub fn migrate(_deps: DepsMut, _env: Env, _msg: CustomMigrate) -> StdResult<Response> { Ok(Response::new()) }
        pub fn reply(_deps: DepsMut, _env: Env, _msg: Reply) -> StdResult<Response> { Ok(Response::new()) }
    }

    pub struct Contract;

    #[entry_points]
    #[contract]
    #[sv::override_entry_point(instantiate=eps::instantiate(eps::CustomInstantiate))]
    #[sv::override_entry_point(exec=eps::execute(eps::CustomExec))]
    #[sv::override_entry_point(sudo=eps::sudo(eps::CustomSudo))]
    #[sv::override_entry_point(migrate=eps::migrate(eps::CustomMigrate))]
    #[sv::override_entry_point(reply=eps::reply(sylvia::cw_std::Reply))]
    impl Contract {
        pub fn new() -> Self { Self }
        #[sv::msg(instantiate)]
        fn instantiate(&self, _ctx: InstantiateCtx) -> StdResult<Response> { Ok(Response::new()) }
        #[sv::msg(exec)]
        fn do_exec(&self, _ctx: ExecCtx) -> StdResult<Response> { Ok(Response::new()) }
        #[sv::msg(query)]
        fn do_query(&self, _ctx: QueryCtx) -> StdResult<Resp> { Ok(Resp {}) }
        #[sv::msg(sudo)]
        fn do_sudo(&self, _ctx: SudoCtx) -> StdResult<Response> { Ok(Response::new()) }
    }
}

pub mod s_inst_quer_sudo_migr_repl_mr_r {
    use super::*;
    pub mod eps {
        use super::super::*;
        #[sylvia::cw_schema::cw_serde]
        pub struct CustomInstantiate {}
        #[sylvia::cw_schema::cw_serde]
        pub struct CustomQuery {}
        #[sylvia::cw_schema::cw_serde]
        pub struct CustomSudo {}
        #[sylvia::cw_schema::cw_serde]
        pub struct CustomMigrate {}
        pub fn instantiate(_deps: DepsMut, _env: Env, _info: MessageInfo, _msg: CustomInstantiate) -> StdResult<Response> { Ok(Response::new()) }
        pub fn query(_deps: Deps, _env: Env, _msg: CustomQuery) -> StdResult<Binary> { Ok(Binary::default()) }
        pub fn sudo(_deps: DepsMut, _env: Env, _msg: CustomSudo) -> StdResult<Response> { Ok(Response::new()) }
        pub fn migrate(_deps: DepsMut, _env: Env, _msg: CustomMigrate) -> StdResult<Response> { Ok(Response::new()) }
        pub fn reply(_deps: DepsMut, _env: Env, _msg: Reply) -> StdResult<Response> { Ok(Response::new()) }
    }

    pub struct Contract;

    #[entry_points]
    #[contract]
    #[sv::features(replies)]
    #[sv::override_entry_point(instantiate=eps::instantiate(eps::CustomInstantiate))]
    #[sv::override_entry_point(query=eps::query(eps::CustomQuery))]
    #[sv::override_entry_point(sudo=eps::sudo(eps::CustomSudo))]
    #[sv::override_entry_point(migrate=eps::migrate(eps::CustomMigrate))]
    #[sv::override_entry_point(reply=eps::reply(sylvia::cw_std::Reply))]
    impl Contract {
        pub fn new() -> Self { Self }
        #[sv::msg(instantiate)]
        fn instantiate(&self, _ctx: InstantiateCtx) -> StdResult<Response> { Ok(Response::new()) }
        #[sv::msg(exec)]
        fn do_exec(&self, _ctx: ExecCtx) -> StdResult<Response> { Ok(Response::new()) }
        #[sv::msg(query)]
        fn do_query(&self, _ctx: QueryCtx) -> StdResult<Resp> { Ok(Resp {}) }
        #[sv::msg(sudo)]
        fn do_sudo(&self, _ctx: SudoCtx) -> StdResult<Response> { Ok(Response::new()) }
        #[sv::msg(migrate)]
        fn migrate(&self, _ctx: MigrateCtx) -> StdResult<Response> { Ok(Response::new()) }
        #[sv::msg(reply, handlers=[on_done], reply_on=success)]
        fn on_done(&self, _ctx: ReplyCtx, #[sv::payload(raw)] _payload: Binary) -> StdResult<Response> { Ok(Response::new()) }
    }
}

pub mod s_inst_quer_sudo_migr_repl_mr_l {
    use super::*;
    pub mod eps {
        use super::super::*;
        #[sylvia::cw_schema::cw_serde]
        pub struct CustomInstantiate {}
        #[sylvia::cw_schema::cw_serde]
        pub struct CustomQuery {}
        #[sylvia::cw_schema::cw_serde]
        pub struct CustomSudo {}
        #[sylvia::cw_schema::cw_serde]
        pub struct CustomMigrate {}
        pub fn instantiate(_deps: DepsMut, _env: Env, _info: MessageInfo, _msg: CustomInstantiate) -> StdResult<Response> { Ok(Response::new()) }
        pub fn query(_deps: Deps, _env: Env, _msg: CustomQuery) -> StdResult<Binary> { Ok(Binary::default()) }
        pub fn sudo(_deps: DepsMut, _env: Env, _msg: CustomSudo) -> StdResult<Response> { Ok(Response::new()) }
        pub fn migrate(_deps: DepsMut, _env: Env, _msg: CustomMigrate) -> StdResult<Response> { Ok(Response::new()) }
        pub fn reply(_deps: DepsMut, _env: Env, _msg: Reply) -> StdResult<Response> { Ok(Response::new()) }
    }

    pub struct Contract;

    #[entry_points]
    #[contract]
    #[sv::override_entry_point(instantiate=eps::instantiate(eps::CustomInstantiate))]
    #[sv::override_entry_point(query=eps::query(eps::CustomQuery))]
    #[sv::override_entry_point(sudo=eps::sudo(eps::CustomSudo))]
    #[sv::override_entry_point(migrate=eps::migrate(eps::CustomMigrate))]
    #[sv::override_entry_point(reply=eps::reply(sylvia::cw_std::Reply))]
    impl Contract {
        pub fn new() -> Self { Self }
        #[sv::msg(instantiate)]
        fn instantiate(&self, _ctx: InstantiateCtx) -> StdResult<Response> { Ok(Response::new()) }
        #[sv::msg(exec)]
        fn do_exec(&self, _ctx: ExecCtx) -> StdResult<Response> { Ok(Response::new()) }
        #[sv::msg(query)]
        fn do_query(&self, _ctx: QueryCtx) -> StdResult<Resp> { Ok(Resp {}) }
        #[sv::msg(sudo)]
        fn do_sudo(&self, _ctx: SudoCtx) -> StdResult<Response> { Ok(Response::new()) }
        #[sv::msg(migrate)]
        fn migrate(&self, _ctx: MigrateCtx) -> StdResult<Response> { Ok(Response::new()) }
        #[sv::msg(reply)]
        fn reply(&self, _ctx: sylvia::types::ReplyCtx, _msg: Reply) -> StdResult<Response> { Ok(Response::new()) }
    }
}

pub mod s_inst_quer_sudo_migr_repl_nomr_r {
    use super::*;
    pub mod eps {
        use super::super::*;
        #[sylvia::cw_schema::cw_serde]
        pub struct CustomInstantiate {}
        #[sylvia::cw_schema::cw_serde]
        pub struct CustomQuery {}
        #[sylvia::cw_schema::cw_serde]
        pub struct CustomSudo {}
        #[sylvia::cw_schema::cw_serde]
        pub struct CustomMigrate {}
        pub fn instantiate(_deps: DepsMut, _env: Env, _info: MessageInfo, _msg: CustomInstantiate) -> StdResult<Response> { Ok(Response::new()) }
        pub fn query(_deps: Deps, _env: Env, _msg: CustomQuery) -> StdResult<Binary> { Ok(Binary::default()) }
        pub fn sudo(_deps: DepsMut, _env: Env, _msg: CustomSudo) -> StdResult<Response> { Ok(Response::new()) }
        pub fn migrate(_deps: DepsMut, _env: Env, _msg: CustomMigrate) -> StdResult<Response> { Ok(Response::new()) }
        pub fn reply(_deps: DepsMut, _env: Env, _msg: Reply) -> StdResult<Response> { Ok(Response::new()) }
    }

    pub struct Contract;

    #[entry_points]
    #[contract]
    #[sv::features(replies)]
    #[sv::override_entry_point(instantiate=eps::instantiate(eps::CustomInstantiate))]
    #[sv::override_entry_point(query=eps::query(eps::CustomQuery))]
    #[sv::override_entry_point(sudo=eps::sudo(eps::CustomSudo))]
    #[sv::override_entry_point(migrate=eps::migrate(eps::CustomMigrate))]
    #[sv::override_entry_point(reply=eps::reply(sylvia::cw_std::Reply))]
    impl Contract {
        pub fn new() -> Self { Self }
        #[sv::msg(instantiate)]
        fn instantiate(&self, _ctx: InstantiateCtx) -> StdResult<Response> { Ok(Response::new()) }
        #[sv::msg(exec)]
        fn do_exec(&self, _ctx: ExecCtx) -> StdResult<Response> { Ok(Response::new()) }
        #[sv::msg(query)]
        fn do_query(&self, _ctx: QueryCtx) -> StdResult<Resp> { Ok(Resp {}) }
        #[sv::msg(sudo)]
        fn do_sudo(&self, _ctx: SudoCtx) -> StdResult<Response> { Ok(Response::new()) }
    }
}

pub mod s_inst_quer_sudo_migr_repl_nomr_l {
    use super::*;
    pub mod eps {
        use super::super::*;
        #[sylvia::cw_schema::cw_serde]
        pub struct CustomInstantiate {}
        #[sylvia::cw_schema::cw_serde]
        pub struct CustomQuery {}
        #[sylvia::cw_schema::cw_serde]
        pub struct CustomSudo {}
        #[sylvia::cw_schema::cw_serde]
        pub struct CustomMigrate {}
        pub fn instantiate(_deps: DepsMut, _env: Env, _info: MessageInfo, _msg: CustomInstantiate) -> StdResult<Response> { Ok(Response::new()) }
        pub fn query(_deps: Deps, _env: Env, _msg: CustomQuery) -> StdResult<Binary> { Ok(Binary::default()) }
        pub fn sudo(_deps: DepsMut, _env: Env, _msg: CustomSudo) -> StdResult<Response> { Ok(Response::new()) }
        pub fn migrate(_deps: DepsMut, _env: Env, _msg: CustomMigrate) -> StdResult<Response> { Ok(Response::new()) }
        pub fn reply(_deps: DepsMut, _env: Env, _msg: Reply) -> StdResult<Response> { Ok(Response::new()) }
    }

    pub struct Contract;

    #[entry_points]
    #[contract]
    #[sv::override_entry_point(instantiate=eps::instantiate(eps::CustomInstantiate))]
    #[sv::override_entry_point(query=eps::query(eps::CustomQuery))]
    #[sv::override_entry_point(sudo=eps::sudo(eps::CustomSudo))]
    #[sv::override_entry_point(migrate=eps::migrate(eps::CustomMigrate))]
    #[sv::override_entry_point(reply=eps::reply(sylvia::cw_std::Reply))]
    impl Contract {
        pub fn new() -> Self { Self }
        #[sv::msg(instantiate)]
        fn instantiate(&self, _ctx: InstantiateCtx) -> StdResult<Response> { Ok(Response::new()) }
        #[sv::msg(exec)]
        fn do_exec(&self, _ctx: ExecCtx) -> StdResult<Response> { Ok(Response::new()) }
        #[sv::msg(query)]
        fn do_query(&self, _ctx: QueryCtx) -> StdResult<Resp> { Ok(Resp {}) }
        #[sv::msg(sudo)]
        fn do_sudo(&self, _ctx: SudoCtx) -> StdResult<Response> { Ok(Response::new()) }
    }
}

pub mod s_exec_quer_sudo_migr_repl_mr_r {
    use super::*;
    pub mod eps {
        use super::super::*;
        #[sylvia::cw_schema::cw_serde]
        pub struct CustomExec {}
        #[sylvia::cw_schema::cw_serde]
        pub struct CustomQuery {}
        #[sylvia::cw_schema::cw_serde]
        pub struct CustomSudo {}
        #[sylvia::cw_schema::cw_serde]
        pub struct CustomMigrate {}
        pub fn execute(_deps: DepsMut, _env: Env, _info: MessageInfo, _msg: CustomExec) -> StdResult<Response> { Ok(Response::new()) }
        pub fn query(_deps: Deps, _env: Env, _msg: CustomQuery) -> StdResult<Binary> { Ok(Binary::default()) }
        pub fn sudo(_deps: DepsMut, _env: Env, _msg: CustomSudo) -> StdResult<Response> { Ok(Response::new()) }
        pub fn migrate(_deps: DepsMut, _env: Env, _msg: CustomMigrate) -> StdResult<Response> { Ok(Response::new()) }
        pub fn reply(_deps: DepsMut, _env: Env, _msg: Reply) -> StdResult<Response> { Ok(Response::new()) }
    }

    pub struct Contract;

    #[entry_points]
    #[contract]
    #[sv::features(replies)]
    #[sv::override_entry_point(exec=eps::execute(eps::CustomExec))]
    #[sv::override_entry_point(query=eps::query(eps::CustomQuery))]
    #[sv::override_entry_point(sudo=eps::sudo(eps::CustomSudo))]
    #[sv::override_entry_point(migrate=eps::migrate(eps::CustomMigrate))]
    #[sv::override_entry_point(reply=eps::reply(sylvia::cw_std::Reply))]
    impl Contract {
        pub fn new() -> Self { Self }
        #[sv::msg(instantiate)]
        fn instantiate(&self, _ctx: InstantiateCtx) -> StdResult<Response> { Ok(Response::new()) }
        #[sv::msg(exec)]
        fn do_exec(&self, _ctx: ExecCtx) -> StdResult<Response> { Ok(Response::new()) }
        #[sv::msg(query)]
        fn do_query(&self, _ctx: QueryCtx) -> StdResult<Resp> { Ok(Resp {}) }
        #[sv::msg(sudo)]
        fn do_sudo(&self, _ctx: SudoCtx) -> StdResult<Response> { Ok(Response::new()) }
        #[sv::msg(migrate)]
        fn migrate(&self, _ctx: MigrateCtx) -> StdResult<Response> { Ok(Response::new()) }
        #[sv::msg(reply, handlers=[on_done], reply_on=success)]
        fn on_done(&self, _ctx: ReplyCtx, #[sv::payload(raw)] _payload: Binary) -> StdResult<Response> { Ok(Response::new()) }
    }
}

pub mod s_exec_quer_sudo_migr_repl_mr_l {
    use super::*;
    pub mod eps {
        use super::super::*;
        #[sylvia::cw_schema::cw_serde]
        pub struct CustomExec {}
        #[sylvia::cw_schema::cw_serde]
        pub struct CustomQuery {}
        #[sylvia::cw_schema::cw_serde]
        pub struct CustomSudo {}
        #[sylvia::cw_schema::cw_serde]
        pub struct CustomMigrate {}
        pub fn execute(_deps: DepsMut, _env: Env, _info: MessageInfo, _msg: CustomExec) -> StdResult<Response> { Ok(Response::new()) }
        pub fn query(_deps: Deps, _env: Env, _msg: CustomQuery) -> StdResult<Binary> { Ok(Binary::default()) }
        pub fn sudo(_deps: DepsMut, _env: Env, _msg: CustomSudo) -> StdResult<Response> { Ok(Response::new()) }
        pub fn migrate(_deps: DepsMut, _env: Env, _msg: CustomMigrate) -> StdResult<Response> { Ok(Response::new()) }
        pub fn reply(_deps: DepsMut, _env: Env, _msg: Reply) -> StdResult<Response> { Ok(Response::new()) }
    }

    pub struct Contract;

    #[entry_points]
    #[contract]
    #[sv::override_entry_point(exec=eps::execute(eps::CustomExec))]
    #[sv::override_entry_point(query=eps::query(eps::CustomQuery))]
    #[sv::override_entry_point(sudo=eps::sudo(eps::CustomSudo))]
    #[sv::override_entry_point(migrate=eps::migrate(eps::CustomMigrate))]
    #[sv::override_entry_point(reply=eps::reply(sylvia::cw_std::Reply))]
    impl Contract {
        pub fn new() -> Self { Self }
        #[sv::msg(instantiate)]
        fn instantiate(&self, _ctx: InstantiateCtx) -> StdResult<Response> { Ok(Response::new()) }
        #[sv::msg(exec)]
        fn do_exec(&self, _ctx: ExecCtx) -> StdResult<Response> { Ok(Response::new()) }
        #[sv::msg(query)]
        fn do_query(&self, _ctx: QueryCtx) -> StdResult<Resp> { Ok(Resp {}) }
        #[sv::msg(sudo)]
        fn do_sudo(&self, _ctx: SudoCtx) -> StdResult<Response> { Ok(Response::new()) }
        #[sv::msg(migrate)]
        fn migrate(&self, _ctx: MigrateCtx) -> StdResult<Response> { Ok(Response::new()) }
        #[sv::msg(reply)]
        fn reply(&self, _ctx: sylvia::types::ReplyCtx, _msg: Reply) -> StdResult<Response> { Ok(Response::new()) }
    }
}

pub mod s_exec_quer_sudo_migr_repl_nomr_r {
    use super::*;
    pub mod eps {
        use super::super::*;
        #[sylvia::cw_schema::cw_serde]
        pub struct CustomExec {}
        #[sylvia::cw_schema::cw_serde]
        pub struct CustomQuery {}
        #[sylvia::cw_schema::cw_serde]
        pub struct CustomSudo {}
        #[sylvia::cw_schema::cw_serde]
        pub struct CustomMigrate {}
        pub fn execute(_deps: DepsMut, _env: Env, _info: MessageInfo, _msg: CustomExec) -> StdResult<Response> { Ok(Response::new()) }
        pub fn query(_deps: Deps, _env: Env, _msg: CustomQuery) -> StdResult<Binary> { Ok(Binary::default()) }
        pub fn sudo(_deps: DepsMut, _env: Env, _msg: CustomSudo) -> StdResult<Response> { Ok(Response::new()) }
        pub fn migrate(_deps: DepsMut, _env: Env, _msg: CustomMigrate) -> StdResult<Response> { Ok(Response::new()) }
        pub fn reply(_deps: DepsMut, _env: Env, _msg: Reply) -> StdResult<Response> { Ok(Response::new()) }
    }

    pub struct Contract;

    #[entry_points]
    #[contract]
    #[sv::features(replies)]
    #[sv::override_entry_point(exec=eps::execute(eps::CustomExec))]
    #[sv::override_entry_point(query=eps::query(eps::CustomQuery))]
    #[sv::override_entry_point(sudo=eps::sudo(eps::CustomSudo))]
    #[sv::override_entry_point(migrate=eps::migrate(eps::CustomMigrate))]
    #[sv::override_entry_point(reply=eps::reply(sylvia::cw_std::Reply))]
    impl Contract {
        pub fn new() -> Self { Self }
        #[sv::msg(instantiate)]
        fn instantiate(&self, _ctx: InstantiateCtx) -> StdResult<Response> { Ok(Response::new()) }
        #[sv::msg(exec)]
        fn do_exec(&self, _ctx: ExecCtx) -> StdResult<Response> { Ok(Response::new()) }
        #[sv::msg(query)]
        fn do_query(&self, _ctx: QueryCtx) -> StdResult<Resp> { Ok(Resp {}) }
        #[sv::msg(sudo)]
        fn do_sudo(&self, _ctx: SudoCtx) -> StdResult<Response> { Ok(Response::new()) }
    }
}

pub mod s_exec_quer_sudo_migr_repl_nomr_l {
    use super::*;
    pub mod eps {
        use super::super::*;
        #[sylvia::cw_schema::cw_serde]
        pub struct CustomExec {}
        #[sylvia::cw_schema::cw_serde]
        pub struct CustomQuery {}
        #[sylvia::cw_schema::cw_serde]
        pub struct CustomSudo {}
        #[sylvia::cw_schema::cw_serde]
        pub struct CustomMigrate {}
        pub fn execute(_deps: DepsMut, _env: Env, _info: MessageInfo, _msg: CustomExec) -> StdResult<Response> { Ok(Response::new()) }
        pub fn query(_deps: Deps, _env: Env, _msg: CustomQuery) -> StdResult<Binary> { Ok(Binary::default()) }
        pub fn sudo(_deps: DepsMut, _env: Env, _msg: CustomSudo) -> StdResult<Response> { Ok(Response::new()) }
        pub fn migrate(_deps: DepsMut, _env: Env, _msg: CustomMigrate) -> StdResult<Response> { Ok(Response::new()) }
        pub fn reply(_deps: DepsMut, _env: Env, _msg: Reply) -> StdResult<Response> { Ok(Response::new()) }
    }

    pub struct Contract;

    #[entry_points]
    #[contract]
    #[sv::override_entry_point(exec=eps::execute(eps::CustomExec))]
    #[sv::override_entry_point(query=eps::query(eps::CustomQuery))]
    #[sv::override_entry_point(sudo=eps::sudo(eps::CustomSudo))]
    #[sv::override_entry_point(migrate=eps::migrate(eps::CustomMigrate))]
    #[sv::override_entry_point(reply=eps::reply(sylvia::cw_std::Reply))]
    impl Contract {
        pub fn new() -> Self { Self }
        #[sv::msg(instantiate)]
        fn instantiate(&self, _ctx: InstantiateCtx) -> StdResult<Response> { Ok(Response::new()) }
        #[sv::msg(exec)]
        fn do_exec(&self, _ctx: ExecCtx) -> StdResult<Response> { Ok(Response::new()) }
        #[sv::msg(query)]
        fn do_query(&self, _ctx: QueryCtx) -> StdResult<Resp> { Ok(Resp {}) }
        #[sv::msg(sudo)]
        fn do_sudo(&self, _ctx: SudoCtx) -> StdResult<Response> { Ok(Response::new()) }
    }
}

pub mod s_inst_exec_quer_sudo_migr_repl_mr_r {
    use super::*;
    pub mod eps {
        use super::super::*;
        #[sylvia::cw_schema::cw_serde]
        pub struct CustomInstantiate {}
        #[sylvia::cw_schema::cw_serde]
        pub struct CustomExec {}
        #[sylvia::cw_schema::cw_serde]
        pub struct CustomQuery {}
        #[sylvia::cw_schema::cw_serde]
        pub struct CustomSudo {}
        #[sylvia::cw_schema::cw_serde]
        pub struct CustomMigrate {}
        pub fn instantiate(_deps: DepsMut, _env: Env, _info: MessageInfo, _msg: CustomInstantiate) -> StdResult<Response> { Ok(Response::new()) }
        pub fn execute(_deps: DepsMut, _env: Env, _info: MessageInfo, _msg: CustomExec) -> StdResult<Response> { Ok(Response::new()) }
        pub fn query(_deps: Deps, _env: Env, _msg: CustomQuery) -> StdResult<Binary> { Ok(Binary::default()) }
        pub fn sudo(_deps: DepsMut, _env: Env, _msg: CustomSudo) -> StdResult<Response> { Ok(Response::new()) }
        pub fn migrate(_deps: DepsMut, _env: Env, _msg: CustomMigrate) -> StdResult<Response> { Ok(Response::new()) }
        pub fn reply(_deps: DepsMut, _env: Env, _msg: Reply) -> StdResult<Response> { Ok(Response::new()) }
    }

    pub struct Contract;

    #[entry_points]
    #[contract]
    #[sv::features(replies)]
    #[sv::override_entry_point(instantiate=eps::instantiate(eps::CustomInstantiate))]
    #[sv::override_entry_point(exec=eps::execute(eps::CustomExec))]
    #[sv::override_entry_point(query=eps::query(eps::CustomQuery))]
    #[sv::override_entry_point(sudo=eps::sudo(eps::CustomSudo))]
    #[sv::override_entry_point(migrate=eps::migrate(eps::CustomMigrate))]
    #[sv::override_entry_point(reply=eps::reply(sylvia::cw_std::Reply))]
    impl Contract {
        pub fn new() -> Self { Self }
        #[sv::msg(instantiate)]
        fn instantiate(&self, _ctx: InstantiateCtx) -> StdResult<Response> { Ok(Response::new()) }
        #[sv::msg(exec)]
        fn do_exec(&self, _ctx: ExecCtx) -> StdResult<Response> { Ok(Response::new()) }
        #[sv::msg(query)]
        fn do_query(&self, _ctx: QueryCtx) -> StdResult<Resp> { Ok(Resp {}) }
        #[sv::msg(sudo)]
        fn do_sudo(&self, _ctx: SudoCtx) -> StdResult<Response> { Ok(Response::new()) }
        #[sv::msg(migrate)]
        fn migrate(&self, _ctx: MigrateCtx) -> StdResult<Response> { Ok(Response::new()) }
        #[sv::msg(reply, handlers=[on_done], reply_on=success)]
        fn on_done(&self, _ctx: ReplyCtx, #[sv::payload(raw)] _payload: Binary) -> StdResult<Response> { Ok(Response::new()) }
    }
}

pub mod s_inst_exec_quer_sudo_migr_repl_mr_l {
    use super::*;
    pub mod eps {
        use super::super::*;
        #[sylvia::cw_schema::cw_serde]
        pub struct CustomInstantiate {}
        #[sylvia::cw_schema::cw_serde]
        pub struct CustomExec {}
        #[sylvia::cw_schema::cw_serde]
        pub struct CustomQuery {}
        #[sylvia::cw_schema::cw_serde]
        pub struct CustomSudo {}
        #[sylvia::cw_schema::cw_serde]
        pub struct CustomMigrate {}
        pub fn instantiate(_deps: DepsMut, _env: Env, _info: MessageInfo, _msg: CustomInstantiate) -> StdResult<Response> { Ok(Response::new()) }
        pub fn execute(_deps: DepsMut, _env: Env, _info: MessageInfo, _msg: CustomExec) -> StdResult<Response> { Ok(Response::new()) }
        pub fn query(_deps: Deps, _env: Env, _msg: CustomQuery) -> StdResult<Binary> { Ok(Binary::default()) }
        pub fn sudo(_deps: DepsMut, _env: Env, _msg: CustomSudo) -> StdResult<Response> { Ok(Response::new()) }
        pub fn migrate(_deps: DepsMut, _env: Env, _msg: CustomMigrate) -> StdResult<Response> { Ok(Response::new()) }
        pub fn reply(_deps: DepsMut, _env: Env, _msg: Reply) -> StdResult<Response> { Ok(Response::new()) }
    }

    pub struct Contract;

    #[entry_points]
    #[contract]
    #[sv::override_entry_point(instantiate=eps::instantiate(eps::CustomInstantiate))]
    #[sv::override_entry_point(exec=eps::execute(eps::CustomExec))]
    #[sv::override_entry_point(query=eps::query(eps::CustomQuery))]
    #[sv::override_entry_point(sudo=eps::sudo(eps::CustomSudo))]
    #[sv::override_entry_point(migrate=eps::migrate(eps::CustomMigrate))]
    #[sv::override_entry_point(reply=eps::reply(sylvia::cw_std::Reply))]
    impl Contract {
        pub fn new() -> Self { Self }
        #[sv::msg(instantiate)]
        fn instantiate(&self, _ctx: InstantiateCtx) -> StdResult<Response> { Ok(Response::new()) }
        #[sv::msg(exec)]
        fn do_exec(&self, _ctx: ExecCtx) -> StdResult<Response> { Ok(Response::new()) }
        #[sv::msg(query)]
        fn do_query(&self, _ctx: QueryCtx) -> StdResult<Resp> { Ok(Resp {}) }
        #[sv::msg(sudo)]
        fn do_sudo(&self, _ctx: SudoCtx) -> StdResult<Response> { Ok(Response::new()) }
        #[sv::msg(migrate)]
        fn migrate(&self, _ctx: MigrateCtx) -> StdResult<Response> { Ok(Response::new()) }
        #[sv::msg(reply)]
        fn reply(&self, _ctx: sylvia::types::ReplyCtx, _msg: Reply) -> StdResult<Response> { Ok(Response::new()) }
    }
}

pub mod s_inst_exec_quer_sudo_migr_repl_nomr_r {
    use super::*;
    pub mod eps {
        use super::super::*;
        #[sylvia::cw_schema::cw_serde]
        pub struct CustomInstantiate {}
        #[sylvia::cw_schema::cw_serde]
        pub struct CustomExec {}
        #[sylvia::cw_schema::cw_serde]
        pub struct CustomQuery {}
        #[sylvia::cw_schema::cw_serde]
        pub struct CustomSudo {}
        #[sylvia::cw_schema::cw_serde]
        pub struct CustomMigrate {}
        pub fn instantiate(_deps: DepsMut, _env: Env, _info: MessageInfo, _msg: CustomInstantiate) -> StdResult<Response> { Ok(Response::new()) }
        pub fn execute(_deps: DepsMut, _env: Env, _info: MessageInfo, _msg: CustomExec) -> StdResult<Response> { Ok(Response::new()) }
        pub fn query(_deps: Deps, _env: Env, _msg: CustomQuery) -> StdResult<Binary> { Ok(Binary::default()) }
        pub fn sudo(_deps: DepsMut, _env: Env, _msg: CustomSudo) -> StdResult<Response> { Ok(Response::new()) }
        pub fn migrate(_deps: DepsMut, _env: Env, _msg: CustomMigrate) -> StdResult<Response> { Ok(Response::new()) }
        pub fn reply(_deps: DepsMut, _env: Env, _msg: Reply) -> StdResult<Response> { Ok(Response::new()) }
    }

    pub struct Contract;

    #[entry_points]
    #[contract]
    #[sv::features(replies)]
    #[sv::override_entry_point(instantiate=eps::instantiate(eps::CustomInstantiate))]
    #[sv::override_entry_point(exec=eps::execute(eps::CustomExec))]
    #[sv::override_entry_point(query=eps::query(eps::CustomQuery))]
    #[sv::override_entry_point(sudo=eps::sudo(eps::CustomSudo))]
    #[sv::override_entry_point(migrate=eps::migrate(eps::CustomMigrate))]
    #[sv::override_entry_point(reply=eps::reply(sylvia::cw_std::Reply))]
    impl Contract {
        pub fn new() -> Self { Self }
        #[sv::msg(instantiate)]
        fn instantiate(&self, _ctx: InstantiateCtx) -> StdResult<Response> { Ok(Response::new()) }
        #[sv::msg(exec)]
        fn do_exec(&self, _ctx: ExecCtx) -> StdResult<Response> { Ok(Response::new()) }
        #[sv::msg(query)]
        fn do_query(&self, _ctx: QueryCtx) -> StdResult<Resp> { Ok(Resp {}) }
        #[sv::msg(sudo)]
        fn do_sudo(&self, _ctx: SudoCtx) -> StdResult<Response> { Ok(Response::new()) }
    }
}

pub mod s_inst_exec_quer_sudo_migr_repl_nomr_l {
    use super::*;
    pub mod eps {
        use super::super::*;
        #[sylvia::cw_schema::cw_serde]
        pub struct CustomInstantiate {}
        #[sylvia::cw_schema::cw_serde]
        pub struct CustomExec {}
        #[sylvia::cw_schema::cw_serde]
        pub struct CustomQuery {}
        #[sylvia::cw_schema::cw_serde]
        pub struct CustomSudo {}
        #[sylvia::cw_schema::cw_serde]
        pub struct CustomMigrate {}
        pub fn instantiate(_deps: DepsMut, _env: Env, _info: MessageInfo, _msg: CustomInstantiate) -> StdResult<Response> { Ok(Response::new()) }
        pub fn execute(_deps: DepsMut, _env: Env, _info: MessageInfo, _msg: CustomExec) -> StdResult<Response> { Ok(Response::new()) }
        pub fn query(_deps: Deps, _env: Env, _msg: CustomQuery) -> StdResult<Binary> { Ok(Binary::default()) }
        pub fn sudo(_deps: DepsMut, _env: Env, _msg: CustomSudo) -> StdResult<Response> { Ok(Response::new()) }
        pub fn migrate(_deps: DepsMut, _env: Env, _msg: CustomMigrate) -> StdResult<Response> { Ok(Response::new()) }
        pub fn reply(_deps: DepsMut, _env: Env, _msg: Reply) -> StdResult<Response> { Ok(Response::new()) }
    }

    pub struct Contract;

    #[entry_points]
    #[contract]
    #[sv::override_entry_point(instantiate=eps::instantiate(eps::CustomInstantiate))]
    #[sv::override_entry_point(exec=eps::execute(eps::CustomExec))]
    #[sv::override_entry_point(query=eps::query(eps::CustomQuery))]
    #[sv::override_entry_point(sudo=eps::sudo(eps::CustomSudo))]
    #[sv::override_entry_point(migrate=eps::migrate(eps::CustomMigrate))]
    #[sv::override_entry_point(reply=eps::reply(sylvia::cw_std::Reply))]
    impl Contract {
        pub fn new() -> Self { Self }
        #[sv::msg(instantiate)]
        fn instantiate(&self, _ctx: InstantiateCtx) -> StdResult<Response> { Ok(Response::new()) }
        #[sv::msg(exec)]
        fn do_exec(&self, _ctx: ExecCtx) -> StdResult<Response> { Ok(Response::new()) }
        #[sv::msg(query)]
        fn do_query(&self, _ctx: QueryCtx) -> StdResult<Resp> { Ok(Resp {}) }
        #[sv::msg(sudo)]
        fn do_sudo(&self, _ctx: SudoCtx) -> StdResult<Response> { Ok(Response::new()) }
    }
}
