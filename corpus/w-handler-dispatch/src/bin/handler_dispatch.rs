//@ props: C01
//@ expect: pass
//@ index: no
//@ what: an exec handler named `dispatch` (a lower-case word, inside C01's quantifier): the generated constructor `ExecMsg::dispatch(..)` meets the generated `ExecMsg::dispatch(self, contract, ctx)` in one impl block (E0592) - known finding D18
#![allow(dead_code, unused_variables, clippy::new_without_default)]
use sylvia::contract;
use sylvia::ctx::{ExecCtx, InstantiateCtx};
use sylvia::cw_std::{Response, StdResult};

pub struct Contract;

#[contract]
impl Contract {
    pub fn new() -> Self {
        Self
    }
    #[sv::msg(instantiate)]
    fn instantiate(&self, _ctx: InstantiateCtx) -> StdResult<Response> {
        Ok(Response::new())
    }
    #[sv::msg(exec)]
    fn dispatch(&self, _ctx: ExecCtx, order: u32) -> StdResult<Response> {
        Ok(Response::new())
    }
}

fn main() {}
