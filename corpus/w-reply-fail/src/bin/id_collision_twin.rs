//@ props: C08
//@ expect: pass
//@ what: twin of id_collision with distinct id identifiers
#![allow(dead_code)]
use sylvia::contract;
use sylvia::ctx::{InstantiateCtx, ReplyCtx};
use sylvia::cw_std::{Binary, Response, StdResult};

pub struct Contract;

#[contract]
#[sv::features(replies)]
impl Contract {
    pub fn new() -> Self {
        Self
    }
    #[sv::msg(instantiate)]
    fn instantiate(&self, _ctx: InstantiateCtx) -> StdResult<Response> {
        Ok(Response::new())
    }
    #[sv::msg(reply, handlers=[handler1], reply_on=success)]
    fn first(&self, _ctx: ReplyCtx, #[sv::payload(raw)] _payload: Binary) -> StdResult<Response> {
        Ok(Response::new())
    }
    #[sv::msg(reply, handlers=[handler_2], reply_on=error)]
    fn second(&self, _ctx: ReplyCtx, _error: String, #[sv::payload(raw)] _payload: Binary) -> StdResult<Response> {
        Ok(Response::new())
    }
}

fn main() {}
