//@ props: C08
//@ expect: fail
//@ what: handler names `handler1` and `handler_1` are distinct names but yield the same id identifier HANDLER_1_REPLY_ID; accepting the program would merge them silently (one id, one builder)
#![allow(dead_code)]
use sylvia::contract;
use sylvia::ctx::{InstantiateCtx, ReplyCtx};
use sylvia::cw_std::{Binary, Response, StdResult};

pub struct Contract;

#[contract]
#[sv::features(replies)]
impl Contract {
    pub fn new() -> Self {
        Self
    }
    #[sv::msg(instantiate)]
    fn instantiate(&self, _ctx: InstantiateCtx) -> StdResult<Response> {
        Ok(Response::new())
    }
    #[sv::msg(reply, handlers=[handler1], reply_on=success)]
    fn first(&self, _ctx: ReplyCtx, #[sv::payload(raw)] _payload: Binary) -> StdResult<Response> {
        Ok(Response::new())
    }
    #[sv::msg(reply, handlers=[handler_1], reply_on=error)] //~ ERROR
    fn second(&self, _ctx: ReplyCtx, _error: String, #[sv::payload(raw)] _payload: Binary) -> StdResult<Response> {
        Ok(Response::new())
    }
}

fn main() {}
