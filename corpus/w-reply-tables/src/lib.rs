//@ props: C07 C08 C09 C14
//@ expect: pass
//@ what: every accepted reply table with <=2 names, <=3 methods over {success,error,always}, every declaration order, data on success on/off
#![allow(dead_code, unused_imports, unused_variables, clippy::new_without_default)]
use sylvia::ctx::{ExecCtx, InstantiateCtx, QueryCtx, ReplyCtx};
use sylvia::cw_std::{Addr, Binary, Empty, Response, StdError, StdResult, SubMsgResult};
use sylvia::contract;

#[sylvia::cw_schema::cw_serde]
pub struct Payload { pub x: u32 }
#[sylvia::cw_schema::cw_serde]
pub struct Data { pub y: String }

pub mod t0 {
    use super::*;
    pub struct Contract;

    #[contract]
    #[sv::features(replies)]
    impl Contract {
        pub fn new() -> Self { Self }
        #[sv::msg(instantiate)]
        fn instantiate(&self, _ctx: InstantiateCtx) -> StdResult<Response> { Ok(Response::new()) }
        #[sv::msg(reply, handlers=[na], reply_on=success)]
        fn m0_suc(&self, _ctx: ReplyCtx, first: Payload) -> StdResult<Response> { Ok(Response::new()) }
    }
}

pub mod t1 {
    use super::*;
    pub struct Contract;

    #[contract]
    #[sv::features(replies)]
    impl Contract {
        pub fn new() -> Self { Self }
        #[sv::msg(instantiate)]
        fn instantiate(&self, _ctx: InstantiateCtx) -> StdResult<Response> { Ok(Response::new()) }
        #[sv::msg(reply, handlers=[na], reply_on=success)]
        fn m0_suc(&self, _ctx: ReplyCtx, #[sv::data(opt)] data: Option<Data>, first: Payload) -> StdResult<Response> { Ok(Response::new()) }
    }
}

pub mod t2 {
    use super::*;
    pub struct Contract;

    #[contract]
    #[sv::features(replies)]
    impl Contract {
        pub fn new() -> Self { Self }
        #[sv::msg(instantiate)]
        fn instantiate(&self, _ctx: InstantiateCtx) -> StdResult<Response> { Ok(Response::new()) }
        #[sv::msg(reply, handlers=[na], reply_on=error)]
        fn m0_err(&self, _ctx: ReplyCtx, error: String, first: Payload) -> StdResult<Response> { Ok(Response::new()) }
    }
}

pub mod t3 {
    use super::*;
    pub struct Contract;

    #[contract]
    #[sv::features(replies)]
    impl Contract {
        pub fn new() -> Self { Self }
        #[sv::msg(instantiate)]
        fn instantiate(&self, _ctx: InstantiateCtx) -> StdResult<Response> { Ok(Response::new()) }
        #[sv::msg(reply, handlers=[na], reply_on=always)]
        fn m0_alw(&self, _ctx: ReplyCtx, result: SubMsgResult, first: Payload) -> StdResult<Response> { Ok(Response::new()) }
    }
}

pub mod t4 {
    use super::*;
    pub struct Contract;

    #[contract]
    #[sv::features(replies)]
    impl Contract {
        pub fn new() -> Self { Self }
        #[sv::msg(instantiate)]
        fn instantiate(&self, _ctx: InstantiateCtx) -> StdResult<Response> { Ok(Response::new()) }
        #[sv::msg(reply, handlers=[na], reply_on=success)]
        fn m0_suc(&self, _ctx: ReplyCtx, first: Payload) -> StdResult<Response> { Ok(Response::new()) }
        #[sv::msg(reply, handlers=[na], reply_on=error)]
        fn m1_err(&self, _ctx: ReplyCtx, error: String, first: Payload) -> StdResult<Response> { Ok(Response::new()) }
    }
}

pub mod t5 {
    use super::*;
    pub struct Contract;

    #[contract]
    #[sv::features(replies)]
    impl Contract {
        pub fn new() -> Self { Self }
        #[sv::msg(instantiate)]
        fn instantiate(&self, _ctx: InstantiateCtx) -> StdResult<Response> { Ok(Response::new()) }
        #[sv::msg(reply, handlers=[na], reply_on=success)]
        fn m0_suc(&self, _ctx: ReplyCtx, #[sv::data(opt)] data: Option<Data>, first: Payload) -> StdResult<Response> { Ok(Response::new()) }
        #[sv::msg(reply, handlers=[na], reply_on=error)]
        fn m1_err(&self, _ctx: ReplyCtx, error: String, first: Payload) -> StdResult<Response> { Ok(Response::new()) }
    }
}

pub mod t6 {
    use super::*;
    pub struct Contract;

    #[contract]
    #[sv::features(replies)]
    impl Contract {
        pub fn new() -> Self { Self }
        #[sv::msg(instantiate)]
        fn instantiate(&self, _ctx: InstantiateCtx) -> StdResult<Response> { Ok(Response::new()) }
        #[sv::msg(reply, handlers=[na], reply_on=success)]
        fn m0_suc(&self, _ctx: ReplyCtx, first: Payload) -> StdResult<Response> { Ok(Response::new()) }
        #[sv::msg(reply, handlers=[nb], reply_on=success)]
        fn m1_suc(&self, _ctx: ReplyCtx, first: Payload) -> StdResult<Response> { Ok(Response::new()) }
    }
}

pub mod t7 {
    use super::*;
    pub struct Contract;

    #[contract]
    #[sv::features(replies)]
    impl Contract {
        pub fn new() -> Self { Self }
        #[sv::msg(instantiate)]
        fn instantiate(&self, _ctx: InstantiateCtx) -> StdResult<Response> { Ok(Response::new()) }
        #[sv::msg(reply, handlers=[na], reply_on=success)]
        fn m0_suc(&self, _ctx: ReplyCtx, #[sv::data(opt)] data: Option<Data>, first: Payload) -> StdResult<Response> { Ok(Response::new()) }
        #[sv::msg(reply, handlers=[nb], reply_on=success)]
        fn m1_suc(&self, _ctx: ReplyCtx, #[sv::data(opt)] data: Option<Data>, first: Payload) -> StdResult<Response> { Ok(Response::new()) }
    }
}

pub mod t8 {
    use super::*;
    pub struct Contract;

    #[contract]
    #[sv::features(replies)]
    impl Contract {
        pub fn new() -> Self { Self }
        #[sv::msg(instantiate)]
        fn instantiate(&self, _ctx: InstantiateCtx) -> StdResult<Response> { Ok(Response::new()) }
        #[sv::msg(reply, handlers=[na], reply_on=success)]
        fn m0_suc(&self, _ctx: ReplyCtx, first: Payload) -> StdResult<Response> { Ok(Response::new()) }
        #[sv::msg(reply, handlers=[nb], reply_on=error)]
        fn m1_err(&self, _ctx: ReplyCtx, error: String, first: Payload) -> StdResult<Response> { Ok(Response::new()) }
    }
}

pub mod t9 {
    use super::*;
    pub struct Contract;

    #[contract]
    #[sv::features(replies)]
    impl Contract {
        pub fn new() -> Self { Self }
        #[sv::msg(instantiate)]
        fn instantiate(&self, _ctx: InstantiateCtx) -> StdResult<Response> { Ok(Response::new()) }
        #[sv::msg(reply, handlers=[na], reply_on=success)]
        fn m0_suc(&self, _ctx: ReplyCtx, #[sv::data(opt)] data: Option<Data>, first: Payload) -> StdResult<Response> { Ok(Response::new()) }
        #[sv::msg(reply, handlers=[nb], reply_on=error)]
        fn m1_err(&self, _ctx: ReplyCtx, error: String, first: Payload) -> StdResult<Response> { Ok(Response::new()) }
    }
}

pub mod t10 {
    use super::*;
    pub struct Contract;

    #[contract]
    #[sv::features(replies)]
    impl Contract {
        pub fn new() -> Self { Self }
        #[sv::msg(instantiate)]
        fn instantiate(&self, _ctx: InstantiateCtx) -> StdResult<Response> { Ok(Response::new()) }
        #[sv::msg(reply, handlers=[na], reply_on=success)]
        fn m0_suc(&self, _ctx: ReplyCtx, first: Payload) -> StdResult<Response> { Ok(Response::new()) }
        #[sv::msg(reply, handlers=[nb], reply_on=always)]
        fn m1_alw(&self, _ctx: ReplyCtx, result: SubMsgResult, first: Payload) -> StdResult<Response> { Ok(Response::new()) }
    }
}

pub mod t11 {
    use super::*;
    pub struct Contract;

    #[contract]
    #[sv::features(replies)]
    impl Contract {
        pub fn new() -> Self { Self }
        #[sv::msg(instantiate)]
        fn instantiate(&self, _ctx: InstantiateCtx) -> StdResult<Response> { Ok(Response::new()) }
        #[sv::msg(reply, handlers=[na], reply_on=success)]
        fn m0_suc(&self, _ctx: ReplyCtx, #[sv::data(opt)] data: Option<Data>, first: Payload) -> StdResult<Response> { Ok(Response::new()) }
        #[sv::msg(reply, handlers=[nb], reply_on=always)]
        fn m1_alw(&self, _ctx: ReplyCtx, result: SubMsgResult, first: Payload) -> StdResult<Response> { Ok(Response::new()) }
    }
}

pub mod t12 {
    use super::*;
    pub struct Contract;

    #[contract]
    #[sv::features(replies)]
    impl Contract {
        pub fn new() -> Self { Self }
        #[sv::msg(instantiate)]
        fn instantiate(&self, _ctx: InstantiateCtx) -> StdResult<Response> { Ok(Response::new()) }
        #[sv::msg(reply, handlers=[na], reply_on=error)]
        fn m0_err(&self, _ctx: ReplyCtx, error: String, first: Payload) -> StdResult<Response> { Ok(Response::new()) }
        #[sv::msg(reply, handlers=[na], reply_on=success)]
        fn m1_suc(&self, _ctx: ReplyCtx, first: Payload) -> StdResult<Response> { Ok(Response::new()) }
    }
}

pub mod t13 {
    use super::*;
    pub struct Contract;

    #[contract]
    #[sv::features(replies)]
    impl Contract {
        pub fn new() -> Self { Self }
        #[sv::msg(instantiate)]
        fn instantiate(&self, _ctx: InstantiateCtx) -> StdResult<Response> { Ok(Response::new()) }
        #[sv::msg(reply, handlers=[na], reply_on=error)]
        fn m0_err(&self, _ctx: ReplyCtx, error: String, first: Payload) -> StdResult<Response> { Ok(Response::new()) }
        #[sv::msg(reply, handlers=[na], reply_on=success)]
        fn m1_suc(&self, _ctx: ReplyCtx, #[sv::data(opt)] data: Option<Data>, first: Payload) -> StdResult<Response> { Ok(Response::new()) }
    }
}

pub mod t14 {
    use super::*;
    pub struct Contract;

    #[contract]
    #[sv::features(replies)]
    impl Contract {
        pub fn new() -> Self { Self }
        #[sv::msg(instantiate)]
        fn instantiate(&self, _ctx: InstantiateCtx) -> StdResult<Response> { Ok(Response::new()) }
        #[sv::msg(reply, handlers=[na], reply_on=error)]
        fn m0_err(&self, _ctx: ReplyCtx, error: String, first: Payload) -> StdResult<Response> { Ok(Response::new()) }
        #[sv::msg(reply, handlers=[nb], reply_on=success)]
        fn m1_suc(&self, _ctx: ReplyCtx, first: Payload) -> StdResult<Response> { Ok(Response::new()) }
    }
}

pub mod t15 {
    use super::*;
    pub struct Contract;

    #[contract]
    #[sv::features(replies)]
    impl Contract {
        pub fn new() -> Self { Self }
        #[sv::msg(instantiate)]
        fn instantiate(&self, _ctx: InstantiateCtx) -> StdResult<Response> { Ok(Response::new()) }
        #[sv::msg(reply, handlers=[na], reply_on=error)]
        fn m0_err(&self, _ctx: ReplyCtx, error: String, first: Payload) -> StdResult<Response> { Ok(Response::new()) }
        #[sv::msg(reply, handlers=[nb], reply_on=success)]
        fn m1_suc(&self, _ctx: ReplyCtx, #[sv::data(opt)] data: Option<Data>, first: Payload) -> StdResult<Response> { Ok(Response::new()) }
    }
}

pub mod t16 {
    use super::*;
    pub struct Contract;

    #[contract]
    #[sv::features(replies)]
    impl Contract {
        pub fn new() -> Self { Self }
        #[sv::msg(instantiate)]
        fn instantiate(&self, _ctx: InstantiateCtx) -> StdResult<Response> { Ok(Response::new()) }
        #[sv::msg(reply, handlers=[na], reply_on=error)]
        fn m0_err(&self, _ctx: ReplyCtx, error: String, first: Payload) -> StdResult<Response> { Ok(Response::new()) }
        #[sv::msg(reply, handlers=[nb], reply_on=error)]
        fn m1_err(&self, _ctx: ReplyCtx, error: String, first: Payload) -> StdResult<Response> { Ok(Response::new()) }
    }
}

pub mod t17 {
    use super::*;
    pub struct Contract;

    #[contract]
    #[sv::features(replies)]
    impl Contract {
        pub fn new() -> Self { Self }
        #[sv::msg(instantiate)]
        fn instantiate(&self, _ctx: InstantiateCtx) -> StdResult<Response> { Ok(Response::new()) }
        #[sv::msg(reply, handlers=[na], reply_on=error)]
        fn m0_err(&self, _ctx: ReplyCtx, error: String, first: Payload) -> StdResult<Response> { Ok(Response::new()) }
        #[sv::msg(reply, handlers=[nb], reply_on=always)]
        fn m1_alw(&self, _ctx: ReplyCtx, result: SubMsgResult, first: Payload) -> StdResult<Response> { Ok(Response::new()) }
    }
}

pub mod t18 {
    use super::*;
    pub struct Contract;

    #[contract]
    #[sv::features(replies)]
    impl Contract {
        pub fn new() -> Self { Self }
        #[sv::msg(instantiate)]
        fn instantiate(&self, _ctx: InstantiateCtx) -> StdResult<Response> { Ok(Response::new()) }
        #[sv::msg(reply, handlers=[na], reply_on=always)]
        fn m0_alw(&self, _ctx: ReplyCtx, result: SubMsgResult, first: Payload) -> StdResult<Response> { Ok(Response::new()) }
        #[sv::msg(reply, handlers=[nb], reply_on=success)]
        fn m1_suc(&self, _ctx: ReplyCtx, first: Payload) -> StdResult<Response> { Ok(Response::new()) }
    }
}

pub mod t19 {
    use super::*;
    pub struct Contract;

    #[contract]
    #[sv::features(replies)]
    impl Contract {
        pub fn new() -> Self { Self }
        #[sv::msg(instantiate)]
        fn instantiate(&self, _ctx: InstantiateCtx) -> StdResult<Response> { Ok(Response::new()) }
        #[sv::msg(reply, handlers=[na], reply_on=always)]
        fn m0_alw(&self, _ctx: ReplyCtx, result: SubMsgResult, first: Payload) -> StdResult<Response> { Ok(Response::new()) }
        #[sv::msg(reply, handlers=[nb], reply_on=success)]
        fn m1_suc(&self, _ctx: ReplyCtx, #[sv::data(opt)] data: Option<Data>, first: Payload) -> StdResult<Response> { Ok(Response::new()) }
    }
}

pub mod t20 {
    use super::*;
    pub struct Contract;

    #[contract]
    #[sv::features(replies)]
    impl Contract {
        pub fn new() -> Self { Self }
        #[sv::msg(instantiate)]
        fn instantiate(&self, _ctx: InstantiateCtx) -> StdResult<Response> { Ok(Response::new()) }
        #[sv::msg(reply, handlers=[na], reply_on=always)]
        fn m0_alw(&self, _ctx: ReplyCtx, result: SubMsgResult, first: Payload) -> StdResult<Response> { Ok(Response::new()) }
        #[sv::msg(reply, handlers=[nb], reply_on=error)]
        fn m1_err(&self, _ctx: ReplyCtx, error: String, first: Payload) -> StdResult<Response> { Ok(Response::new()) }
    }
}

pub mod t21 {
    use super::*;
    pub struct Contract;

    #[contract]
    #[sv::features(replies)]
    impl Contract {
        pub fn new() -> Self { Self }
        #[sv::msg(instantiate)]
        fn instantiate(&self, _ctx: InstantiateCtx) -> StdResult<Response> { Ok(Response::new()) }
        #[sv::msg(reply, handlers=[na], reply_on=always)]
        fn m0_alw(&self, _ctx: ReplyCtx, result: SubMsgResult, first: Payload) -> StdResult<Response> { Ok(Response::new()) }
        #[sv::msg(reply, handlers=[nb], reply_on=always)]
        fn m1_alw(&self, _ctx: ReplyCtx, result: SubMsgResult, first: Payload) -> StdResult<Response> { Ok(Response::new()) }
    }
}

pub mod t22 {
    use super::*;
    pub struct Contract;

    #[contract]
    #[sv::features(replies)]
    impl Contract {
        pub fn new() -> Self { Self }
        #[sv::msg(instantiate)]
        fn instantiate(&self, _ctx: InstantiateCtx) -> StdResult<Response> { Ok(Response::new()) }
        #[sv::msg(reply, handlers=[na], reply_on=success)]
        fn m0_suc(&self, _ctx: ReplyCtx, first: Payload) -> StdResult<Response> { Ok(Response::new()) }
        #[sv::msg(reply, handlers=[na], reply_on=error)]
        fn m1_err(&self, _ctx: ReplyCtx, error: String, first: Payload) -> StdResult<Response> { Ok(Response::new()) }
        #[sv::msg(reply, handlers=[nb], reply_on=success)]
        fn m2_suc(&self, _ctx: ReplyCtx, first: Payload) -> StdResult<Response> { Ok(Response::new()) }
    }
}

pub mod t23 {
    use super::*;
    pub struct Contract;

    #[contract]
    #[sv::features(replies)]
    impl Contract {
        pub fn new() -> Self { Self }
        #[sv::msg(instantiate)]
        fn instantiate(&self, _ctx: InstantiateCtx) -> StdResult<Response> { Ok(Response::new()) }
        #[sv::msg(reply, handlers=[na], reply_on=success)]
        fn m0_suc(&self, _ctx: ReplyCtx, #[sv::data(opt)] data: Option<Data>, first: Payload) -> StdResult<Response> { Ok(Response::new()) }
        #[sv::msg(reply, handlers=[na], reply_on=error)]
        fn m1_err(&self, _ctx: ReplyCtx, error: String, first: Payload) -> StdResult<Response> { Ok(Response::new()) }
        #[sv::msg(reply, handlers=[nb], reply_on=success)]
        fn m2_suc(&self, _ctx: ReplyCtx, #[sv::data(opt)] data: Option<Data>, first: Payload) -> StdResult<Response> { Ok(Response::new()) }
    }
}

pub mod t24 {
    use super::*;
    pub struct Contract;

    #[contract]
    #[sv::features(replies)]
    impl Contract {
        pub fn new() -> Self { Self }
        #[sv::msg(instantiate)]
        fn instantiate(&self, _ctx: InstantiateCtx) -> StdResult<Response> { Ok(Response::new()) }
        #[sv::msg(reply, handlers=[na], reply_on=success)]
        fn m0_suc(&self, _ctx: ReplyCtx, first: Payload) -> StdResult<Response> { Ok(Response::new()) }
        #[sv::msg(reply, handlers=[na], reply_on=error)]
        fn m1_err(&self, _ctx: ReplyCtx, error: String, first: Payload) -> StdResult<Response> { Ok(Response::new()) }
        #[sv::msg(reply, handlers=[nb], reply_on=error)]
        fn m2_err(&self, _ctx: ReplyCtx, error: String, first: Payload) -> StdResult<Response> { Ok(Response::new()) }
    }
}

pub mod t25 {
    use super::*;
    pub struct Contract;

    #[contract]
    #[sv::features(replies)]
    impl Contract {
        pub fn new() -> Self { Self }
        #[sv::msg(instantiate)]
        fn instantiate(&self, _ctx: InstantiateCtx) -> StdResult<Response> { Ok(Response::new()) }
        #[sv::msg(reply, handlers=[na], reply_on=success)]
        fn m0_suc(&self, _ctx: ReplyCtx, #[sv::data(opt)] data: Option<Data>, first: Payload) -> StdResult<Response> { Ok(Response::new()) }
        #[sv::msg(reply, handlers=[na], reply_on=error)]
        fn m1_err(&self, _ctx: ReplyCtx, error: String, first: Payload) -> StdResult<Response> { Ok(Response::new()) }
        #[sv::msg(reply, handlers=[nb], reply_on=error)]
        fn m2_err(&self, _ctx: ReplyCtx, error: String, first: Payload) -> StdResult<Response> { Ok(Response::new()) }
    }
}

pub mod t26 {
    use super::*;
    pub struct Contract;

    #[contract]
    #[sv::features(replies)]
    impl Contract {
        pub fn new() -> Self { Self }
        #[sv::msg(instantiate)]
        fn instantiate(&self, _ctx: InstantiateCtx) -> StdResult<Response> { Ok(Response::new()) }
        #[sv::msg(reply, handlers=[na], reply_on=success)]
        fn m0_suc(&self, _ctx: ReplyCtx, first: Payload) -> StdResult<Response> { Ok(Response::new()) }
        #[sv::msg(reply, handlers=[na], reply_on=error)]
        fn m1_err(&self, _ctx: ReplyCtx, error: String, first: Payload) -> StdResult<Response> { Ok(Response::new()) }
        #[sv::msg(reply, handlers=[nb], reply_on=always)]
        fn m2_alw(&self, _ctx: ReplyCtx, result: SubMsgResult, first: Payload) -> StdResult<Response> { Ok(Response::new()) }
    }
}

pub mod t27 {
    use super::*;
    pub struct Contract;

    #[contract]
    #[sv::features(replies)]
    impl Contract {
        pub fn new() -> Self { Self }
        #[sv::msg(instantiate)]
        fn instantiate(&self, _ctx: InstantiateCtx) -> StdResult<Response> { Ok(Response::new()) }
        #[sv::msg(reply, handlers=[na], reply_on=success)]
        fn m0_suc(&self, _ctx: ReplyCtx, #[sv::data(opt)] data: Option<Data>, first: Payload) -> StdResult<Response> { Ok(Response::new()) }
        #[sv::msg(reply, handlers=[na], reply_on=error)]
        fn m1_err(&self, _ctx: ReplyCtx, error: String, first: Payload) -> StdResult<Response> { Ok(Response::new()) }
        #[sv::msg(reply, handlers=[nb], reply_on=always)]
        fn m2_alw(&self, _ctx: ReplyCtx, result: SubMsgResult, first: Payload) -> StdResult<Response> { Ok(Response::new()) }
    }
}

pub mod t28 {
    use super::*;
    pub struct Contract;

    #[contract]
    #[sv::features(replies)]
    impl Contract {
        pub fn new() -> Self { Self }
        #[sv::msg(instantiate)]
        fn instantiate(&self, _ctx: InstantiateCtx) -> StdResult<Response> { Ok(Response::new()) }
        #[sv::msg(reply, handlers=[na], reply_on=success)]
        fn m0_suc(&self, _ctx: ReplyCtx, first: Payload) -> StdResult<Response> { Ok(Response::new()) }
        #[sv::msg(reply, handlers=[nb], reply_on=success)]
        fn m1_suc(&self, _ctx: ReplyCtx, first: Payload) -> StdResult<Response> { Ok(Response::new()) }
        #[sv::msg(reply, handlers=[na], reply_on=error)]
        fn m2_err(&self, _ctx: ReplyCtx, error: String, first: Payload) -> StdResult<Response> { Ok(Response::new()) }
    }
}

pub mod t29 {
    use super::*;
    pub struct Contract;

    #[contract]
    #[sv::features(replies)]
    impl Contract {
        pub fn new() -> Self { Self }
        #[sv::msg(instantiate)]
        fn instantiate(&self, _ctx: InstantiateCtx) -> StdResult<Response> { Ok(Response::new()) }
        #[sv::msg(reply, handlers=[na], reply_on=success)]
        fn m0_suc(&self, _ctx: ReplyCtx, #[sv::data(opt)] data: Option<Data>, first: Payload) -> StdResult<Response> { Ok(Response::new()) }
        #[sv::msg(reply, handlers=[nb], reply_on=success)]
        fn m1_suc(&self, _ctx: ReplyCtx, #[sv::data(opt)] data: Option<Data>, first: Payload) -> StdResult<Response> { Ok(Response::new()) }
        #[sv::msg(reply, handlers=[na], reply_on=error)]
        fn m2_err(&self, _ctx: ReplyCtx, error: String, first: Payload) -> StdResult<Response> { Ok(Response::new()) }
    }
}

pub mod t30 {
    use super::*;
    pub struct Contract;

    #[contract]
    #[sv::features(replies)]
    impl Contract {
        pub fn new() -> Self { Self }
        #[sv::msg(instantiate)]
        fn instantiate(&self, _ctx: InstantiateCtx) -> StdResult<Response> { Ok(Response::new()) }
        #[sv::msg(reply, handlers=[na], reply_on=success)]
        fn m0_suc(&self, _ctx: ReplyCtx, first: Payload) -> StdResult<Response> { Ok(Response::new()) }
        #[sv::msg(reply, handlers=[nb], reply_on=success)]
        fn m1_suc(&self, _ctx: ReplyCtx, first: Payload) -> StdResult<Response> { Ok(Response::new()) }
        #[sv::msg(reply, handlers=[nb], reply_on=error)]
        fn m2_err(&self, _ctx: ReplyCtx, error: String, first: Payload) -> StdResult<Response> { Ok(Response::new()) }
    }
}

pub mod t31 {
    use super::*;
    pub struct Contract;

    #[contract]
    #[sv::features(replies)]
    impl Contract {
        pub fn new() -> Self { Self }
        #[sv::msg(instantiate)]
        fn instantiate(&self, _ctx: InstantiateCtx) -> StdResult<Response> { Ok(Response::new()) }
        #[sv::msg(reply, handlers=[na], reply_on=success)]
        fn m0_suc(&self, _ctx: ReplyCtx, #[sv::data(opt)] data: Option<Data>, first: Payload) -> StdResult<Response> { Ok(Response::new()) }
        #[sv::msg(reply, handlers=[nb], reply_on=success)]
        fn m1_suc(&self, _ctx: ReplyCtx, #[sv::data(opt)] data: Option<Data>, first: Payload) -> StdResult<Response> { Ok(Response::new()) }
        #[sv::msg(reply, handlers=[nb], reply_on=error)]
        fn m2_err(&self, _ctx: ReplyCtx, error: String, first: Payload) -> StdResult<Response> { Ok(Response::new()) }
    }
}

pub mod t32 {
    use super::*;
    pub struct Contract;

    #[contract]
    #[sv::features(replies)]
    impl Contract {
        pub fn new() -> Self { Self }
        #[sv::msg(instantiate)]
        fn instantiate(&self, _ctx: InstantiateCtx) -> StdResult<Response> { Ok(Response::new()) }
        #[sv::msg(reply, handlers=[na], reply_on=success)]
        fn m0_suc(&self, _ctx: ReplyCtx, first: Payload) -> StdResult<Response> { Ok(Response::new()) }
        #[sv::msg(reply, handlers=[nb], reply_on=error)]
        fn m1_err(&self, _ctx: ReplyCtx, error: String, first: Payload) -> StdResult<Response> { Ok(Response::new()) }
        #[sv::msg(reply, handlers=[na], reply_on=error)]
        fn m2_err(&self, _ctx: ReplyCtx, error: String, first: Payload) -> StdResult<Response> { Ok(Response::new()) }
    }
}

pub mod t33 {
    use super::*;
    pub struct Contract;

    #[contract]
    #[sv::features(replies)]
    impl Contract {
        pub fn new() -> Self { Self }
        #[sv::msg(instantiate)]
        fn instantiate(&self, _ctx: InstantiateCtx) -> StdResult<Response> { Ok(Response::new()) }
        #[sv::msg(reply, handlers=[na], reply_on=success)]
        fn m0_suc(&self, _ctx: ReplyCtx, #[sv::data(opt)] data: Option<Data>, first: Payload) -> StdResult<Response> { Ok(Response::new()) }
        #[sv::msg(reply, handlers=[nb], reply_on=error)]
        fn m1_err(&self, _ctx: ReplyCtx, error: String, first: Payload) -> StdResult<Response> { Ok(Response::new()) }
        #[sv::msg(reply, handlers=[na], reply_on=error)]
        fn m2_err(&self, _ctx: ReplyCtx, error: String, first: Payload) -> StdResult<Response> { Ok(Response::new()) }
    }
}

pub mod t34 {
    use super::*;
    pub struct Contract;

    #[contract]
    #[sv::features(replies)]
    impl Contract {
        pub fn new() -> Self { Self }
        #[sv::msg(instantiate)]
        fn instantiate(&self, _ctx: InstantiateCtx) -> StdResult<Response> { Ok(Response::new()) }
        #[sv::msg(reply, handlers=[na], reply_on=success)]
        fn m0_suc(&self, _ctx: ReplyCtx, first: Payload) -> StdResult<Response> { Ok(Response::new()) }
        #[sv::msg(reply, handlers=[nb], reply_on=error)]
        fn m1_err(&self, _ctx: ReplyCtx, error: String, first: Payload) -> StdResult<Response> { Ok(Response::new()) }
        #[sv::msg(reply, handlers=[nb], reply_on=success)]
        fn m2_suc(&self, _ctx: ReplyCtx, first: Payload) -> StdResult<Response> { Ok(Response::new()) }
    }
}

pub mod t35 {
    use super::*;
    pub struct Contract;

    #[contract]
    #[sv::features(replies)]
    impl Contract {
        pub fn new() -> Self { Self }
        #[sv::msg(instantiate)]
        fn instantiate(&self, _ctx: InstantiateCtx) -> StdResult<Response> { Ok(Response::new()) }
        #[sv::msg(reply, handlers=[na], reply_on=success)]
        fn m0_suc(&self, _ctx: ReplyCtx, #[sv::data(opt)] data: Option<Data>, first: Payload) -> StdResult<Response> { Ok(Response::new()) }
        #[sv::msg(reply, handlers=[nb], reply_on=error)]
        fn m1_err(&self, _ctx: ReplyCtx, error: String, first: Payload) -> StdResult<Response> { Ok(Response::new()) }
        #[sv::msg(reply, handlers=[nb], reply_on=success)]
        fn m2_suc(&self, _ctx: ReplyCtx, #[sv::data(opt)] data: Option<Data>, first: Payload) -> StdResult<Response> { Ok(Response::new()) }
    }
}

pub mod t36 {
    use super::*;
    pub struct Contract;

    #[contract]
    #[sv::features(replies)]
    impl Contract {
        pub fn new() -> Self { Self }
        #[sv::msg(instantiate)]
        fn instantiate(&self, _ctx: InstantiateCtx) -> StdResult<Response> { Ok(Response::new()) }
        #[sv::msg(reply, handlers=[na], reply_on=success)]
        fn m0_suc(&self, _ctx: ReplyCtx, first: Payload) -> StdResult<Response> { Ok(Response::new()) }
        #[sv::msg(reply, handlers=[nb], reply_on=always)]
        fn m1_alw(&self, _ctx: ReplyCtx, result: SubMsgResult, first: Payload) -> StdResult<Response> { Ok(Response::new()) }
        #[sv::msg(reply, handlers=[na], reply_on=error)]
        fn m2_err(&self, _ctx: ReplyCtx, error: String, first: Payload) -> StdResult<Response> { Ok(Response::new()) }
    }
}

pub mod t37 {
    use super::*;
    pub struct Contract;

    #[contract]
    #[sv::features(replies)]
    impl Contract {
        pub fn new() -> Self { Self }
        #[sv::msg(instantiate)]
        fn instantiate(&self, _ctx: InstantiateCtx) -> StdResult<Response> { Ok(Response::new()) }
        #[sv::msg(reply, handlers=[na], reply_on=success)]
        fn m0_suc(&self, _ctx: ReplyCtx, #[sv::data(opt)] data: Option<Data>, first: Payload) -> StdResult<Response> { Ok(Response::new()) }
        #[sv::msg(reply, handlers=[nb], reply_on=always)]
        fn m1_alw(&self, _ctx: ReplyCtx, result: SubMsgResult, first: Payload) -> StdResult<Response> { Ok(Response::new()) }
        #[sv::msg(reply, handlers=[na], reply_on=error)]
        fn m2_err(&self, _ctx: ReplyCtx, error: String, first: Payload) -> StdResult<Response> { Ok(Response::new()) }
    }
}

pub mod t38 {
    use super::*;
    pub struct Contract;

    #[contract]
    #[sv::features(replies)]
    impl Contract {
        pub fn new() -> Self { Self }
        #[sv::msg(instantiate)]
        fn instantiate(&self, _ctx: InstantiateCtx) -> StdResult<Response> { Ok(Response::new()) }
        #[sv::msg(reply, handlers=[na], reply_on=error)]
        fn m0_err(&self, _ctx: ReplyCtx, error: String, first: Payload) -> StdResult<Response> { Ok(Response::new()) }
        #[sv::msg(reply, handlers=[na], reply_on=success)]
        fn m1_suc(&self, _ctx: ReplyCtx, first: Payload) -> StdResult<Response> { Ok(Response::new()) }
        #[sv::msg(reply, handlers=[nb], reply_on=success)]
        fn m2_suc(&self, _ctx: ReplyCtx, first: Payload) -> StdResult<Response> { Ok(Response::new()) }
    }
}

pub mod t39 {
    use super::*;
    pub struct Contract;

    #[contract]
    #[sv::features(replies)]
    impl Contract {
        pub fn new() -> Self { Self }
        #[sv::msg(instantiate)]
        fn instantiate(&self, _ctx: InstantiateCtx) -> StdResult<Response> { Ok(Response::new()) }
        #[sv::msg(reply, handlers=[na], reply_on=error)]
        fn m0_err(&self, _ctx: ReplyCtx, error: String, first: Payload) -> StdResult<Response> { Ok(Response::new()) }
        #[sv::msg(reply, handlers=[na], reply_on=success)]
        fn m1_suc(&self, _ctx: ReplyCtx, #[sv::data(opt)] data: Option<Data>, first: Payload) -> StdResult<Response> { Ok(Response::new()) }
        #[sv::msg(reply, handlers=[nb], reply_on=success)]
        fn m2_suc(&self, _ctx: ReplyCtx, #[sv::data(opt)] data: Option<Data>, first: Payload) -> StdResult<Response> { Ok(Response::new()) }
    }
}

pub mod t40 {
    use super::*;
    pub struct Contract;

    #[contract]
    #[sv::features(replies)]
    impl Contract {
        pub fn new() -> Self { Self }
        #[sv::msg(instantiate)]
        fn instantiate(&self, _ctx: InstantiateCtx) -> StdResult<Response> { Ok(Response::new()) }
        #[sv::msg(reply, handlers=[na], reply_on=error)]
        fn m0_err(&self, _ctx: ReplyCtx, error: String, first: Payload) -> StdResult<Response> { Ok(Response::new()) }
        #[sv::msg(reply, handlers=[na], reply_on=success)]
        fn m1_suc(&self, _ctx: ReplyCtx, first: Payload) -> StdResult<Response> { Ok(Response::new()) }
        #[sv::msg(reply, handlers=[nb], reply_on=error)]
        fn m2_err(&self, _ctx: ReplyCtx, error: String, first: Payload) -> StdResult<Response> { Ok(Response::new()) }
    }
}

pub mod t41 {
    use super::*;
    pub struct Contract;

    #[contract]
    #[sv::features(replies)]
    impl Contract {
        pub fn new() -> Self { Self }
        #[sv::msg(instantiate)]
        fn instantiate(&self, _ctx: InstantiateCtx) -> StdResult<Response> { Ok(Response::new()) }
        #[sv::msg(reply, handlers=[na], reply_on=error)]
        fn m0_err(&self, _ctx: ReplyCtx, error: String, first: Payload) -> StdResult<Response> { Ok(Response::new()) }
        #[sv::msg(reply, handlers=[na], reply_on=success)]
        fn m1_suc(&self, _ctx: ReplyCtx, #[sv::data(opt)] data: Option<Data>, first: Payload) -> StdResult<Response> { Ok(Response::new()) }
        #[sv::msg(reply, handlers=[nb], reply_on=error)]
        fn m2_err(&self, _ctx: ReplyCtx, error: String, first: Payload) -> StdResult<Response> { Ok(Response::new()) }
    }
}

pub mod t42 {
    use super::*;
    pub struct Contract;

    #[contract]
    #[sv::features(replies)]
    impl Contract {
        pub fn new() -> Self { Self }
        #[sv::msg(instantiate)]
        fn instantiate(&self, _ctx: InstantiateCtx) -> StdResult<Response> { Ok(Response::new()) }
        #[sv::msg(reply, handlers=[na], reply_on=error)]
        fn m0_err(&self, _ctx: ReplyCtx, error: String, first: Payload) -> StdResult<Response> { Ok(Response::new()) }
        #[sv::msg(reply, handlers=[na], reply_on=success)]
        fn m1_suc(&self, _ctx: ReplyCtx, first: Payload) -> StdResult<Response> { Ok(Response::new()) }
        #[sv::msg(reply, handlers=[nb], reply_on=always)]
        fn m2_alw(&self, _ctx: ReplyCtx, result: SubMsgResult, first: Payload) -> StdResult<Response> { Ok(Response::new()) }
    }
}

pub mod t43 {
    use super::*;
    pub struct Contract;

    #[contract]
    #[sv::features(replies)]
    impl Contract {
        pub fn new() -> Self { Self }
        #[sv::msg(instantiate)]
        fn instantiate(&self, _ctx: InstantiateCtx) -> StdResult<Response> { Ok(Response::new()) }
        #[sv::msg(reply, handlers=[na], reply_on=error)]
        fn m0_err(&self, _ctx: ReplyCtx, error: String, first: Payload) -> StdResult<Response> { Ok(Response::new()) }
        #[sv::msg(reply, handlers=[na], reply_on=success)]
        fn m1_suc(&self, _ctx: ReplyCtx, #[sv::data(opt)] data: Option<Data>, first: Payload) -> StdResult<Response> { Ok(Response::new()) }
        #[sv::msg(reply, handlers=[nb], reply_on=always)]
        fn m2_alw(&self, _ctx: ReplyCtx, result: SubMsgResult, first: Payload) -> StdResult<Response> { Ok(Response::new()) }
    }
}

pub mod t44 {
    use super::*;
    pub struct Contract;

    #[contract]
    #[sv::features(replies)]
    impl Contract {
        pub fn new() -> Self { Self }
        #[sv::msg(instantiate)]
        fn instantiate(&self, _ctx: InstantiateCtx) -> StdResult<Response> { Ok(Response::new()) }
        #[sv::msg(reply, handlers=[na], reply_on=error)]
        fn m0_err(&self, _ctx: ReplyCtx, error: String, first: Payload) -> StdResult<Response> { Ok(Response::new()) }
        #[sv::msg(reply, handlers=[nb], reply_on=success)]
        fn m1_suc(&self, _ctx: ReplyCtx, first: Payload) -> StdResult<Response> { Ok(Response::new()) }
        #[sv::msg(reply, handlers=[na], reply_on=success)]
        fn m2_suc(&self, _ctx: ReplyCtx, first: Payload) -> StdResult<Response> { Ok(Response::new()) }
    }
}

pub mod t45 {
    use super::*;
    pub struct Contract;

    #[contract]
    #[sv::features(replies)]
    impl Contract {
        pub fn new() -> Self { Self }
        #[sv::msg(instantiate)]
        fn instantiate(&self, _ctx: InstantiateCtx) -> StdResult<Response> { Ok(Response::new()) }
        #[sv::msg(reply, handlers=[na], reply_on=error)]
        fn m0_err(&self, _ctx: ReplyCtx, error: String, first: Payload) -> StdResult<Response> { Ok(Response::new()) }
        #[sv::msg(reply, handlers=[nb], reply_on=success)]
        fn m1_suc(&self, _ctx: ReplyCtx, #[sv::data(opt)] data: Option<Data>, first: Payload) -> StdResult<Response> { Ok(Response::new()) }
        #[sv::msg(reply, handlers=[na], reply_on=success)]
        fn m2_suc(&self, _ctx: ReplyCtx, #[sv::data(opt)] data: Option<Data>, first: Payload) -> StdResult<Response> { Ok(Response::new()) }
    }
}

pub mod t46 {
    use super::*;
    pub struct Contract;

    #[contract]
    #[sv::features(replies)]
    impl Contract {
        pub fn new() -> Self { Self }
        #[sv::msg(instantiate)]
        fn instantiate(&self, _ctx: InstantiateCtx) -> StdResult<Response> { Ok(Response::new()) }
        #[sv::msg(reply, handlers=[na], reply_on=error)]
        fn m0_err(&self, _ctx: ReplyCtx, error: String, first: Payload) -> StdResult<Response> { Ok(Response::new()) }
        #[sv::msg(reply, handlers=[nb], reply_on=success)]
        fn m1_suc(&self, _ctx: ReplyCtx, first: Payload) -> StdResult<Response> { Ok(Response::new()) }
        #[sv::msg(reply, handlers=[nb], reply_on=error)]
        fn m2_err(&self, _ctx: ReplyCtx, error: String, first: Payload) -> StdResult<Response> { Ok(Response::new()) }
    }
}

pub mod t47 {
    use super::*;
    pub struct Contract;

    #[contract]
    #[sv::features(replies)]
    impl Contract {
        pub fn new() -> Self { Self }
        #[sv::msg(instantiate)]
        fn instantiate(&self, _ctx: InstantiateCtx) -> StdResult<Response> { Ok(Response::new()) }
        #[sv::msg(reply, handlers=[na], reply_on=error)]
        fn m0_err(&self, _ctx: ReplyCtx, error: String, first: Payload) -> StdResult<Response> { Ok(Response::new()) }
        #[sv::msg(reply, handlers=[nb], reply_on=success)]
        fn m1_suc(&self, _ctx: ReplyCtx, #[sv::data(opt)] data: Option<Data>, first: Payload) -> StdResult<Response> { Ok(Response::new()) }
        #[sv::msg(reply, handlers=[nb], reply_on=error)]
        fn m2_err(&self, _ctx: ReplyCtx, error: String, first: Payload) -> StdResult<Response> { Ok(Response::new()) }
    }
}

pub mod t48 {
    use super::*;
    pub struct Contract;

    #[contract]
    #[sv::features(replies)]
    impl Contract {
        pub fn new() -> Self { Self }
        #[sv::msg(instantiate)]
        fn instantiate(&self, _ctx: InstantiateCtx) -> StdResult<Response> { Ok(Response::new()) }
        #[sv::msg(reply, handlers=[na], reply_on=error)]
        fn m0_err(&self, _ctx: ReplyCtx, error: String, first: Payload) -> StdResult<Response> { Ok(Response::new()) }
        #[sv::msg(reply, handlers=[nb], reply_on=error)]
        fn m1_err(&self, _ctx: ReplyCtx, error: String, first: Payload) -> StdResult<Response> { Ok(Response::new()) }
        #[sv::msg(reply, handlers=[na], reply_on=success)]
        fn m2_suc(&self, _ctx: ReplyCtx, first: Payload) -> StdResult<Response> { Ok(Response::new()) }
    }
}

pub mod t49 {
    use super::*;
    pub struct Contract;

    #[contract]
    #[sv::features(replies)]
    impl Contract {
        pub fn new() -> Self { Self }
        #[sv::msg(instantiate)]
        fn instantiate(&self, _ctx: InstantiateCtx) -> StdResult<Response> { Ok(Response::new()) }
        #[sv::msg(reply, handlers=[na], reply_on=error)]
        fn m0_err(&self, _ctx: ReplyCtx, error: String, first: Payload) -> StdResult<Response> { Ok(Response::new()) }
        #[sv::msg(reply, handlers=[nb], reply_on=error)]
        fn m1_err(&self, _ctx: ReplyCtx, error: String, first: Payload) -> StdResult<Response> { Ok(Response::new()) }
        #[sv::msg(reply, handlers=[na], reply_on=success)]
        fn m2_suc(&self, _ctx: ReplyCtx, #[sv::data(opt)] data: Option<Data>, first: Payload) -> StdResult<Response> { Ok(Response::new()) }
    }
}

pub mod t50 {
    use super::*;
    pub struct Contract;

    #[contract]
    #[sv::features(replies)]
    impl Contract {
        pub fn new() -> Self { Self }
        #[sv::msg(instantiate)]
        fn instantiate(&self, _ctx: InstantiateCtx) -> StdResult<Response> { Ok(Response::new()) }
        #[sv::msg(reply, handlers=[na], reply_on=error)]
        fn m0_err(&self, _ctx: ReplyCtx, error: String, first: Payload) -> StdResult<Response> { Ok(Response::new()) }
        #[sv::msg(reply, handlers=[nb], reply_on=error)]
        fn m1_err(&self, _ctx: ReplyCtx, error: String, first: Payload) -> StdResult<Response> { Ok(Response::new()) }
        #[sv::msg(reply, handlers=[nb], reply_on=success)]
        fn m2_suc(&self, _ctx: ReplyCtx, first: Payload) -> StdResult<Response> { Ok(Response::new()) }
    }
}

pub mod t51 {
    use super::*;
    pub struct Contract;

    #[contract]
    #[sv::features(replies)]
    impl Contract {
        pub fn new() -> Self { Self }
        #[sv::msg(instantiate)]
        fn instantiate(&self, _ctx: InstantiateCtx) -> StdResult<Response> { Ok(Response::new()) }
        #[sv::msg(reply, handlers=[na], reply_on=error)]
        fn m0_err(&self, _ctx: ReplyCtx, error: String, first: Payload) -> StdResult<Response> { Ok(Response::new()) }
        #[sv::msg(reply, handlers=[nb], reply_on=error)]
        fn m1_err(&self, _ctx: ReplyCtx, error: String, first: Payload) -> StdResult<Response> { Ok(Response::new()) }
        #[sv::msg(reply, handlers=[nb], reply_on=success)]
        fn m2_suc(&self, _ctx: ReplyCtx, #[sv::data(opt)] data: Option<Data>, first: Payload) -> StdResult<Response> { Ok(Response::new()) }
    }
}

pub mod t52 {
    use super::*;
    pub struct Contract;

    #[contract]
    #[sv::features(replies)]
    impl Contract {
        pub fn new() -> Self { Self }
        #[sv::msg(instantiate)]
        fn instantiate(&self, _ctx: InstantiateCtx) -> StdResult<Response> { Ok(Response::new()) }
        #[sv::msg(reply, handlers=[na], reply_on=error)]
        fn m0_err(&self, _ctx: ReplyCtx, error: String, first: Payload) -> StdResult<Response> { Ok(Response::new()) }
        #[sv::msg(reply, handlers=[nb], reply_on=always)]
        fn m1_alw(&self, _ctx: ReplyCtx, result: SubMsgResult, first: Payload) -> StdResult<Response> { Ok(Response::new()) }
        #[sv::msg(reply, handlers=[na], reply_on=success)]
        fn m2_suc(&self, _ctx: ReplyCtx, first: Payload) -> StdResult<Response> { Ok(Response::new()) }
    }
}

pub mod t53 {
    use super::*;
    pub struct Contract;

    #[contract]
    #[sv::features(replies)]
    impl Contract {
        pub fn new() -> Self { Self }
        #[sv::msg(instantiate)]
        fn instantiate(&self, _ctx: InstantiateCtx) -> StdResult<Response> { Ok(Response::new()) }
        #[sv::msg(reply, handlers=[na], reply_on=error)]
        fn m0_err(&self, _ctx: ReplyCtx, error: String, first: Payload) -> StdResult<Response> { Ok(Response::new()) }
        #[sv::msg(reply, handlers=[nb], reply_on=always)]
        fn m1_alw(&self, _ctx: ReplyCtx, result: SubMsgResult, first: Payload) -> StdResult<Response> { Ok(Response::new()) }
        #[sv::msg(reply, handlers=[na], reply_on=success)]
        fn m2_suc(&self, _ctx: ReplyCtx, #[sv::data(opt)] data: Option<Data>, first: Payload) -> StdResult<Response> { Ok(Response::new()) }
    }
}

pub mod t54 {
    use super::*;
    pub struct Contract;

    #[contract]
    #[sv::features(replies)]
    impl Contract {
        pub fn new() -> Self { Self }
        #[sv::msg(instantiate)]
        fn instantiate(&self, _ctx: InstantiateCtx) -> StdResult<Response> { Ok(Response::new()) }
        #[sv::msg(reply, handlers=[na], reply_on=always)]
        fn m0_alw(&self, _ctx: ReplyCtx, result: SubMsgResult, first: Payload) -> StdResult<Response> { Ok(Response::new()) }
        #[sv::msg(reply, handlers=[nb], reply_on=success)]
        fn m1_suc(&self, _ctx: ReplyCtx, first: Payload) -> StdResult<Response> { Ok(Response::new()) }
        #[sv::msg(reply, handlers=[nb], reply_on=error)]
        fn m2_err(&self, _ctx: ReplyCtx, error: String, first: Payload) -> StdResult<Response> { Ok(Response::new()) }
    }
}

pub mod t55 {
    use super::*;
    pub struct Contract;

    #[contract]
    #[sv::features(replies)]
    impl Contract {
        pub fn new() -> Self { Self }
        #[sv::msg(instantiate)]
        fn instantiate(&self, _ctx: InstantiateCtx) -> StdResult<Response> { Ok(Response::new()) }
        #[sv::msg(reply, handlers=[na], reply_on=always)]
        fn m0_alw(&self, _ctx: ReplyCtx, result: SubMsgResult, first: Payload) -> StdResult<Response> { Ok(Response::new()) }
        #[sv::msg(reply, handlers=[nb], reply_on=success)]
        fn m1_suc(&self, _ctx: ReplyCtx, #[sv::data(opt)] data: Option<Data>, first: Payload) -> StdResult<Response> { Ok(Response::new()) }
        #[sv::msg(reply, handlers=[nb], reply_on=error)]
        fn m2_err(&self, _ctx: ReplyCtx, error: String, first: Payload) -> StdResult<Response> { Ok(Response::new()) }
    }
}

pub mod t56 {
    use super::*;
    pub struct Contract;

    #[contract]
    #[sv::features(replies)]
    impl Contract {
        pub fn new() -> Self { Self }
        #[sv::msg(instantiate)]
        fn instantiate(&self, _ctx: InstantiateCtx) -> StdResult<Response> { Ok(Response::new()) }
        #[sv::msg(reply, handlers=[na], reply_on=always)]
        fn m0_alw(&self, _ctx: ReplyCtx, result: SubMsgResult, first: Payload) -> StdResult<Response> { Ok(Response::new()) }
        #[sv::msg(reply, handlers=[nb], reply_on=error)]
        fn m1_err(&self, _ctx: ReplyCtx, error: String, first: Payload) -> StdResult<Response> { Ok(Response::new()) }
        #[sv::msg(reply, handlers=[nb], reply_on=success)]
        fn m2_suc(&self, _ctx: ReplyCtx, first: Payload) -> StdResult<Response> { Ok(Response::new()) }
    }
}

pub mod t57 {
    use super::*;
    pub struct Contract;

    #[contract]
    #[sv::features(replies)]
    impl Contract {
        pub fn new() -> Self { Self }
        #[sv::msg(instantiate)]
        fn instantiate(&self, _ctx: InstantiateCtx) -> StdResult<Response> { Ok(Response::new()) }
        #[sv::msg(reply, handlers=[na], reply_on=always)]
        fn m0_alw(&self, _ctx: ReplyCtx, result: SubMsgResult, first: Payload) -> StdResult<Response> { Ok(Response::new()) }
        #[sv::msg(reply, handlers=[nb], reply_on=error)]
        fn m1_err(&self, _ctx: ReplyCtx, error: String, first: Payload) -> StdResult<Response> { Ok(Response::new()) }
        #[sv::msg(reply, handlers=[nb], reply_on=success)]
        fn m2_suc(&self, _ctx: ReplyCtx, #[sv::data(opt)] data: Option<Data>, first: Payload) -> StdResult<Response> { Ok(Response::new()) }
    }
}
