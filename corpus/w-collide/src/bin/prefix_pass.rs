//@ props: C05
//@ expect: pass
//@ index: no
//@ what: a name that is a prefix of another (`a` / `aa` / `ab` / `a_b`) is not a collision
#![allow(dead_code)]
use sylvia::ctx::{ExecCtx, InstantiateCtx, QueryCtx, SudoCtx};
use sylvia::cw_std::{Response, StdError, StdResult};
use sylvia::{contract, interface};

#[sylvia::cw_schema::cw_serde]
pub struct Resp {}

pub mod ia {
    use super::*;
    #[interface]
    #[sv::custom(msg = sylvia::cw_std::Empty, query = sylvia::cw_std::Empty)]
    pub trait Ia {
        type Error: From<StdError>;
        #[sv::msg(exec)]
        fn a(&self, ctx: ExecCtx) -> Result<Response, Self::Error>;
        #[sv::msg(exec)]
        fn ab(&self, ctx: ExecCtx) -> Result<Response, Self::Error>;
    }
}
pub struct Contract;

impl ia::Ia for Contract {
    type Error = StdError;
    fn a(&self, _ctx: ExecCtx) -> StdResult<Response> {
        Ok(Response::new())
    }
    fn ab(&self, _ctx: ExecCtx) -> StdResult<Response> {
        Ok(Response::new())
    }
}

#[contract]
#[sv::messages(ia)]
impl Contract {
    pub const fn new() -> Self {
        Self
    }
    #[sv::msg(instantiate)]
    fn instantiate(&self, _ctx: InstantiateCtx) -> StdResult<Response> {
        Ok(Response::new())
    }
    #[sv::msg(exec)]
    fn aa(&self, _ctx: ExecCtx) -> StdResult<Response> {
        Ok(Response::new())
    }
    #[sv::msg(exec)]
    fn a_b(&self, _ctx: ExecCtx) -> StdResult<Response> {
        Ok(Response::new())
    }
}

fn main() {}
