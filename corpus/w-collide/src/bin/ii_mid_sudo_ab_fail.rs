//@ props: C05
//@ expect: fail
//@ index: no
//@ what: interfaces {burn, mint} then {mint, transfer} share sudo `mint`
#![allow(dead_code)]
use sylvia::ctx::{ExecCtx, InstantiateCtx, QueryCtx, SudoCtx};
use sylvia::cw_std::{Response, StdError, StdResult};
use sylvia::{contract, interface};

#[sylvia::cw_schema::cw_serde]
pub struct Resp {}

pub mod ia {
    use super::*;
    #[interface]
    #[sv::custom(msg = sylvia::cw_std::Empty, query = sylvia::cw_std::Empty)]
    pub trait Ia {
        type Error: From<StdError>;
        #[sv::msg(sudo)]
        fn burn(&self, ctx: SudoCtx) -> Result<Response, Self::Error>;
        #[sv::msg(sudo)]
        fn mint(&self, ctx: SudoCtx) -> Result<Response, Self::Error>;
    }
}
pub mod ib {
    use super::*;
    #[interface]
    #[sv::custom(msg = sylvia::cw_std::Empty, query = sylvia::cw_std::Empty)]
    pub trait Ib {
        type Error: From<StdError>;
        #[sv::msg(sudo)]
        fn mint(&self, ctx: SudoCtx) -> Result<Response, Self::Error>;
        #[sv::msg(sudo)]
        fn transfer(&self, ctx: SudoCtx) -> Result<Response, Self::Error>;
    }
}
pub struct Contract;

impl ia::Ia for Contract {
    type Error = StdError;
    fn burn(&self, _ctx: SudoCtx) -> StdResult<Response> {
        Ok(Response::new())
    }
    fn mint(&self, _ctx: SudoCtx) -> StdResult<Response> {
        Ok(Response::new())
    }
}
impl ib::Ib for Contract {
    type Error = StdError;
    fn mint(&self, _ctx: SudoCtx) -> StdResult<Response> {
        Ok(Response::new())
    }
    fn transfer(&self, _ctx: SudoCtx) -> StdResult<Response> {
        Ok(Response::new())
    }
}

#[contract] //~ ERROR
#[sv::messages(ia)]
#[sv::messages(ib)]
impl Contract {
    pub const fn new() -> Self {
        Self
    }
    #[sv::msg(instantiate)]
    fn instantiate(&self, _ctx: InstantiateCtx) -> StdResult<Response> {
        Ok(Response::new())
    }
    #[sv::msg(sudo)]
    fn own(&self, _ctx: SudoCtx) -> StdResult<Response> {
        Ok(Response::new())
    }
}

fn main() {}
