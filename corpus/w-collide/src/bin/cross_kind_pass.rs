//@ props: C05
//@ expect: pass
//@ index: no
//@ what: the same name under different kinds (exec and sudo in two interfaces, query in the contract) is not a collision
#![allow(dead_code)]
use sylvia::ctx::{ExecCtx, InstantiateCtx, QueryCtx, SudoCtx};
use sylvia::cw_std::{Response, StdError, StdResult};
use sylvia::{contract, interface};

#[sylvia::cw_schema::cw_serde]
pub struct Resp {}

pub mod ia {
    use super::*;
    #[interface]
    #[sv::custom(msg = sylvia::cw_std::Empty, query = sylvia::cw_std::Empty)]
    pub trait Ia {
        type Error: From<StdError>;
        #[sv::msg(exec)]
        fn shared_name(&self, ctx: ExecCtx) -> Result<Response, Self::Error>;
    }
}
pub mod ib {
    use super::*;
    #[interface]
    #[sv::custom(msg = sylvia::cw_std::Empty, query = sylvia::cw_std::Empty)]
    pub trait Ib {
        type Error: From<StdError>;
        #[sv::msg(sudo)]
        fn shared_name(&self, ctx: SudoCtx) -> Result<Response, Self::Error>;
    }
}
pub struct Contract;

impl ia::Ia for Contract {
    type Error = StdError;
    fn shared_name(&self, _ctx: ExecCtx) -> StdResult<Response> {
        Ok(Response::new())
    }
}
impl ib::Ib for Contract {
    type Error = StdError;
    fn shared_name(&self, _ctx: SudoCtx) -> StdResult<Response> {
        Ok(Response::new())
    }
}

#[contract]
#[sv::messages(ia)]
#[sv::messages(ib)]
impl Contract {
    pub const fn new() -> Self {
        Self
    }
    #[sv::msg(instantiate)]
    fn instantiate(&self, _ctx: InstantiateCtx) -> StdResult<Response> {
        Ok(Response::new())
    }
    #[sv::msg(query)]
    fn shared_name(&self, _ctx: QueryCtx) -> StdResult<Resp> {
        Ok(Resp {})
    }
}

fn main() {}
