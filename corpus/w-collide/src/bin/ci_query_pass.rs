//@ props: C05
//@ expect: pass
//@ index: no
//@ what: twin of ci_query_fail with the contract method renamed
#![allow(dead_code)]
use sylvia::ctx::{ExecCtx, InstantiateCtx, QueryCtx, SudoCtx};
use sylvia::cw_std::{Response, StdError, StdResult};
use sylvia::{contract, interface};

#[sylvia::cw_schema::cw_serde]
pub struct Resp {}

pub mod ia {
    use super::*;
    #[interface]
    #[sv::custom(msg = sylvia::cw_std::Empty, query = sylvia::cw_std::Empty)]
    pub trait Ia {
        type Error: From<StdError>;
        #[sv::msg(query)]
        fn shared_name(&self, ctx: QueryCtx) -> Result<Resp, Self::Error>;
        #[sv::msg(query)]
        fn only_a(&self, ctx: QueryCtx) -> Result<Resp, Self::Error>;
    }
}
pub struct Contract;

impl ia::Ia for Contract {
    type Error = StdError;
    fn shared_name(&self, _ctx: QueryCtx) -> StdResult<Resp> {
        Ok(Resp {})
    }
    fn only_a(&self, _ctx: QueryCtx) -> StdResult<Resp> {
        Ok(Resp {})
    }
}

#[contract]
#[sv::messages(ia)]
impl Contract {
    pub const fn new() -> Self {
        Self
    }
    #[sv::msg(instantiate)]
    fn instantiate(&self, _ctx: InstantiateCtx) -> StdResult<Response> {
        Ok(Response::new())
    }
    #[sv::msg(query)]
    fn shared_namf(&self, _ctx: QueryCtx) -> StdResult<Resp> {
        Ok(Resp {})
    }
    #[sv::msg(query)]
    fn zz_own(&self, _ctx: QueryCtx) -> StdResult<Resp> {
        Ok(Resp {})
    }
}

fn main() {}
