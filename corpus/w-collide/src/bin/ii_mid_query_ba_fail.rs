//@ props: C05
//@ expect: fail
//@ index: no
//@ what: the same two interfaces listed the other way round (query)
#![allow(dead_code)]
use sylvia::ctx::{ExecCtx, InstantiateCtx, QueryCtx, SudoCtx};
use sylvia::cw_std::{Response, StdError, StdResult};
use sylvia::{contract, interface};

#[sylvia::cw_schema::cw_serde]
pub struct Resp {}

pub mod ib {
    use super::*;
    #[interface]
    #[sv::custom(msg = sylvia::cw_std::Empty, query = sylvia::cw_std::Empty)]
    pub trait Ib {
        type Error: From<StdError>;
        #[sv::msg(query)]
        fn mint(&self, ctx: QueryCtx) -> Result<Resp, Self::Error>;
        #[sv::msg(query)]
        fn transfer(&self, ctx: QueryCtx) -> Result<Resp, Self::Error>;
    }
}
pub mod ia {
    use super::*;
    #[interface]
    #[sv::custom(msg = sylvia::cw_std::Empty, query = sylvia::cw_std::Empty)]
    pub trait Ia {
        type Error: From<StdError>;
        #[sv::msg(query)]
        fn burn(&self, ctx: QueryCtx) -> Result<Resp, Self::Error>;
        #[sv::msg(query)]
        fn mint(&self, ctx: QueryCtx) -> Result<Resp, Self::Error>;
    }
}
pub struct Contract;

impl ib::Ib for Contract {
    type Error = StdError;
    fn mint(&self, _ctx: QueryCtx) -> StdResult<Resp> {
        Ok(Resp {})
    }
    fn transfer(&self, _ctx: QueryCtx) -> StdResult<Resp> {
        Ok(Resp {})
    }
}
impl ia::Ia for Contract {
    type Error = StdError;
    fn burn(&self, _ctx: QueryCtx) -> StdResult<Resp> {
        Ok(Resp {})
    }
    fn mint(&self, _ctx: QueryCtx) -> StdResult<Resp> {
        Ok(Resp {})
    }
}

#[contract] //~ ERROR
#[sv::messages(ib)]
#[sv::messages(ia)]
impl Contract {
    pub const fn new() -> Self {
        Self
    }
    #[sv::msg(instantiate)]
    fn instantiate(&self, _ctx: InstantiateCtx) -> StdResult<Response> {
        Ok(Response::new())
    }
    #[sv::msg(query)]
    fn own(&self, _ctx: QueryCtx) -> StdResult<Resp> {
        Ok(Resp {})
    }
}

fn main() {}
