//@ props: C05
//@ expect: fail
//@ index: no
//@ what: contract and interface share sudo name `shared_name`
#![allow(dead_code)]
use sylvia::ctx::{ExecCtx, InstantiateCtx, QueryCtx, SudoCtx};
use sylvia::cw_std::{Response, StdError, StdResult};
use sylvia::{contract, interface};

#[sylvia::cw_schema::cw_serde]
pub struct Resp {}

pub mod ia {
    use super::*;
    #[interface]
    #[sv::custom(msg = sylvia::cw_std::Empty, query = sylvia::cw_std::Empty)]
    pub trait Ia {
        type Error: From<StdError>;
        #[sv::msg(sudo)]
        fn shared_name(&self, ctx: SudoCtx) -> Result<Response, Self::Error>;
        #[sv::msg(sudo)]
        fn only_a(&self, ctx: SudoCtx) -> Result<Response, Self::Error>;
    }
}
pub struct Contract;

impl ia::Ia for Contract {
    type Error = StdError;
    fn shared_name(&self, _ctx: SudoCtx) -> StdResult<Response> {
        Ok(Response::new())
    }
    fn only_a(&self, _ctx: SudoCtx) -> StdResult<Response> {
        Ok(Response::new())
    }
}

#[contract] //~ ERROR
#[sv::messages(ia)]
impl Contract {
    pub const fn new() -> Self {
        Self
    }
    #[sv::msg(instantiate)]
    fn instantiate(&self, _ctx: InstantiateCtx) -> StdResult<Response> {
        Ok(Response::new())
    }
    #[sv::msg(sudo)]
    fn shared_name(&self, _ctx: SudoCtx) -> StdResult<Response> {
        Ok(Response::new())
    }
    #[sv::msg(sudo)]
    fn zz_own(&self, _ctx: SudoCtx) -> StdResult<Response> {
        Ok(Response::new())
    }
}

fn main() {}
