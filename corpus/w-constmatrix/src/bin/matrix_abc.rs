//@ props: C05
//@ expect: fail
//@ exact: yes
//@ index: no
//@ what: all tuples of <=3 sorted duplicate-free lists (len<=2) over {a,b,c}: rejected iff two lists share a name
#![allow(dead_code)]
const _: () = { let m: [&[&str]; 1] = [&[]]; sylvia::utils::assert_no_intersection(m) };
const _: () = { let m: [&[&str]; 1] = [&["a"]]; sylvia::utils::assert_no_intersection(m) };
const _: () = { let m: [&[&str]; 1] = [&["b"]]; sylvia::utils::assert_no_intersection(m) };
const _: () = { let m: [&[&str]; 1] = [&["c"]]; sylvia::utils::assert_no_intersection(m) };
const _: () = { let m: [&[&str]; 1] = [&["a", "b"]]; sylvia::utils::assert_no_intersection(m) };
const _: () = { let m: [&[&str]; 1] = [&["a", "c"]]; sylvia::utils::assert_no_intersection(m) };
const _: () = { let m: [&[&str]; 1] = [&["b", "c"]]; sylvia::utils::assert_no_intersection(m) };
const _: () = { let m: [&[&str]; 2] = [&[], &[]]; sylvia::utils::assert_no_intersection(m) };
const _: () = { let m: [&[&str]; 2] = [&[], &["a"]]; sylvia::utils::assert_no_intersection(m) };
const _: () = { let m: [&[&str]; 2] = [&[], &["b"]]; sylvia::utils::assert_no_intersection(m) };
const _: () = { let m: [&[&str]; 2] = [&[], &["c"]]; sylvia::utils::assert_no_intersection(m) };
const _: () = { let m: [&[&str]; 2] = [&[], &["a", "b"]]; sylvia::utils::assert_no_intersection(m) };
const _: () = { let m: [&[&str]; 2] = [&[], &["a", "c"]]; sylvia::utils::assert_no_intersection(m) };
const _: () = { let m: [&[&str]; 2] = [&[], &["b", "c"]]; sylvia::utils::assert_no_intersection(m) };
const _: () = { let m: [&[&str]; 2] = [&["a"], &[]]; sylvia::utils::assert_no_intersection(m) };
const _: () = { let m: [&[&str]; 2] = [&["a"], &["a"]]; sylvia::utils::assert_no_intersection(m) }; //~ ERROR
const _: () = { let m: [&[&str]; 2] = [&["a"], &["b"]]; sylvia::utils::assert_no_intersection(m) };
const _: () = { let m: [&[&str]; 2] = [&["a"], &["c"]]; sylvia::utils::assert_no_intersection(m) };
const _: () = { let m: [&[&str]; 2] = [&["a"], &["a", "b"]]; sylvia::utils::assert_no_intersection(m) }; //~ ERROR
const _: () = { let m: [&[&str]; 2] = [&["a"], &["a", "c"]]; sylvia::utils::assert_no_intersection(m) }; //~ ERROR
const _: () = { let m: [&[&str]; 2] = [&["a"], &["b", "c"]]; sylvia::utils::assert_no_intersection(m) };
const _: () = { let m: [&[&str]; 2] = [&["b"], &[]]; sylvia::utils::assert_no_intersection(m) };
const _: () = { let m: [&[&str]; 2] = [&["b"], &["a"]]; sylvia::utils::assert_no_intersection(m) };
const _: () = { let m: [&[&str]; 2] = [&["b"], &["b"]]; sylvia::utils::assert_no_intersection(m) }; //~ ERROR
const _: () = { let m: [&[&str]; 2] = [&["b"], &["c"]]; sylvia::utils::assert_no_intersection(m) };
const _: () = { let m: [&[&str]; 2] = [&["b"], &["a", "b"]]; sylvia::utils::assert_no_intersection(m) }; //~ ERROR
const _: () = { let m: [&[&str]; 2] = [&["b"], &["a", "c"]]; sylvia::utils::assert_no_intersection(m) };
const _: () = { let m: [&[&str]; 2] = [&["b"], &["b", "c"]]; sylvia::utils::assert_no_intersection(m) }; //~ ERROR
const _: () = { let m: [&[&str]; 2] = [&["c"], &[]]; sylvia::utils::assert_no_intersection(m) };
const _: () = { let m: [&[&str]; 2] = [&["c"], &["a"]]; sylvia::utils::assert_no_intersection(m) };
const _: () = { let m: [&[&str]; 2] = [&["c"], &["b"]]; sylvia::utils::assert_no_intersection(m) };
const _: () = { let m: [&[&str]; 2] = [&["c"], &["c"]]; sylvia::utils::assert_no_intersection(m) }; //~ ERROR
const _: () = { let m: [&[&str]; 2] = [&["c"], &["a", "b"]]; sylvia::utils::assert_no_intersection(m) };
const _: () = { let m: [&[&str]; 2] = [&["c"], &["a", "c"]]; sylvia::utils::assert_no_intersection(m) }; //~ ERROR
const _: () = { let m: [&[&str]; 2] = [&["c"], &["b", "c"]]; sylvia::utils::assert_no_intersection(m) }; //~ ERROR
const _: () = { let m: [&[&str]; 2] = [&["a", "b"], &[]]; sylvia::utils::assert_no_intersection(m) };
const _: () = { let m: [&[&str]; 2] = [&["a", "b"], &["a"]]; sylvia::utils::assert_no_intersection(m) }; //~ ERROR
const _: () = { let m: [&[&str]; 2] = [&["a", "b"], &["b"]]; sylvia::utils::assert_no_intersection(m) }; //~ ERROR
const _: () = { let m: [&[&str]; 2] = [&["a", "b"], &["c"]]; sylvia::utils::assert_no_intersection(m) };
const _: () = { let m: [&[&str]; 2] = [&["a", "b"], &["a", "b"]]; sylvia::utils::assert_no_intersection(m) }; //~ ERROR
const _: () = { let m: [&[&str]; 2] = [&["a", "b"], &["a", "c"]]; sylvia::utils::assert_no_intersection(m) }; //~ ERROR
const _: () = { let m: [&[&str]; 2] = [&["a", "b"], &["b", "c"]]; sylvia::utils::assert_no_intersection(m) }; //~ ERROR
const _: () = { let m: [&[&str]; 2] = [&["a", "c"], &[]]; sylvia::utils::assert_no_intersection(m) };
const _: () = { let m: [&[&str]; 2] = [&["a", "c"], &["a"]]; sylvia::utils::assert_no_intersection(m) }; //~ ERROR
const _: () = { let m: [&[&str]; 2] = [&["a", "c"], &["b"]]; sylvia::utils::assert_no_intersection(m) };
const _: () = { let m: [&[&str]; 2] = [&["a", "c"], &["c"]]; sylvia::utils::assert_no_intersection(m) }; //~ ERROR
const _: () = { let m: [&[&str]; 2] = [&["a", "c"], &["a", "b"]]; sylvia::utils::assert_no_intersection(m) }; //~ ERROR
const _: () = { let m: [&[&str]; 2] = [&["a", "c"], &["a", "c"]]; sylvia::utils::assert_no_intersection(m) }; //~ ERROR
const _: () = { let m: [&[&str]; 2] = [&["a", "c"], &["b", "c"]]; sylvia::utils::assert_no_intersection(m) }; //~ ERROR
const _: () = { let m: [&[&str]; 2] = [&["b", "c"], &[]]; sylvia::utils::assert_no_intersection(m) };
const _: () = { let m: [&[&str]; 2] = [&["b", "c"], &["a"]]; sylvia::utils::assert_no_intersection(m) };
const _: () = { let m: [&[&str]; 2] = [&["b", "c"], &["b"]]; sylvia::utils::assert_no_intersection(m) }; //~ ERROR
const _: () = { let m: [&[&str]; 2] = [&["b", "c"], &["c"]]; sylvia::utils::assert_no_intersection(m) }; //~ ERROR
const _: () = { let m: [&[&str]; 2] = [&["b", "c"], &["a", "b"]]; sylvia::utils::assert_no_intersection(m) }; //~ ERROR
const _: () = { let m: [&[&str]; 2] = [&["b", "c"], &["a", "c"]]; sylvia::utils::assert_no_intersection(m) }; //~ ERROR
const _: () = { let m: [&[&str]; 2] = [&["b", "c"], &["b", "c"]]; sylvia::utils::assert_no_intersection(m) }; //~ ERROR
const _: () = { let m: [&[&str]; 3] = [&[], &[], &[]]; sylvia::utils::assert_no_intersection(m) };
const _: () = { let m: [&[&str]; 3] = [&[], &[], &["a"]]; sylvia::utils::assert_no_intersection(m) };
const _: () = { let m: [&[&str]; 3] = [&[], &[], &["b"]]; sylvia::utils::assert_no_intersection(m) };
const _: () = { let m: [&[&str]; 3] = [&[], &[], &["c"]]; sylvia::utils::assert_no_intersection(m) };
const _: () = { let m: [&[&str]; 3] = [&[], &[], &["a", "b"]]; sylvia::utils::assert_no_intersection(m) };
const _: () = { let m: [&[&str]; 3] = [&[], &[], &["a", "c"]]; sylvia::utils::assert_no_intersection(m) };
const _: () = { let m: [&[&str]; 3] = [&[], &[], &["b", "c"]]; sylvia::utils::assert_no_intersection(m) };
const _: () = { let m: [&[&str]; 3] = [&[], &["a"], &[]]; sylvia::utils::assert_no_intersection(m) };
const _: () = { let m: [&[&str]; 3] = [&[], &["a"], &["a"]]; sylvia::utils::assert_no_intersection(m) }; //~ ERROR
const _: () = { let m: [&[&str]; 3] = [&[], &["a"], &["b"]]; sylvia::utils::assert_no_intersection(m) };
const _: () = { let m: [&[&str]; 3] = [&[], &["a"], &["c"]]; sylvia::utils::assert_no_intersection(m) };
const _: () = { let m: [&[&str]; 3] = [&[], &["a"], &["a", "b"]]; sylvia::utils::assert_no_intersection(m) }; //~ ERROR
const _: () = { let m: [&[&str]; 3] = [&[], &["a"], &["a", "c"]]; sylvia::utils::assert_no_intersection(m) }; //~ ERROR
const _: () = { let m: [&[&str]; 3] = [&[], &["a"], &["b", "c"]]; sylvia::utils::assert_no_intersection(m) };
const _: () = { let m: [&[&str]; 3] = [&[], &["b"], &[]]; sylvia::utils::assert_no_intersection(m) };
const _: () = { let m: [&[&str]; 3] = [&[], &["b"], &["a"]]; sylvia::utils::assert_no_intersection(m) };
const _: () = { let m: [&[&str]; 3] = [&[], &["b"], &["b"]]; sylvia::utils::assert_no_intersection(m) }; //~ ERROR
const _: () = { let m: [&[&str]; 3] = [&[], &["b"], &["c"]]; sylvia::utils::assert_no_intersection(m) };
const _: () = { let m: [&[&str]; 3] = [&[], &["b"], &["a", "b"]]; sylvia::utils::assert_no_intersection(m) }; //~ ERROR
const _: () = { let m: [&[&str]; 3] = [&[], &["b"], &["a", "c"]]; sylvia::utils::assert_no_intersection(m) };
const _: () = { let m: [&[&str]; 3] = [&[], &["b"], &["b", "c"]]; sylvia::utils::assert_no_intersection(m) }; //~ ERROR
const _: () = { let m: [&[&str]; 3] = [&[], &["c"], &[]]; sylvia::utils::assert_no_intersection(m) };
const _: () = { let m: [&[&str]; 3] = [&[], &["c"], &["a"]]; sylvia::utils::assert_no_intersection(m) };
const _: () = { let m: [&[&str]; 3] = [&[], &["c"], &["b"]]; sylvia::utils::assert_no_intersection(m) };
const _: () = { let m: [&[&str]; 3] = [&[], &["c"], &["c"]]; sylvia::utils::assert_no_intersection(m) }; //~ ERROR
const _: () = { let m: [&[&str]; 3] = [&[], &["c"], &["a", "b"]]; sylvia::utils::assert_no_intersection(m) };
const _: () = { let m: [&[&str]; 3] = [&[], &["c"], &["a", "c"]]; sylvia::utils::assert_no_intersection(m) }; //~ ERROR
const _: () = { let m: [&[&str]; 3] = [&[], &["c"], &["b", "c"]]; sylvia::utils::assert_no_intersection(m) }; //~ ERROR
const _: () = { let m: [&[&str]; 3] = [&[], &["a", "b"], &[]]; sylvia::utils::assert_no_intersection(m) };
const _: () = { let m: [&[&str]; 3] = [&[], &["a", "b"], &["a"]]; sylvia::utils::assert_no_intersection(m) }; //~ ERROR
const _: () = { let m: [&[&str]; 3] = [&[], &["a", "b"], &["b"]]; sylvia::utils::assert_no_intersection(m) }; //~ ERROR
const _: () = { let m: [&[&str]; 3] = [&[], &["a", "b"], &["c"]]; sylvia::utils::assert_no_intersection(m) };
const _: () = { let m: [&[&str]; 3] = [&[], &["a", "b"], &["a", "b"]]; sylvia::utils::assert_no_intersection(m) }; //~ ERROR
const _: () = { let m: [&[&str]; 3] = [&[], &["a", "b"], &["a", "c"]]; sylvia::utils::assert_no_intersection(m) }; //~ ERROR
const _: () = { let m: [&[&str]; 3] = [&[], &["a", "b"], &["b", "c"]]; sylvia::utils::assert_no_intersection(m) }; //~ ERROR
const _: () = { let m: [&[&str]; 3] = [&[], &["a", "c"], &[]]; sylvia::utils::assert_no_intersection(m) };
const _: () = { let m: [&[&str]; 3] = [&[], &["a", "c"], &["a"]]; sylvia::utils::assert_no_intersection(m) }; //~ ERROR
const _: () = { let m: [&[&str]; 3] = [&[], &["a", "c"], &["b"]]; sylvia::utils::assert_no_intersection(m) };
const _: () = { let m: [&[&str]; 3] = [&[], &["a", "c"], &["c"]]; sylvia::utils::assert_no_intersection(m) }; //~ ERROR
const _: () = { let m: [&[&str]; 3] = [&[], &["a", "c"], &["a", "b"]]; sylvia::utils::assert_no_intersection(m) }; //~ ERROR
const _: () = { let m: [&[&str]; 3] = [&[], &["a", "c"], &["a", "c"]]; sylvia::utils::assert_no_intersection(m) }; //~ ERROR
const _: () = { let m: [&[&str]; 3] = [&[], &["a", "c"], &["b", "c"]]; sylvia::utils::assert_no_intersection(m) }; //~ ERROR
const _: () = { let m: [&[&str]; 3] = [&[], &["b", "c"], &[]]; sylvia::utils::assert_no_intersection(m) };
const _: () = { let m: [&[&str]; 3] = [&[], &["b", "c"], &["a"]]; sylvia::utils::assert_no_intersection(m) };
const _: () = { let m: [&[&str]; 3] = [&[], &["b", "c"], &["b"]]; sylvia::utils::assert_no_intersection(m) }; //~ ERROR
const _: () = { let m: [&[&str]; 3] = [&[], &["b", "c"], &["c"]]; sylvia::utils::assert_no_intersection(m) }; //~ ERROR
const _: () = { let m: [&[&str]; 3] = [&[], &["b", "c"], &["a", "b"]]; sylvia::utils::assert_no_intersection(m) }; //~ ERROR
const _: () = { let m: [&[&str]; 3] = [&[], &["b", "c"], &["a", "c"]]; sylvia::utils::assert_no_intersection(m) }; //~ ERROR
const _: () = { let m: [&[&str]; 3] = [&[], &["b", "c"], &["b", "c"]]; sylvia::utils::assert_no_intersection(m) }; //~ ERROR
const _: () = { let m: [&[&str]; 3] = [&["a"], &[], &[]]; sylvia::utils::assert_no_intersection(m) };
const _: () = { let m: [&[&str]; 3] = [&["a"], &[], &["a"]]; sylvia::utils::assert_no_intersection(m) }; //~ ERROR
const _: () = { let m: [&[&str]; 3] = [&["a"], &[], &["b"]]; sylvia::utils::assert_no_intersection(m) };
const _: () = { let m: [&[&str]; 3] = [&["a"], &[], &["c"]]; sylvia::utils::assert_no_intersection(m) };
const _: () = { let m: [&[&str]; 3] = [&["a"], &[], &["a", "b"]]; sylvia::utils::assert_no_intersection(m) }; //~ ERROR
const _: () = { let m: [&[&str]; 3] = [&["a"], &[], &["a", "c"]]; sylvia::utils::assert_no_intersection(m) }; //~ ERROR
const _: () = { let m: [&[&str]; 3] = [&["a"], &[], &["b", "c"]]; sylvia::utils::assert_no_intersection(m) };
const _: () = { let m: [&[&str]; 3] = [&["a"], &["a"], &[]]; sylvia::utils::assert_no_intersection(m) }; //~ ERROR
const _: () = { let m: [&[&str]; 3] = [&["a"], &["a"], &["a"]]; sylvia::utils::assert_no_intersection(m) }; //~ ERROR
const _: () = { let m: [&[&str]; 3] = [&["a"], &["a"], &["b"]]; sylvia::utils::assert_no_intersection(m) }; //~ ERROR
const _: () = { let m: [&[&str]; 3] = [&["a"], &["a"], &["c"]]; sylvia::utils::assert_no_intersection(m) }; //~ ERROR
const _: () = { let m: [&[&str]; 3] = [&["a"], &["a"], &["a", "b"]]; sylvia::utils::assert_no_intersection(m) }; //~ ERROR
const _: () = { let m: [&[&str]; 3] = [&["a"], &["a"], &["a", "c"]]; sylvia::utils::assert_no_intersection(m) }; //~ ERROR
const _: () = { let m: [&[&str]; 3] = [&["a"], &["a"], &["b", "c"]]; sylvia::utils::assert_no_intersection(m) }; //~ ERROR
const _: () = { let m: [&[&str]; 3] = [&["a"], &["b"], &[]]; sylvia::utils::assert_no_intersection(m) };
const _: () = { let m: [&[&str]; 3] = [&["a"], &["b"], &["a"]]; sylvia::utils::assert_no_intersection(m) }; //~ ERROR
const _: () = { let m: [&[&str]; 3] = [&["a"], &["b"], &["b"]]; sylvia::utils::assert_no_intersection(m) }; //~ ERROR
const _: () = { let m: [&[&str]; 3] = [&["a"], &["b"], &["c"]]; sylvia::utils::assert_no_intersection(m) };
const _: () = { let m: [&[&str]; 3] = [&["a"], &["b"], &["a", "b"]]; sylvia::utils::assert_no_intersection(m) }; //~ ERROR
const _: () = { let m: [&[&str]; 3] = [&["a"], &["b"], &["a", "c"]]; sylvia::utils::assert_no_intersection(m) }; //~ ERROR
const _: () = { let m: [&[&str]; 3] = [&["a"], &["b"], &["b", "c"]]; sylvia::utils::assert_no_intersection(m) }; //~ ERROR
const _: () = { let m: [&[&str]; 3] = [&["a"], &["c"], &[]]; sylvia::utils::assert_no_intersection(m) };
const _: () = { let m: [&[&str]; 3] = [&["a"], &["c"], &["a"]]; sylvia::utils::assert_no_intersection(m) }; //~ ERROR
const _: () = { let m: [&[&str]; 3] = [&["a"], &["c"], &["b"]]; sylvia::utils::assert_no_intersection(m) };
const _: () = { let m: [&[&str]; 3] = [&["a"], &["c"], &["c"]]; sylvia::utils::assert_no_intersection(m) }; //~ ERROR
const _: () = { let m: [&[&str]; 3] = [&["a"], &["c"], &["a", "b"]]; sylvia::utils::assert_no_intersection(m) }; //~ ERROR
const _: () = { let m: [&[&str]; 3] = [&["a"], &["c"], &["a", "c"]]; sylvia::utils::assert_no_intersection(m) }; //~ ERROR
const _: () = { let m: [&[&str]; 3] = [&["a"], &["c"], &["b", "c"]]; sylvia::utils::assert_no_intersection(m) }; //~ ERROR
const _: () = { let m: [&[&str]; 3] = [&["a"], &["a", "b"], &[]]; sylvia::utils::assert_no_intersection(m) }; //~ ERROR
const _: () = { let m: [&[&str]; 3] = [&["a"], &["a", "b"], &["a"]]; sylvia::utils::assert_no_intersection(m) }; //~ ERROR
const _: () = { let m: [&[&str]; 3] = [&["a"], &["a", "b"], &["b"]]; sylvia::utils::assert_no_intersection(m) }; //~ ERROR
const _: () = { let m: [&[&str]; 3] = [&["a"], &["a", "b"], &["c"]]; sylvia::utils::assert_no_intersection(m) }; //~ ERROR
const _: () = { let m: [&[&str]; 3] = [&["a"], &["a", "b"], &["a", "b"]]; sylvia::utils::assert_no_intersection(m) }; //~ ERROR
const _: () = { let m: [&[&str]; 3] = [&["a"], &["a", "b"], &["a", "c"]]; sylvia::utils::assert_no_intersection(m) }; //~ ERROR
const _: () = { let m: [&[&str]; 3] = [&["a"], &["a", "b"], &["b", "c"]]; sylvia::utils::assert_no_intersection(m) }; //~ ERROR
const _: () = { let m: [&[&str]; 3] = [&["a"], &["a", "c"], &[]]; sylvia::utils::assert_no_intersection(m) }; //~ ERROR
const _: () = { let m: [&[&str]; 3] = [&["a"], &["a", "c"], &["a"]]; sylvia::utils::assert_no_intersection(m) }; //~ ERROR
const _: () = { let m: [&[&str]; 3] = [&["a"], &["a", "c"], &["b"]]; sylvia::utils::assert_no_intersection(m) }; //~ ERROR
const _: () = { let m: [&[&str]; 3] = [&["a"], &["a", "c"], &["c"]]; sylvia::utils::assert_no_intersection(m) }; //~ ERROR
const _: () = { let m: [&[&str]; 3] = [&["a"], &["a", "c"], &["a", "b"]]; sylvia::utils::assert_no_intersection(m) }; //~ ERROR
const _: () = { let m: [&[&str]; 3] = [&["a"], &["a", "c"], &["a", "c"]]; sylvia::utils::assert_no_intersection(m) }; //~ ERROR
const _: () = { let m: [&[&str]; 3] = [&["a"], &["a", "c"], &["b", "c"]]; sylvia::utils::assert_no_intersection(m) }; //~ ERROR
const _: () = { let m: [&[&str]; 3] = [&["a"], &["b", "c"], &[]]; sylvia::utils::assert_no_intersection(m) };
const _: () = { let m: [&[&str]; 3] = [&["a"], &["b", "c"], &["a"]]; sylvia::utils::assert_no_intersection(m) }; //~ ERROR
const _: () = { let m: [&[&str]; 3] = [&["a"], &["b", "c"], &["b"]]; sylvia::utils::assert_no_intersection(m) }; //~ ERROR
const _: () = { let m: [&[&str]; 3] = [&["a"], &["b", "c"], &["c"]]; sylvia::utils::assert_no_intersection(m) }; //~ ERROR
const _: () = { let m: [&[&str]; 3] = [&["a"], &["b", "c"], &["a", "b"]]; sylvia::utils::assert_no_intersection(m) }; //~ ERROR
const _: () = { let m: [&[&str]; 3] = [&["a"], &["b", "c"], &["a", "c"]]; sylvia::utils::assert_no_intersection(m) }; //~ ERROR
const _: () = { let m: [&[&str]; 3] = [&["a"], &["b", "c"], &["b", "c"]]; sylvia::utils::assert_no_intersection(m) }; //~ ERROR
const _: () = { let m: [&[&str]; 3] = [&["b"], &[], &[]]; sylvia::utils::assert_no_intersection(m) };
const _: () = { let m: [&[&str]; 3] = [&["b"], &[], &["a"]]; sylvia::utils::assert_no_intersection(m) };
const _: () = { let m: [&[&str]; 3] = [&["b"], &[], &["b"]]; sylvia::utils::assert_no_intersection(m) }; //~ ERROR
const _: () = { let m: [&[&str]; 3] = [&["b"], &[], &["c"]]; sylvia::utils::assert_no_intersection(m) };
const _: () = { let m: [&[&str]; 3] = [&["b"], &[], &["a", "b"]]; sylvia::utils::assert_no_intersection(m) }; //~ ERROR
const _: () = { let m: [&[&str]; 3] = [&["b"], &[], &["a", "c"]]; sylvia::utils::assert_no_intersection(m) };
const _: () = { let m: [&[&str]; 3] = [&["b"], &[], &["b", "c"]]; sylvia::utils::assert_no_intersection(m) }; //~ ERROR
const _: () = { let m: [&[&str]; 3] = [&["b"], &["a"], &[]]; sylvia::utils::assert_no_intersection(m) };
const _: () = { let m: [&[&str]; 3] = [&["b"], &["a"], &["a"]]; sylvia::utils::assert_no_intersection(m) }; //~ ERROR
const _: () = { let m: [&[&str]; 3] = [&["b"], &["a"], &["b"]]; sylvia::utils::assert_no_intersection(m) }; //~ ERROR
const _: () = { let m: [&[&str]; 3] = [&["b"], &["a"], &["c"]]; sylvia::utils::assert_no_intersection(m) };
const _: () = { let m: [&[&str]; 3] = [&["b"], &["a"], &["a", "b"]]; sylvia::utils::assert_no_intersection(m) }; //~ ERROR
const _: () = { let m: [&[&str]; 3] = [&["b"], &["a"], &["a", "c"]]; sylvia::utils::assert_no_intersection(m) }; //~ ERROR
const _: () = { let m: [&[&str]; 3] = [&["b"], &["a"], &["b", "c"]]; sylvia::utils::assert_no_intersection(m) }; //~ ERROR
const _: () = { let m: [&[&str]; 3] = [&["b"], &["b"], &[]]; sylvia::utils::assert_no_intersection(m) }; //~ ERROR
const _: () = { let m: [&[&str]; 3] = [&["b"], &["b"], &["a"]]; sylvia::utils::assert_no_intersection(m) }; //~ ERROR
const _: () = { let m: [&[&str]; 3] = [&["b"], &["b"], &["b"]]; sylvia::utils::assert_no_intersection(m) }; //~ ERROR
const _: () = { let m: [&[&str]; 3] = [&["b"], &["b"], &["c"]]; sylvia::utils::assert_no_intersection(m) }; //~ ERROR
const _: () = { let m: [&[&str]; 3] = [&["b"], &["b"], &["a", "b"]]; sylvia::utils::assert_no_intersection(m) }; //~ ERROR
const _: () = { let m: [&[&str]; 3] = [&["b"], &["b"], &["a", "c"]]; sylvia::utils::assert_no_intersection(m) }; //~ ERROR
const _: () = { let m: [&[&str]; 3] = [&["b"], &["b"], &["b", "c"]]; sylvia::utils::assert_no_intersection(m) }; //~ ERROR
const _: () = { let m: [&[&str]; 3] = [&["b"], &["c"], &[]]; sylvia::utils::assert_no_intersection(m) };
const _: () = { let m: [&[&str]; 3] = [&["b"], &["c"], &["a"]]; sylvia::utils::assert_no_intersection(m) };
const _: () = { let m: [&[&str]; 3] = [&["b"], &["c"], &["b"]]; sylvia::utils::assert_no_intersection(m) }; //~ ERROR
const _: () = { let m: [&[&str]; 3] = [&["b"], &["c"], &["c"]]; sylvia::utils::assert_no_intersection(m) }; //~ ERROR
const _: () = { let m: [&[&str]; 3] = [&["b"], &["c"], &["a", "b"]]; sylvia::utils::assert_no_intersection(m) }; //~ ERROR
const _: () = { let m: [&[&str]; 3] = [&["b"], &["c"], &["a", "c"]]; sylvia::utils::assert_no_intersection(m) }; //~ ERROR
const _: () = { let m: [&[&str]; 3] = [&["b"], &["c"], &["b", "c"]]; sylvia::utils::assert_no_intersection(m) }; //~ ERROR
const _: () = { let m: [&[&str]; 3] = [&["b"], &["a", "b"], &[]]; sylvia::utils::assert_no_intersection(m) }; //~ ERROR
const _: () = { let m: [&[&str]; 3] = [&["b"], &["a", "b"], &["a"]]; sylvia::utils::assert_no_intersection(m) }; //~ ERROR
const _: () = { let m: [&[&str]; 3] = [&["b"], &["a", "b"], &["b"]]; sylvia::utils::assert_no_intersection(m) }; //~ ERROR
const _: () = { let m: [&[&str]; 3] = [&["b"], &["a", "b"], &["c"]]; sylvia::utils::assert_no_intersection(m) }; //~ ERROR
const _: () = { let m: [&[&str]; 3] = [&["b"], &["a", "b"], &["a", "b"]]; sylvia::utils::assert_no_intersection(m) }; //~ ERROR
const _: () = { let m: [&[&str]; 3] = [&["b"], &["a", "b"], &["a", "c"]]; sylvia::utils::assert_no_intersection(m) }; //~ ERROR
const _: () = { let m: [&[&str]; 3] = [&["b"], &["a", "b"], &["b", "c"]]; sylvia::utils::assert_no_intersection(m) }; //~ ERROR
const _: () = { let m: [&[&str]; 3] = [&["b"], &["a", "c"], &[]]; sylvia::utils::assert_no_intersection(m) };
const _: () = { let m: [&[&str]; 3] = [&["b"], &["a", "c"], &["a"]]; sylvia::utils::assert_no_intersection(m) }; //~ ERROR
const _: () = { let m: [&[&str]; 3] = [&["b"], &["a", "c"], &["b"]]; sylvia::utils::assert_no_intersection(m) }; //~ ERROR
const _: () = { let m: [&[&str]; 3] = [&["b"], &["a", "c"], &["c"]]; sylvia::utils::assert_no_intersection(m) }; //~ ERROR
const _: () = { let m: [&[&str]; 3] = [&["b"], &["a", "c"], &["a", "b"]]; sylvia::utils::assert_no_intersection(m) }; //~ ERROR
const _: () = { let m: [&[&str]; 3] = [&["b"], &["a", "c"], &["a", "c"]]; sylvia::utils::assert_no_intersection(m) }; //~ ERROR
const _: () = { let m: [&[&str]; 3] = [&["b"], &["a", "c"], &["b", "c"]]; sylvia::utils::assert_no_intersection(m) }; //~ ERROR
const _: () = { let m: [&[&str]; 3] = [&["b"], &["b", "c"], &[]]; sylvia::utils::assert_no_intersection(m) }; //~ ERROR
const _: () = { let m: [&[&str]; 3] = [&["b"], &["b", "c"], &["a"]]; sylvia::utils::assert_no_intersection(m) }; //~ ERROR
const _: () = { let m: [&[&str]; 3] = [&["b"], &["b", "c"], &["b"]]; sylvia::utils::assert_no_intersection(m) }; //~ ERROR
const _: () = { let m: [&[&str]; 3] = [&["b"], &["b", "c"], &["c"]]; sylvia::utils::assert_no_intersection(m) }; //~ ERROR
const _: () = { let m: [&[&str]; 3] = [&["b"], &["b", "c"], &["a", "b"]]; sylvia::utils::assert_no_intersection(m) }; //~ ERROR
const _: () = { let m: [&[&str]; 3] = [&["b"], &["b", "c"], &["a", "c"]]; sylvia::utils::assert_no_intersection(m) }; //~ ERROR
const _: () = { let m: [&[&str]; 3] = [&["b"], &["b", "c"], &["b", "c"]]; sylvia::utils::assert_no_intersection(m) }; //~ ERROR
const _: () = { let m: [&[&str]; 3] = [&["c"], &[], &[]]; sylvia::utils::assert_no_intersection(m) };
const _: () = { let m: [&[&str]; 3] = [&["c"], &[], &["a"]]; sylvia::utils::assert_no_intersection(m) };
const _: () = { let m: [&[&str]; 3] = [&["c"], &[], &["b"]]; sylvia::utils::assert_no_intersection(m) };
const _: () = { let m: [&[&str]; 3] = [&["c"], &[], &["c"]]; sylvia::utils::assert_no_intersection(m) }; //~ ERROR
const _: () = { let m: [&[&str]; 3] = [&["c"], &[], &["a", "b"]]; sylvia::utils::assert_no_intersection(m) };
const _: () = { let m: [&[&str]; 3] = [&["c"], &[], &["a", "c"]]; sylvia::utils::assert_no_intersection(m) }; //~ ERROR
const _: () = { let m: [&[&str]; 3] = [&["c"], &[], &["b", "c"]]; sylvia::utils::assert_no_intersection(m) }; //~ ERROR
const _: () = { let m: [&[&str]; 3] = [&["c"], &["a"], &[]]; sylvia::utils::assert_no_intersection(m) };
const _: () = { let m: [&[&str]; 3] = [&["c"], &["a"], &["a"]]; sylvia::utils::assert_no_intersection(m) }; //~ ERROR
const _: () = { let m: [&[&str]; 3] = [&["c"], &["a"], &["b"]]; sylvia::utils::assert_no_intersection(m) };
const _: () = { let m: [&[&str]; 3] = [&["c"], &["a"], &["c"]]; sylvia::utils::assert_no_intersection(m) }; //~ ERROR
const _: () = { let m: [&[&str]; 3] = [&["c"], &["a"], &["a", "b"]]; sylvia::utils::assert_no_intersection(m) }; //~ ERROR
const _: () = { let m: [&[&str]; 3] = [&["c"], &["a"], &["a", "c"]]; sylvia::utils::assert_no_intersection(m) }; //~ ERROR
const _: () = { let m: [&[&str]; 3] = [&["c"], &["a"], &["b", "c"]]; sylvia::utils::assert_no_intersection(m) }; //~ ERROR
const _: () = { let m: [&[&str]; 3] = [&["c"], &["b"], &[]]; sylvia::utils::assert_no_intersection(m) };
const _: () = { let m: [&[&str]; 3] = [&["c"], &["b"], &["a"]]; sylvia::utils::assert_no_intersection(m) };
const _: () = { let m: [&[&str]; 3] = [&["c"], &["b"], &["b"]]; sylvia::utils::assert_no_intersection(m) }; //~ ERROR
const _: () = { let m: [&[&str]; 3] = [&["c"], &["b"], &["c"]]; sylvia::utils::assert_no_intersection(m) }; //~ ERROR
const _: () = { let m: [&[&str]; 3] = [&["c"], &["b"], &["a", "b"]]; sylvia::utils::assert_no_intersection(m) }; //~ ERROR
const _: () = { let m: [&[&str]; 3] = [&["c"], &["b"], &["a", "c"]]; sylvia::utils::assert_no_intersection(m) }; //~ ERROR
const _: () = { let m: [&[&str]; 3] = [&["c"], &["b"], &["b", "c"]]; sylvia::utils::assert_no_intersection(m) }; //~ ERROR
const _: () = { let m: [&[&str]; 3] = [&["c"], &["c"], &[]]; sylvia::utils::assert_no_intersection(m) }; //~ ERROR
const _: () = { let m: [&[&str]; 3] = [&["c"], &["c"], &["a"]]; sylvia::utils::assert_no_intersection(m) }; //~ ERROR
const _: () = { let m: [&[&str]; 3] = [&["c"], &["c"], &["b"]]; sylvia::utils::assert_no_intersection(m) }; //~ ERROR
const _: () = { let m: [&[&str]; 3] = [&["c"], &["c"], &["c"]]; sylvia::utils::assert_no_intersection(m) }; //~ ERROR
const _: () = { let m: [&[&str]; 3] = [&["c"], &["c"], &["a", "b"]]; sylvia::utils::assert_no_intersection(m) }; //~ ERROR
const _: () = { let m: [&[&str]; 3] = [&["c"], &["c"], &["a", "c"]]; sylvia::utils::assert_no_intersection(m) }; //~ ERROR
const _: () = { let m: [&[&str]; 3] = [&["c"], &["c"], &["b", "c"]]; sylvia::utils::assert_no_intersection(m) }; //~ ERROR
const _: () = { let m: [&[&str]; 3] = [&["c"], &["a", "b"], &[]]; sylvia::utils::assert_no_intersection(m) };
const _: () = { let m: [&[&str]; 3] = [&["c"], &["a", "b"], &["a"]]; sylvia::utils::assert_no_intersection(m) }; //~ ERROR
const _: () = { let m: [&[&str]; 3] = [&["c"], &["a", "b"], &["b"]]; sylvia::utils::assert_no_intersection(m) }; //~ ERROR
const _: () = { let m: [&[&str]; 3] = [&["c"], &["a", "b"], &["c"]]; sylvia::utils::assert_no_intersection(m) }; //~ ERROR
const _: () = { let m: [&[&str]; 3] = [&["c"], &["a", "b"], &["a", "b"]]; sylvia::utils::assert_no_intersection(m) }; //~ ERROR
const _: () = { let m: [&[&str]; 3] = [&["c"], &["a", "b"], &["a", "c"]]; sylvia::utils::assert_no_intersection(m) }; //~ ERROR
const _: () = { let m: [&[&str]; 3] = [&["c"], &["a", "b"], &["b", "c"]]; sylvia::utils::assert_no_intersection(m) }; //~ ERROR
const _: () = { let m: [&[&str]; 3] = [&["c"], &["a", "c"], &[]]; sylvia::utils::assert_no_intersection(m) }; //~ ERROR
const _: () = { let m: [&[&str]; 3] = [&["c"], &["a", "c"], &["a"]]; sylvia::utils::assert_no_intersection(m) }; //~ ERROR
const _: () = { let m: [&[&str]; 3] = [&["c"], &["a", "c"], &["b"]]; sylvia::utils::assert_no_intersection(m) }; //~ ERROR
const _: () = { let m: [&[&str]; 3] = [&["c"], &["a", "c"], &["c"]]; sylvia::utils::assert_no_intersection(m) }; //~ ERROR
const _: () = { let m: [&[&str]; 3] = [&["c"], &["a", "c"], &["a", "b"]]; sylvia::utils::assert_no_intersection(m) }; //~ ERROR
const _: () = { let m: [&[&str]; 3] = [&["c"], &["a", "c"], &["a", "c"]]; sylvia::utils::assert_no_intersection(m) }; //~ ERROR
const _: () = { let m: [&[&str]; 3] = [&["c"], &["a", "c"], &["b", "c"]]; sylvia::utils::assert_no_intersection(m) }; //~ ERROR
const _: () = { let m: [&[&str]; 3] = [&["c"], &["b", "c"], &[]]; sylvia::utils::assert_no_intersection(m) }; //~ ERROR
const _: () = { let m: [&[&str]; 3] = [&["c"], &["b", "c"], &["a"]]; sylvia::utils::assert_no_intersection(m) }; //~ ERROR
const _: () = { let m: [&[&str]; 3] = [&["c"], &["b", "c"], &["b"]]; sylvia::utils::assert_no_intersection(m) }; //~ ERROR
const _: () = { let m: [&[&str]; 3] = [&["c"], &["b", "c"], &["c"]]; sylvia::utils::assert_no_intersection(m) }; //~ ERROR
const _: () = { let m: [&[&str]; 3] = [&["c"], &["b", "c"], &["a", "b"]]; sylvia::utils::assert_no_intersection(m) }; //~ ERROR
const _: () = { let m: [&[&str]; 3] = [&["c"], &["b", "c"], &["a", "c"]]; sylvia::utils::assert_no_intersection(m) }; //~ ERROR
const _: () = { let m: [&[&str]; 3] = [&["c"], &["b", "c"], &["b", "c"]]; sylvia::utils::assert_no_intersection(m) }; //~ ERROR
const _: () = { let m: [&[&str]; 3] = [&["a", "b"], &[], &[]]; sylvia::utils::assert_no_intersection(m) };
const _: () = { let m: [&[&str]; 3] = [&["a", "b"], &[], &["a"]]; sylvia::utils::assert_no_intersection(m) }; //~ ERROR
const _: () = { let m: [&[&str]; 3] = [&["a", "b"], &[], &["b"]]; sylvia::utils::assert_no_intersection(m) }; //~ ERROR
const _: () = { let m: [&[&str]; 3] = [&["a", "b"], &[], &["c"]]; sylvia::utils::assert_no_intersection(m) };
const _: () = { let m: [&[&str]; 3] = [&["a", "b"], &[], &["a", "b"]]; sylvia::utils::assert_no_intersection(m) }; //~ ERROR
const _: () = { let m: [&[&str]; 3] = [&["a", "b"], &[], &["a", "c"]]; sylvia::utils::assert_no_intersection(m) }; //~ ERROR
const _: () = { let m: [&[&str]; 3] = [&["a", "b"], &[], &["b", "c"]]; sylvia::utils::assert_no_intersection(m) }; //~ ERROR
const _: () = { let m: [&[&str]; 3] = [&["a", "b"], &["a"], &[]]; sylvia::utils::assert_no_intersection(m) }; //~ ERROR
const _: () = { let m: [&[&str]; 3] = [&["a", "b"], &["a"], &["a"]]; sylvia::utils::assert_no_intersection(m) }; //~ ERROR
const _: () = { let m: [&[&str]; 3] = [&["a", "b"], &["a"], &["b"]]; sylvia::utils::assert_no_intersection(m) }; //~ ERROR
const _: () = { let m: [&[&str]; 3] = [&["a", "b"], &["a"], &["c"]]; sylvia::utils::assert_no_intersection(m) }; //~ ERROR
const _: () = { let m: [&[&str]; 3] = [&["a", "b"], &["a"], &["a", "b"]]; sylvia::utils::assert_no_intersection(m) }; //~ ERROR
const _: () = { let m: [&[&str]; 3] = [&["a", "b"], &["a"], &["a", "c"]]; sylvia::utils::assert_no_intersection(m) }; //~ ERROR
const _: () = { let m: [&[&str]; 3] = [&["a", "b"], &["a"], &["b", "c"]]; sylvia::utils::assert_no_intersection(m) }; //~ ERROR
const _: () = { let m: [&[&str]; 3] = [&["a", "b"], &["b"], &[]]; sylvia::utils::assert_no_intersection(m) }; //~ ERROR
const _: () = { let m: [&[&str]; 3] = [&["a", "b"], &["b"], &["a"]]; sylvia::utils::assert_no_intersection(m) }; //~ ERROR
const _: () = { let m: [&[&str]; 3] = [&["a", "b"], &["b"], &["b"]]; sylvia::utils::assert_no_intersection(m) }; //~ ERROR
const _: () = { let m: [&[&str]; 3] = [&["a", "b"], &["b"], &["c"]]; sylvia::utils::assert_no_intersection(m) }; //~ ERROR
const _: () = { let m: [&[&str]; 3] = [&["a", "b"], &["b"], &["a", "b"]]; sylvia::utils::assert_no_intersection(m) }; //~ ERROR
const _: () = { let m: [&[&str]; 3] = [&["a", "b"], &["b"], &["a", "c"]]; sylvia::utils::assert_no_intersection(m) }; //~ ERROR
const _: () = { let m: [&[&str]; 3] = [&["a", "b"], &["b"], &["b", "c"]]; sylvia::utils::assert_no_intersection(m) }; //~ ERROR
const _: () = { let m: [&[&str]; 3] = [&["a", "b"], &["c"], &[]]; sylvia::utils::assert_no_intersection(m) };
const _: () = { let m: [&[&str]; 3] = [&["a", "b"], &["c"], &["a"]]; sylvia::utils::assert_no_intersection(m) }; //~ ERROR
const _: () = { let m: [&[&str]; 3] = [&["a", "b"], &["c"], &["b"]]; sylvia::utils::assert_no_intersection(m) }; //~ ERROR
const _: () = { let m: [&[&str]; 3] = [&["a", "b"], &["c"], &["c"]]; sylvia::utils::assert_no_intersection(m) }; //~ ERROR
const _: () = { let m: [&[&str]; 3] = [&["a", "b"], &["c"], &["a", "b"]]; sylvia::utils::assert_no_intersection(m) }; //~ ERROR
const _: () = { let m: [&[&str]; 3] = [&["a", "b"], &["c"], &["a", "c"]]; sylvia::utils::assert_no_intersection(m) }; //~ ERROR
const _: () = { let m: [&[&str]; 3] = [&["a", "b"], &["c"], &["b", "c"]]; sylvia::utils::assert_no_intersection(m) }; //~ ERROR
const _: () = { let m: [&[&str]; 3] = [&["a", "b"], &["a", "b"], &[]]; sylvia::utils::assert_no_intersection(m) }; //~ ERROR
const _: () = { let m: [&[&str]; 3] = [&["a", "b"], &["a", "b"], &["a"]]; sylvia::utils::assert_no_intersection(m) }; //~ ERROR
const _: () = { let m: [&[&str]; 3] = [&["a", "b"], &["a", "b"], &["b"]]; sylvia::utils::assert_no_intersection(m) }; //~ ERROR
const _: () = { let m: [&[&str]; 3] = [&["a", "b"], &["a", "b"], &["c"]]; sylvia::utils::assert_no_intersection(m) }; //~ ERROR
const _: () = { let m: [&[&str]; 3] = [&["a", "b"], &["a", "b"], &["a", "b"]]; sylvia::utils::assert_no_intersection(m) }; //~ ERROR
const _: () = { let m: [&[&str]; 3] = [&["a", "b"], &["a", "b"], &["a", "c"]]; sylvia::utils::assert_no_intersection(m) }; //~ ERROR
const _: () = { let m: [&[&str]; 3] = [&["a", "b"], &["a", "b"], &["b", "c"]]; sylvia::utils::assert_no_intersection(m) }; //~ ERROR
const _: () = { let m: [&[&str]; 3] = [&["a", "b"], &["a", "c"], &[]]; sylvia::utils::assert_no_intersection(m) }; //~ ERROR
const _: () = { let m: [&[&str]; 3] = [&["a", "b"], &["a", "c"], &["a"]]; sylvia::utils::assert_no_intersection(m) }; //~ ERROR
const _: () = { let m: [&[&str]; 3] = [&["a", "b"], &["a", "c"], &["b"]]; sylvia::utils::assert_no_intersection(m) }; //~ ERROR
const _: () = { let m: [&[&str]; 3] = [&["a", "b"], &["a", "c"], &["c"]]; sylvia::utils::assert_no_intersection(m) }; //~ ERROR
const _: () = { let m: [&[&str]; 3] = [&["a", "b"], &["a", "c"], &["a", "b"]]; sylvia::utils::assert_no_intersection(m) }; //~ ERROR
const _: () = { let m: [&[&str]; 3] = [&["a", "b"], &["a", "c"], &["a", "c"]]; sylvia::utils::assert_no_intersection(m) }; //~ ERROR
const _: () = { let m: [&[&str]; 3] = [&["a", "b"], &["a", "c"], &["b", "c"]]; sylvia::utils::assert_no_intersection(m) }; //~ ERROR
const _: () = { let m: [&[&str]; 3] = [&["a", "b"], &["b", "c"], &[]]; sylvia::utils::assert_no_intersection(m) }; //~ ERROR
const _: () = { let m: [&[&str]; 3] = [&["a", "b"], &["b", "c"], &["a"]]; sylvia::utils::assert_no_intersection(m) }; //~ ERROR
const _: () = { let m: [&[&str]; 3] = [&["a", "b"], &["b", "c"], &["b"]]; sylvia::utils::assert_no_intersection(m) }; //~ ERROR
const _: () = { let m: [&[&str]; 3] = [&["a", "b"], &["b", "c"], &["c"]]; sylvia::utils::assert_no_intersection(m) }; //~ ERROR
const _: () = { let m: [&[&str]; 3] = [&["a", "b"], &["b", "c"], &["a", "b"]]; sylvia::utils::assert_no_intersection(m) }; //~ ERROR
const _: () = { let m: [&[&str]; 3] = [&["a", "b"], &["b", "c"], &["a", "c"]]; sylvia::utils::assert_no_intersection(m) }; //~ ERROR
const _: () = { let m: [&[&str]; 3] = [&["a", "b"], &["b", "c"], &["b", "c"]]; sylvia::utils::assert_no_intersection(m) }; //~ ERROR
const _: () = { let m: [&[&str]; 3] = [&["a", "c"], &[], &[]]; sylvia::utils::assert_no_intersection(m) };
const _: () = { let m: [&[&str]; 3] = [&["a", "c"], &[], &["a"]]; sylvia::utils::assert_no_intersection(m) }; //~ ERROR
const _: () = { let m: [&[&str]; 3] = [&["a", "c"], &[], &["b"]]; sylvia::utils::assert_no_intersection(m) };
const _: () = { let m: [&[&str]; 3] = [&["a", "c"], &[], &["c"]]; sylvia::utils::assert_no_intersection(m) }; //~ ERROR
const _: () = { let m: [&[&str]; 3] = [&["a", "c"], &[], &["a", "b"]]; sylvia::utils::assert_no_intersection(m) }; //~ ERROR
const _: () = { let m: [&[&str]; 3] = [&["a", "c"], &[], &["a", "c"]]; sylvia::utils::assert_no_intersection(m) }; //~ ERROR
const _: () = { let m: [&[&str]; 3] = [&["a", "c"], &[], &["b", "c"]]; sylvia::utils::assert_no_intersection(m) }; //~ ERROR
const _: () = { let m: [&[&str]; 3] = [&["a", "c"], &["a"], &[]]; sylvia::utils::assert_no_intersection(m) }; //~ ERROR
const _: () = { let m: [&[&str]; 3] = [&["a", "c"], &["a"], &["a"]]; sylvia::utils::assert_no_intersection(m) }; //~ ERROR
const _: () = { let m: [&[&str]; 3] = [&["a", "c"], &["a"], &["b"]]; sylvia::utils::assert_no_intersection(m) }; //~ ERROR
const _: () = { let m: [&[&str]; 3] = [&["a", "c"], &["a"], &["c"]]; sylvia::utils::assert_no_intersection(m) }; //~ ERROR
const _: () = { let m: [&[&str]; 3] = [&["a", "c"], &["a"], &["a", "b"]]; sylvia::utils::assert_no_intersection(m) }; //~ ERROR
const _: () = { let m: [&[&str]; 3] = [&["a", "c"], &["a"], &["a", "c"]]; sylvia::utils::assert_no_intersection(m) }; //~ ERROR
const _: () = { let m: [&[&str]; 3] = [&["a", "c"], &["a"], &["b", "c"]]; sylvia::utils::assert_no_intersection(m) }; //~ ERROR
const _: () = { let m: [&[&str]; 3] = [&["a", "c"], &["b"], &[]]; sylvia::utils::assert_no_intersection(m) };
const _: () = { let m: [&[&str]; 3] = [&["a", "c"], &["b"], &["a"]]; sylvia::utils::assert_no_intersection(m) }; //~ ERROR
const _: () = { let m: [&[&str]; 3] = [&["a", "c"], &["b"], &["b"]]; sylvia::utils::assert_no_intersection(m) }; //~ ERROR
const _: () = { let m: [&[&str]; 3] = [&["a", "c"], &["b"], &["c"]]; sylvia::utils::assert_no_intersection(m) }; //~ ERROR
const _: () = { let m: [&[&str]; 3] = [&["a", "c"], &["b"], &["a", "b"]]; sylvia::utils::assert_no_intersection(m) }; //~ ERROR
const _: () = { let m: [&[&str]; 3] = [&["a", "c"], &["b"], &["a", "c"]]; sylvia::utils::assert_no_intersection(m) }; //~ ERROR
const _: () = { let m: [&[&str]; 3] = [&["a", "c"], &["b"], &["b", "c"]]; sylvia::utils::assert_no_intersection(m) }; //~ ERROR
const _: () = { let m: [&[&str]; 3] = [&["a", "c"], &["c"], &[]]; sylvia::utils::assert_no_intersection(m) }; //~ ERROR
const _: () = { let m: [&[&str]; 3] = [&["a", "c"], &["c"], &["a"]]; sylvia::utils::assert_no_intersection(m) }; //~ ERROR
const _: () = { let m: [&[&str]; 3] = [&["a", "c"], &["c"], &["b"]]; sylvia::utils::assert_no_intersection(m) }; //~ ERROR
const _: () = { let m: [&[&str]; 3] = [&["a", "c"], &["c"], &["c"]]; sylvia::utils::assert_no_intersection(m) }; //~ ERROR
const _: () = { let m: [&[&str]; 3] = [&["a", "c"], &["c"], &["a", "b"]]; sylvia::utils::assert_no_intersection(m) }; //~ ERROR
const _: () = { let m: [&[&str]; 3] = [&["a", "c"], &["c"], &["a", "c"]]; sylvia::utils::assert_no_intersection(m) }; //~ ERROR
const _: () = { let m: [&[&str]; 3] = [&["a", "c"], &["c"], &["b", "c"]]; sylvia::utils::assert_no_intersection(m) }; //~ ERROR
const _: () = { let m: [&[&str]; 3] = [&["a", "c"], &["a", "b"], &[]]; sylvia::utils::assert_no_intersection(m) }; //~ ERROR
const _: () = { let m: [&[&str]; 3] = [&["a", "c"], &["a", "b"], &["a"]]; sylvia::utils::assert_no_intersection(m) }; //~ ERROR
const _: () = { let m: [&[&str]; 3] = [&["a", "c"], &["a", "b"], &["b"]]; sylvia::utils::assert_no_intersection(m) }; //~ ERROR
const _: () = { let m: [&[&str]; 3] = [&["a", "c"], &["a", "b"], &["c"]]; sylvia::utils::assert_no_intersection(m) }; //~ ERROR
const _: () = { let m: [&[&str]; 3] = [&["a", "c"], &["a", "b"], &["a", "b"]]; sylvia::utils::assert_no_intersection(m) }; //~ ERROR
const _: () = { let m: [&[&str]; 3] = [&["a", "c"], &["a", "b"], &["a", "c"]]; sylvia::utils::assert_no_intersection(m) }; //~ ERROR
const _: () = { let m: [&[&str]; 3] = [&["a", "c"], &["a", "b"], &["b", "c"]]; sylvia::utils::assert_no_intersection(m) }; //~ ERROR
const _: () = { let m: [&[&str]; 3] = [&["a", "c"], &["a", "c"], &[]]; sylvia::utils::assert_no_intersection(m) }; //~ ERROR
const _: () = { let m: [&[&str]; 3] = [&["a", "c"], &["a", "c"], &["a"]]; sylvia::utils::assert_no_intersection(m) }; //~ ERROR
const _: () = { let m: [&[&str]; 3] = [&["a", "c"], &["a", "c"], &["b"]]; sylvia::utils::assert_no_intersection(m) }; //~ ERROR
const _: () = { let m: [&[&str]; 3] = [&["a", "c"], &["a", "c"], &["c"]]; sylvia::utils::assert_no_intersection(m) }; //~ ERROR
const _: () = { let m: [&[&str]; 3] = [&["a", "c"], &["a", "c"], &["a", "b"]]; sylvia::utils::assert_no_intersection(m) }; //~ ERROR
const _: () = { let m: [&[&str]; 3] = [&["a", "c"], &["a", "c"], &["a", "c"]]; sylvia::utils::assert_no_intersection(m) }; //~ ERROR
const _: () = { let m: [&[&str]; 3] = [&["a", "c"], &["a", "c"], &["b", "c"]]; sylvia::utils::assert_no_intersection(m) }; //~ ERROR
const _: () = { let m: [&[&str]; 3] = [&["a", "c"], &["b", "c"], &[]]; sylvia::utils::assert_no_intersection(m) }; //~ ERROR
const _: () = { let m: [&[&str]; 3] = [&["a", "c"], &["b", "c"], &["a"]]; sylvia::utils::assert_no_intersection(m) }; //~ ERROR
const _: () = { let m: [&[&str]; 3] = [&["a", "c"], &["b", "c"], &["b"]]; sylvia::utils::assert_no_intersection(m) }; //~ ERROR
const _: () = { let m: [&[&str]; 3] = [&["a", "c"], &["b", "c"], &["c"]]; sylvia::utils::assert_no_intersection(m) }; //~ ERROR
const _: () = { let m: [&[&str]; 3] = [&["a", "c"], &["b", "c"], &["a", "b"]]; sylvia::utils::assert_no_intersection(m) }; //~ ERROR
const _: () = { let m: [&[&str]; 3] = [&["a", "c"], &["b", "c"], &["a", "c"]]; sylvia::utils::assert_no_intersection(m) }; //~ ERROR
const _: () = { let m: [&[&str]; 3] = [&["a", "c"], &["b", "c"], &["b", "c"]]; sylvia::utils::assert_no_intersection(m) }; //~ ERROR
const _: () = { let m: [&[&str]; 3] = [&["b", "c"], &[], &[]]; sylvia::utils::assert_no_intersection(m) };
const _: () = { let m: [&[&str]; 3] = [&["b", "c"], &[], &["a"]]; sylvia::utils::assert_no_intersection(m) };
const _: () = { let m: [&[&str]; 3] = [&["b", "c"], &[], &["b"]]; sylvia::utils::assert_no_intersection(m) }; //~ ERROR
const _: () = { let m: [&[&str]; 3] = [&["b", "c"], &[], &["c"]]; sylvia::utils::assert_no_intersection(m) }; //~ ERROR
const _: () = { let m: [&[&str]; 3] = [&["b", "c"], &[], &["a", "b"]]; sylvia::utils::assert_no_intersection(m) }; //~ ERROR
const _: () = { let m: [&[&str]; 3] = [&["b", "c"], &[], &["a", "c"]]; sylvia::utils::assert_no_intersection(m) }; //~ ERROR
const _: () = { let m: [&[&str]; 3] = [&["b", "c"], &[], &["b", "c"]]; sylvia::utils::assert_no_intersection(m) }; //~ ERROR
const _: () = { let m: [&[&str]; 3] = [&["b", "c"], &["a"], &[]]; sylvia::utils::assert_no_intersection(m) };
const _: () = { let m: [&[&str]; 3] = [&["b", "c"], &["a"], &["a"]]; sylvia::utils::assert_no_intersection(m) }; //~ ERROR
const _: () = { let m: [&[&str]; 3] = [&["b", "c"], &["a"], &["b"]]; sylvia::utils::assert_no_intersection(m) }; //~ ERROR
const _: () = { let m: [&[&str]; 3] = [&["b", "c"], &["a"], &["c"]]; sylvia::utils::assert_no_intersection(m) }; //~ ERROR
const _: () = { let m: [&[&str]; 3] = [&["b", "c"], &["a"], &["a", "b"]]; sylvia::utils::assert_no_intersection(m) }; //~ ERROR
const _: () = { let m: [&[&str]; 3] = [&["b", "c"], &["a"], &["a", "c"]]; sylvia::utils::assert_no_intersection(m) }; //~ ERROR
const _: () = { let m: [&[&str]; 3] = [&["b", "c"], &["a"], &["b", "c"]]; sylvia::utils::assert_no_intersection(m) }; //~ ERROR
const _: () = { let m: [&[&str]; 3] = [&["b", "c"], &["b"], &[]]; sylvia::utils::assert_no_intersection(m) }; //~ ERROR
const _: () = { let m: [&[&str]; 3] = [&["b", "c"], &["b"], &["a"]]; sylvia::utils::assert_no_intersection(m) }; //~ ERROR
const _: () = { let m: [&[&str]; 3] = [&["b", "c"], &["b"], &["b"]]; sylvia::utils::assert_no_intersection(m) }; //~ ERROR
const _: () = { let m: [&[&str]; 3] = [&["b", "c"], &["b"], &["c"]]; sylvia::utils::assert_no_intersection(m) }; //~ ERROR
const _: () = { let m: [&[&str]; 3] = [&["b", "c"], &["b"], &["a", "b"]]; sylvia::utils::assert_no_intersection(m) }; //~ ERROR
const _: () = { let m: [&[&str]; 3] = [&["b", "c"], &["b"], &["a", "c"]]; sylvia::utils::assert_no_intersection(m) }; //~ ERROR
const _: () = { let m: [&[&str]; 3] = [&["b", "c"], &["b"], &["b", "c"]]; sylvia::utils::assert_no_intersection(m) }; //~ ERROR
const _: () = { let m: [&[&str]; 3] = [&["b", "c"], &["c"], &[]]; sylvia::utils::assert_no_intersection(m) }; //~ ERROR
const _: () = { let m: [&[&str]; 3] = [&["b", "c"], &["c"], &["a"]]; sylvia::utils::assert_no_intersection(m) }; //~ ERROR
const _: () = { let m: [&[&str]; 3] = [&["b", "c"], &["c"], &["b"]]; sylvia::utils::assert_no_intersection(m) }; //~ ERROR
const _: () = { let m: [&[&str]; 3] = [&["b", "c"], &["c"], &["c"]]; sylvia::utils::assert_no_intersection(m) }; //~ ERROR
const _: () = { let m: [&[&str]; 3] = [&["b", "c"], &["c"], &["a", "b"]]; sylvia::utils::assert_no_intersection(m) }; //~ ERROR
const _: () = { let m: [&[&str]; 3] = [&["b", "c"], &["c"], &["a", "c"]]; sylvia::utils::assert_no_intersection(m) }; //~ ERROR
const _: () = { let m: [&[&str]; 3] = [&["b", "c"], &["c"], &["b", "c"]]; sylvia::utils::assert_no_intersection(m) }; //~ ERROR
const _: () = { let m: [&[&str]; 3] = [&["b", "c"], &["a", "b"], &[]]; sylvia::utils::assert_no_intersection(m) }; //~ ERROR
const _: () = { let m: [&[&str]; 3] = [&["b", "c"], &["a", "b"], &["a"]]; sylvia::utils::assert_no_intersection(m) }; //~ ERROR
const _: () = { let m: [&[&str]; 3] = [&["b", "c"], &["a", "b"], &["b"]]; sylvia::utils::assert_no_intersection(m) }; //~ ERROR
const _: () = { let m: [&[&str]; 3] = [&["b", "c"], &["a", "b"], &["c"]]; sylvia::utils::assert_no_intersection(m) }; //~ ERROR
const _: () = { let m: [&[&str]; 3] = [&["b", "c"], &["a", "b"], &["a", "b"]]; sylvia::utils::assert_no_intersection(m) }; //~ ERROR
const _: () = { let m: [&[&str]; 3] = [&["b", "c"], &["a", "b"], &["a", "c"]]; sylvia::utils::assert_no_intersection(m) }; //~ ERROR
const _: () = { let m: [&[&str]; 3] = [&["b", "c"], &["a", "b"], &["b", "c"]]; sylvia::utils::assert_no_intersection(m) }; //~ ERROR
const _: () = { let m: [&[&str]; 3] = [&["b", "c"], &["a", "c"], &[]]; sylvia::utils::assert_no_intersection(m) }; //~ ERROR
const _: () = { let m: [&[&str]; 3] = [&["b", "c"], &["a", "c"], &["a"]]; sylvia::utils::assert_no_intersection(m) }; //~ ERROR
const _: () = { let m: [&[&str]; 3] = [&["b", "c"], &["a", "c"], &["b"]]; sylvia::utils::assert_no_intersection(m) }; //~ ERROR
const _: () = { let m: [&[&str]; 3] = [&["b", "c"], &["a", "c"], &["c"]]; sylvia::utils::assert_no_intersection(m) }; //~ ERROR
const _: () = { let m: [&[&str]; 3] = [&["b", "c"], &["a", "c"], &["a", "b"]]; sylvia::utils::assert_no_intersection(m) }; //~ ERROR
const _: () = { let m: [&[&str]; 3] = [&["b", "c"], &["a", "c"], &["a", "c"]]; sylvia::utils::assert_no_intersection(m) }; //~ ERROR
const _: () = { let m: [&[&str]; 3] = [&["b", "c"], &["a", "c"], &["b", "c"]]; sylvia::utils::assert_no_intersection(m) }; //~ ERROR
const _: () = { let m: [&[&str]; 3] = [&["b", "c"], &["b", "c"], &[]]; sylvia::utils::assert_no_intersection(m) }; //~ ERROR
const _: () = { let m: [&[&str]; 3] = [&["b", "c"], &["b", "c"], &["a"]]; sylvia::utils::assert_no_intersection(m) }; //~ ERROR
const _: () = { let m: [&[&str]; 3] = [&["b", "c"], &["b", "c"], &["b"]]; sylvia::utils::assert_no_intersection(m) }; //~ ERROR
const _: () = { let m: [&[&str]; 3] = [&["b", "c"], &["b", "c"], &["c"]]; sylvia::utils::assert_no_intersection(m) }; //~ ERROR
const _: () = { let m: [&[&str]; 3] = [&["b", "c"], &["b", "c"], &["a", "b"]]; sylvia::utils::assert_no_intersection(m) }; //~ ERROR
const _: () = { let m: [&[&str]; 3] = [&["b", "c"], &["b", "c"], &["a", "c"]]; sylvia::utils::assert_no_intersection(m) }; //~ ERROR
const _: () = { let m: [&[&str]; 3] = [&["b", "c"], &["b", "c"], &["b", "c"]]; sylvia::utils::assert_no_intersection(m) }; //~ ERROR
fn main() {}
