//@ props: C05
//@ expect: fail
//@ exact: yes
//@ index: no
//@ what: same over {a,bb,c}: a longer name between shorter ones
#![allow(dead_code)]
const _: () = { let m: [&[&str]; 1] = [&[]]; sylvia::utils::assert_no_intersection(m) };
const _: () = { let m: [&[&str]; 1] = [&["a"]]; sylvia::utils::assert_no_intersection(m) };
const _: () = { let m: [&[&str]; 1] = [&["bb"]]; sylvia::utils::assert_no_intersection(m) };
const _: () = { let m: [&[&str]; 1] = [&["c"]]; sylvia::utils::assert_no_intersection(m) };
const _: () = { let m: [&[&str]; 1] = [&["a", "bb"]]; sylvia::utils::assert_no_intersection(m) };
const _: () = { let m: [&[&str]; 1] = [&["a", "c"]]; sylvia::utils::assert_no_intersection(m) };
const _: () = { let m: [&[&str]; 1] = [&["bb", "c"]]; sylvia::utils::assert_no_intersection(m) };
const _: () = { let m: [&[&str]; 2] = [&[], &[]]; sylvia::utils::assert_no_intersection(m) };
const _: () = { let m: [&[&str]; 2] = [&[], &["a"]]; sylvia::utils::assert_no_intersection(m) };
const _: () = { let m: [&[&str]; 2] = [&[], &["bb"]]; sylvia::utils::assert_no_intersection(m) };
const _: () = { let m: [&[&str]; 2] = [&[], &["c"]]; sylvia::utils::assert_no_intersection(m) };
const _: () = { let m: [&[&str]; 2] = [&[], &["a", "bb"]]; sylvia::utils::assert_no_intersection(m) };
const _: () = { let m: [&[&str]; 2] = [&[], &["a", "c"]]; sylvia::utils::assert_no_intersection(m) };
const _: () = { let m: [&[&str]; 2] = [&[], &["bb", "c"]]; sylvia::utils::assert_no_intersection(m) };
const _: () = { let m: [&[&str]; 2] = [&["a"], &[]]; sylvia::utils::assert_no_intersection(m) };
const _: () = { let m: [&[&str]; 2] = [&["a"], &["a"]]; sylvia::utils::assert_no_intersection(m) }; //~ ERROR
const _: () = { let m: [&[&str]; 2] = [&["a"], &["bb"]]; sylvia::utils::assert_no_intersection(m) };
const _: () = { let m: [&[&str]; 2] = [&["a"], &["c"]]; sylvia::utils::assert_no_intersection(m) };
const _: () = { let m: [&[&str]; 2] = [&["a"], &["a", "bb"]]; sylvia::utils::assert_no_intersection(m) }; //~ ERROR
const _: () = { let m: [&[&str]; 2] = [&["a"], &["a", "c"]]; sylvia::utils::assert_no_intersection(m) }; //~ ERROR
const _: () = { let m: [&[&str]; 2] = [&["a"], &["bb", "c"]]; sylvia::utils::assert_no_intersection(m) };
const _: () = { let m: [&[&str]; 2] = [&["bb"], &[]]; sylvia::utils::assert_no_intersection(m) };
const _: () = { let m: [&[&str]; 2] = [&["bb"], &["a"]]; sylvia::utils::assert_no_intersection(m) };
const _: () = { let m: [&[&str]; 2] = [&["bb"], &["bb"]]; sylvia::utils::assert_no_intersection(m) }; //~ ERROR
const _: () = { let m: [&[&str]; 2] = [&["bb"], &["c"]]; sylvia::utils::assert_no_intersection(m) };
const _: () = { let m: [&[&str]; 2] = [&["bb"], &["a", "bb"]]; sylvia::utils::assert_no_intersection(m) }; //~ ERROR
const _: () = { let m: [&[&str]; 2] = [&["bb"], &["a", "c"]]; sylvia::utils::assert_no_intersection(m) };
const _: () = { let m: [&[&str]; 2] = [&["bb"], &["bb", "c"]]; sylvia::utils::assert_no_intersection(m) }; //~ ERROR
const _: () = { let m: [&[&str]; 2] = [&["c"], &[]]; sylvia::utils::assert_no_intersection(m) };
const _: () = { let m: [&[&str]; 2] = [&["c"], &["a"]]; sylvia::utils::assert_no_intersection(m) };
const _: () = { let m: [&[&str]; 2] = [&["c"], &["bb"]]; sylvia::utils::assert_no_intersection(m) };
const _: () = { let m: [&[&str]; 2] = [&["c"], &["c"]]; sylvia::utils::assert_no_intersection(m) }; //~ ERROR
const _: () = { let m: [&[&str]; 2] = [&["c"], &["a", "bb"]]; sylvia::utils::assert_no_intersection(m) };
const _: () = { let m: [&[&str]; 2] = [&["c"], &["a", "c"]]; sylvia::utils::assert_no_intersection(m) }; //~ ERROR
const _: () = { let m: [&[&str]; 2] = [&["c"], &["bb", "c"]]; sylvia::utils::assert_no_intersection(m) }; //~ ERROR
const _: () = { let m: [&[&str]; 2] = [&["a", "bb"], &[]]; sylvia::utils::assert_no_intersection(m) };
const _: () = { let m: [&[&str]; 2] = [&["a", "bb"], &["a"]]; sylvia::utils::assert_no_intersection(m) }; //~ ERROR
const _: () = { let m: [&[&str]; 2] = [&["a", "bb"], &["bb"]]; sylvia::utils::assert_no_intersection(m) }; //~ ERROR
const _: () = { let m: [&[&str]; 2] = [&["a", "bb"], &["c"]]; sylvia::utils::assert_no_intersection(m) };
const _: () = { let m: [&[&str]; 2] = [&["a", "bb"], &["a", "bb"]]; sylvia::utils::assert_no_intersection(m) }; //~ ERROR
const _: () = { let m: [&[&str]; 2] = [&["a", "bb"], &["a", "c"]]; sylvia::utils::assert_no_intersection(m) }; //~ ERROR
const _: () = { let m: [&[&str]; 2] = [&["a", "bb"], &["bb", "c"]]; sylvia::utils::assert_no_intersection(m) }; //~ ERROR
const _: () = { let m: [&[&str]; 2] = [&["a", "c"], &[]]; sylvia::utils::assert_no_intersection(m) };
const _: () = { let m: [&[&str]; 2] = [&["a", "c"], &["a"]]; sylvia::utils::assert_no_intersection(m) }; //~ ERROR
const _: () = { let m: [&[&str]; 2] = [&["a", "c"], &["bb"]]; sylvia::utils::assert_no_intersection(m) };
const _: () = { let m: [&[&str]; 2] = [&["a", "c"], &["c"]]; sylvia::utils::assert_no_intersection(m) }; //~ ERROR
const _: () = { let m: [&[&str]; 2] = [&["a", "c"], &["a", "bb"]]; sylvia::utils::assert_no_intersection(m) }; //~ ERROR
const _: () = { let m: [&[&str]; 2] = [&["a", "c"], &["a", "c"]]; sylvia::utils::assert_no_intersection(m) }; //~ ERROR
const _: () = { let m: [&[&str]; 2] = [&["a", "c"], &["bb", "c"]]; sylvia::utils::assert_no_intersection(m) }; //~ ERROR
const _: () = { let m: [&[&str]; 2] = [&["bb", "c"], &[]]; sylvia::utils::assert_no_intersection(m) };
const _: () = { let m: [&[&str]; 2] = [&["bb", "c"], &["a"]]; sylvia::utils::assert_no_intersection(m) };
const _: () = { let m: [&[&str]; 2] = [&["bb", "c"], &["bb"]]; sylvia::utils::assert_no_intersection(m) }; //~ ERROR
const _: () = { let m: [&[&str]; 2] = [&["bb", "c"], &["c"]]; sylvia::utils::assert_no_intersection(m) }; //~ ERROR
const _: () = { let m: [&[&str]; 2] = [&["bb", "c"], &["a", "bb"]]; sylvia::utils::assert_no_intersection(m) }; //~ ERROR
const _: () = { let m: [&[&str]; 2] = [&["bb", "c"], &["a", "c"]]; sylvia::utils::assert_no_intersection(m) }; //~ ERROR
const _: () = { let m: [&[&str]; 2] = [&["bb", "c"], &["bb", "c"]]; sylvia::utils::assert_no_intersection(m) }; //~ ERROR
const _: () = { let m: [&[&str]; 3] = [&[], &[], &[]]; sylvia::utils::assert_no_intersection(m) };
const _: () = { let m: [&[&str]; 3] = [&[], &[], &["a"]]; sylvia::utils::assert_no_intersection(m) };
const _: () = { let m: [&[&str]; 3] = [&[], &[], &["bb"]]; sylvia::utils::assert_no_intersection(m) };
const _: () = { let m: [&[&str]; 3] = [&[], &[], &["c"]]; sylvia::utils::assert_no_intersection(m) };
const _: () = { let m: [&[&str]; 3] = [&[], &[], &["a", "bb"]]; sylvia::utils::assert_no_intersection(m) };
const _: () = { let m: [&[&str]; 3] = [&[], &[], &["a", "c"]]; sylvia::utils::assert_no_intersection(m) };
const _: () = { let m: [&[&str]; 3] = [&[], &[], &["bb", "c"]]; sylvia::utils::assert_no_intersection(m) };
const _: () = { let m: [&[&str]; 3] = [&[], &["a"], &[]]; sylvia::utils::assert_no_intersection(m) };
const _: () = { let m: [&[&str]; 3] = [&[], &["a"], &["a"]]; sylvia::utils::assert_no_intersection(m) }; //~ ERROR
const _: () = { let m: [&[&str]; 3] = [&[], &["a"], &["bb"]]; sylvia::utils::assert_no_intersection(m) };
const _: () = { let m: [&[&str]; 3] = [&[], &["a"], &["c"]]; sylvia::utils::assert_no_intersection(m) };
const _: () = { let m: [&[&str]; 3] = [&[], &["a"], &["a", "bb"]]; sylvia::utils::assert_no_intersection(m) }; //~ ERROR
const _: () = { let m: [&[&str]; 3] = [&[], &["a"], &["a", "c"]]; sylvia::utils::assert_no_intersection(m) }; //~ ERROR
const _: () = { let m: [&[&str]; 3] = [&[], &["a"], &["bb", "c"]]; sylvia::utils::assert_no_intersection(m) };
const _: () = { let m: [&[&str]; 3] = [&[], &["bb"], &[]]; sylvia::utils::assert_no_intersection(m) };
const _: () = { let m: [&[&str]; 3] = [&[], &["bb"], &["a"]]; sylvia::utils::assert_no_intersection(m) };
const _: () = { let m: [&[&str]; 3] = [&[], &["bb"], &["bb"]]; sylvia::utils::assert_no_intersection(m) }; //~ ERROR
const _: () = { let m: [&[&str]; 3] = [&[], &["bb"], &["c"]]; sylvia::utils::assert_no_intersection(m) };
const _: () = { let m: [&[&str]; 3] = [&[], &["bb"], &["a", "bb"]]; sylvia::utils::assert_no_intersection(m) }; //~ ERROR
const _: () = { let m: [&[&str]; 3] = [&[], &["bb"], &["a", "c"]]; sylvia::utils::assert_no_intersection(m) };
const _: () = { let m: [&[&str]; 3] = [&[], &["bb"], &["bb", "c"]]; sylvia::utils::assert_no_intersection(m) }; //~ ERROR
const _: () = { let m: [&[&str]; 3] = [&[], &["c"], &[]]; sylvia::utils::assert_no_intersection(m) };
const _: () = { let m: [&[&str]; 3] = [&[], &["c"], &["a"]]; sylvia::utils::assert_no_intersection(m) };
const _: () = { let m: [&[&str]; 3] = [&[], &["c"], &["bb"]]; sylvia::utils::assert_no_intersection(m) };
const _: () = { let m: [&[&str]; 3] = [&[], &["c"], &["c"]]; sylvia::utils::assert_no_intersection(m) }; //~ ERROR
const _: () = { let m: [&[&str]; 3] = [&[], &["c"], &["a", "bb"]]; sylvia::utils::assert_no_intersection(m) };
const _: () = { let m: [&[&str]; 3] = [&[], &["c"], &["a", "c"]]; sylvia::utils::assert_no_intersection(m) }; //~ ERROR
const _: () = { let m: [&[&str]; 3] = [&[], &["c"], &["bb", "c"]]; sylvia::utils::assert_no_intersection(m) }; //~ ERROR
const _: () = { let m: [&[&str]; 3] = [&[], &["a", "bb"], &[]]; sylvia::utils::assert_no_intersection(m) };
const _: () = { let m: [&[&str]; 3] = [&[], &["a", "bb"], &["a"]]; sylvia::utils::assert_no_intersection(m) }; //~ ERROR
const _: () = { let m: [&[&str]; 3] = [&[], &["a", "bb"], &["bb"]]; sylvia::utils::assert_no_intersection(m) }; //~ ERROR
const _: () = { let m: [&[&str]; 3] = [&[], &["a", "bb"], &["c"]]; sylvia::utils::assert_no_intersection(m) };
const _: () = { let m: [&[&str]; 3] = [&[], &["a", "bb"], &["a", "bb"]]; sylvia::utils::assert_no_intersection(m) }; //~ ERROR
const _: () = { let m: [&[&str]; 3] = [&[], &["a", "bb"], &["a", "c"]]; sylvia::utils::assert_no_intersection(m) }; //~ ERROR
const _: () = { let m: [&[&str]; 3] = [&[], &["a", "bb"], &["bb", "c"]]; sylvia::utils::assert_no_intersection(m) }; //~ ERROR
const _: () = { let m: [&[&str]; 3] = [&[], &["a", "c"], &[]]; sylvia::utils::assert_no_intersection(m) };
const _: () = { let m: [&[&str]; 3] = [&[], &["a", "c"], &["a"]]; sylvia::utils::assert_no_intersection(m) }; //~ ERROR
const _: () = { let m: [&[&str]; 3] = [&[], &["a", "c"], &["bb"]]; sylvia::utils::assert_no_intersection(m) };
const _: () = { let m: [&[&str]; 3] = [&[], &["a", "c"], &["c"]]; sylvia::utils::assert_no_intersection(m) }; //~ ERROR
const _: () = { let m: [&[&str]; 3] = [&[], &["a", "c"], &["a", "bb"]]; sylvia::utils::assert_no_intersection(m) }; //~ ERROR
const _: () = { let m: [&[&str]; 3] = [&[], &["a", "c"], &["a", "c"]]; sylvia::utils::assert_no_intersection(m) }; //~ ERROR
const _: () = { let m: [&[&str]; 3] = [&[], &["a", "c"], &["bb", "c"]]; sylvia::utils::assert_no_intersection(m) }; //~ ERROR
const _: () = { let m: [&[&str]; 3] = [&[], &["bb", "c"], &[]]; sylvia::utils::assert_no_intersection(m) };
const _: () = { let m: [&[&str]; 3] = [&[], &["bb", "c"], &["a"]]; sylvia::utils::assert_no_intersection(m) };
const _: () = { let m: [&[&str]; 3] = [&[], &["bb", "c"], &["bb"]]; sylvia::utils::assert_no_intersection(m) }; //~ ERROR
const _: () = { let m: [&[&str]; 3] = [&[], &["bb", "c"], &["c"]]; sylvia::utils::assert_no_intersection(m) }; //~ ERROR
const _: () = { let m: [&[&str]; 3] = [&[], &["bb", "c"], &["a", "bb"]]; sylvia::utils::assert_no_intersection(m) }; //~ ERROR
const _: () = { let m: [&[&str]; 3] = [&[], &["bb", "c"], &["a", "c"]]; sylvia::utils::assert_no_intersection(m) }; //~ ERROR
const _: () = { let m: [&[&str]; 3] = [&[], &["bb", "c"], &["bb", "c"]]; sylvia::utils::assert_no_intersection(m) }; //~ ERROR
const _: () = { let m: [&[&str]; 3] = [&["a"], &[], &[]]; sylvia::utils::assert_no_intersection(m) };
const _: () = { let m: [&[&str]; 3] = [&["a"], &[], &["a"]]; sylvia::utils::assert_no_intersection(m) }; //~ ERROR
const _: () = { let m: [&[&str]; 3] = [&["a"], &[], &["bb"]]; sylvia::utils::assert_no_intersection(m) };
const _: () = { let m: [&[&str]; 3] = [&["a"], &[], &["c"]]; sylvia::utils::assert_no_intersection(m) };
const _: () = { let m: [&[&str]; 3] = [&["a"], &[], &["a", "bb"]]; sylvia::utils::assert_no_intersection(m) }; //~ ERROR
const _: () = { let m: [&[&str]; 3] = [&["a"], &[], &["a", "c"]]; sylvia::utils::assert_no_intersection(m) }; //~ ERROR
const _: () = { let m: [&[&str]; 3] = [&["a"], &[], &["bb", "c"]]; sylvia::utils::assert_no_intersection(m) };
const _: () = { let m: [&[&str]; 3] = [&["a"], &["a"], &[]]; sylvia::utils::assert_no_intersection(m) }; //~ ERROR
const _: () = { let m: [&[&str]; 3] = [&["a"], &["a"], &["a"]]; sylvia::utils::assert_no_intersection(m) }; //~ ERROR
const _: () = { let m: [&[&str]; 3] = [&["a"], &["a"], &["bb"]]; sylvia::utils::assert_no_intersection(m) }; //~ ERROR
const _: () = { let m: [&[&str]; 3] = [&["a"], &["a"], &["c"]]; sylvia::utils::assert_no_intersection(m) }; //~ ERROR
const _: () = { let m: [&[&str]; 3] = [&["a"], &["a"], &["a", "bb"]]; sylvia::utils::assert_no_intersection(m) }; //~ ERROR
const _: () = { let m: [&[&str]; 3] = [&["a"], &["a"], &["a", "c"]]; sylvia::utils::assert_no_intersection(m) }; //~ ERROR
const _: () = { let m: [&[&str]; 3] = [&["a"], &["a"], &["bb", "c"]]; sylvia::utils::assert_no_intersection(m) }; //~ ERROR
const _: () = { let m: [&[&str]; 3] = [&["a"], &["bb"], &[]]; sylvia::utils::assert_no_intersection(m) };
const _: () = { let m: [&[&str]; 3] = [&["a"], &["bb"], &["a"]]; sylvia::utils::assert_no_intersection(m) }; //~ ERROR
const _: () = { let m: [&[&str]; 3] = [&["a"], &["bb"], &["bb"]]; sylvia::utils::assert_no_intersection(m) }; //~ ERROR
const _: () = { let m: [&[&str]; 3] = [&["a"], &["bb"], &["c"]]; sylvia::utils::assert_no_intersection(m) };
const _: () = { let m: [&[&str]; 3] = [&["a"], &["bb"], &["a", "bb"]]; sylvia::utils::assert_no_intersection(m) }; //~ ERROR
const _: () = { let m: [&[&str]; 3] = [&["a"], &["bb"], &["a", "c"]]; sylvia::utils::assert_no_intersection(m) }; //~ ERROR
const _: () = { let m: [&[&str]; 3] = [&["a"], &["bb"], &["bb", "c"]]; sylvia::utils::assert_no_intersection(m) }; //~ ERROR
const _: () = { let m: [&[&str]; 3] = [&["a"], &["c"], &[]]; sylvia::utils::assert_no_intersection(m) };
const _: () = { let m: [&[&str]; 3] = [&["a"], &["c"], &["a"]]; sylvia::utils::assert_no_intersection(m) }; //~ ERROR
const _: () = { let m: [&[&str]; 3] = [&["a"], &["c"], &["bb"]]; sylvia::utils::assert_no_intersection(m) };
const _: () = { let m: [&[&str]; 3] = [&["a"], &["c"], &["c"]]; sylvia::utils::assert_no_intersection(m) }; //~ ERROR
const _: () = { let m: [&[&str]; 3] = [&["a"], &["c"], &["a", "bb"]]; sylvia::utils::assert_no_intersection(m) }; //~ ERROR
const _: () = { let m: [&[&str]; 3] = [&["a"], &["c"], &["a", "c"]]; sylvia::utils::assert_no_intersection(m) }; //~ ERROR
const _: () = { let m: [&[&str]; 3] = [&["a"], &["c"], &["bb", "c"]]; sylvia::utils::assert_no_intersection(m) }; //~ ERROR
const _: () = { let m: [&[&str]; 3] = [&["a"], &["a", "bb"], &[]]; sylvia::utils::assert_no_intersection(m) }; //~ ERROR
const _: () = { let m: [&[&str]; 3] = [&["a"], &["a", "bb"], &["a"]]; sylvia::utils::assert_no_intersection(m) }; //~ ERROR
const _: () = { let m: [&[&str]; 3] = [&["a"], &["a", "bb"], &["bb"]]; sylvia::utils::assert_no_intersection(m) }; //~ ERROR
const _: () = { let m: [&[&str]; 3] = [&["a"], &["a", "bb"], &["c"]]; sylvia::utils::assert_no_intersection(m) }; //~ ERROR
const _: () = { let m: [&[&str]; 3] = [&["a"], &["a", "bb"], &["a", "bb"]]; sylvia::utils::assert_no_intersection(m) }; //~ ERROR
const _: () = { let m: [&[&str]; 3] = [&["a"], &["a", "bb"], &["a", "c"]]; sylvia::utils::assert_no_intersection(m) }; //~ ERROR
const _: () = { let m: [&[&str]; 3] = [&["a"], &["a", "bb"], &["bb", "c"]]; sylvia::utils::assert_no_intersection(m) }; //~ ERROR
const _: () = { let m: [&[&str]; 3] = [&["a"], &["a", "c"], &[]]; sylvia::utils::assert_no_intersection(m) }; //~ ERROR
const _: () = { let m: [&[&str]; 3] = [&["a"], &["a", "c"], &["a"]]; sylvia::utils::assert_no_intersection(m) }; //~ ERROR
const _: () = { let m: [&[&str]; 3] = [&["a"], &["a", "c"], &["bb"]]; sylvia::utils::assert_no_intersection(m) }; //~ ERROR
const _: () = { let m: [&[&str]; 3] = [&["a"], &["a", "c"], &["c"]]; sylvia::utils::assert_no_intersection(m) }; //~ ERROR
const _: () = { let m: [&[&str]; 3] = [&["a"], &["a", "c"], &["a", "bb"]]; sylvia::utils::assert_no_intersection(m) }; //~ ERROR
const _: () = { let m: [&[&str]; 3] = [&["a"], &["a", "c"], &["a", "c"]]; sylvia::utils::assert_no_intersection(m) }; //~ ERROR
const _: () = { let m: [&[&str]; 3] = [&["a"], &["a", "c"], &["bb", "c"]]; sylvia::utils::assert_no_intersection(m) }; //~ ERROR
const _: () = { let m: [&[&str]; 3] = [&["a"], &["bb", "c"], &[]]; sylvia::utils::assert_no_intersection(m) };
const _: () = { let m: [&[&str]; 3] = [&["a"], &["bb", "c"], &["a"]]; sylvia::utils::assert_no_intersection(m) }; //~ ERROR
const _: () = { let m: [&[&str]; 3] = [&["a"], &["bb", "c"], &["bb"]]; sylvia::utils::assert_no_intersection(m) }; //~ ERROR
const _: () = { let m: [&[&str]; 3] = [&["a"], &["bb", "c"], &["c"]]; sylvia::utils::assert_no_intersection(m) }; //~ ERROR
const _: () = { let m: [&[&str]; 3] = [&["a"], &["bb", "c"], &["a", "bb"]]; sylvia::utils::assert_no_intersection(m) }; //~ ERROR
const _: () = { let m: [&[&str]; 3] = [&["a"], &["bb", "c"], &["a", "c"]]; sylvia::utils::assert_no_intersection(m) }; //~ ERROR
const _: () = { let m: [&[&str]; 3] = [&["a"], &["bb", "c"], &["bb", "c"]]; sylvia::utils::assert_no_intersection(m) }; //~ ERROR
const _: () = { let m: [&[&str]; 3] = [&["bb"], &[], &[]]; sylvia::utils::assert_no_intersection(m) };
const _: () = { let m: [&[&str]; 3] = [&["bb"], &[], &["a"]]; sylvia::utils::assert_no_intersection(m) };
const _: () = { let m: [&[&str]; 3] = [&["bb"], &[], &["bb"]]; sylvia::utils::assert_no_intersection(m) }; //~ ERROR
const _: () = { let m: [&[&str]; 3] = [&["bb"], &[], &["c"]]; sylvia::utils::assert_no_intersection(m) };
const _: () = { let m: [&[&str]; 3] = [&["bb"], &[], &["a", "bb"]]; sylvia::utils::assert_no_intersection(m) }; //~ ERROR
const _: () = { let m: [&[&str]; 3] = [&["bb"], &[], &["a", "c"]]; sylvia::utils::assert_no_intersection(m) };
const _: () = { let m: [&[&str]; 3] = [&["bb"], &[], &["bb", "c"]]; sylvia::utils::assert_no_intersection(m) }; //~ ERROR
const _: () = { let m: [&[&str]; 3] = [&["bb"], &["a"], &[]]; sylvia::utils::assert_no_intersection(m) };
const _: () = { let m: [&[&str]; 3] = [&["bb"], &["a"], &["a"]]; sylvia::utils::assert_no_intersection(m) }; //~ ERROR
const _: () = { let m: [&[&str]; 3] = [&["bb"], &["a"], &["bb"]]; sylvia::utils::assert_no_intersection(m) }; //~ ERROR
const _: () = { let m: [&[&str]; 3] = [&["bb"], &["a"], &["c"]]; sylvia::utils::assert_no_intersection(m) };
const _: () = { let m: [&[&str]; 3] = [&["bb"], &["a"], &["a", "bb"]]; sylvia::utils::assert_no_intersection(m) }; //~ ERROR
const _: () = { let m: [&[&str]; 3] = [&["bb"], &["a"], &["a", "c"]]; sylvia::utils::assert_no_intersection(m) }; //~ ERROR
const _: () = { let m: [&[&str]; 3] = [&["bb"], &["a"], &["bb", "c"]]; sylvia::utils::assert_no_intersection(m) }; //~ ERROR
const _: () = { let m: [&[&str]; 3] = [&["bb"], &["bb"], &[]]; sylvia::utils::assert_no_intersection(m) }; //~ ERROR
const _: () = { let m: [&[&str]; 3] = [&["bb"], &["bb"], &["a"]]; sylvia::utils::assert_no_intersection(m) }; //~ ERROR
const _: () = { let m: [&[&str]; 3] = [&["bb"], &["bb"], &["bb"]]; sylvia::utils::assert_no_intersection(m) }; //~ ERROR
const _: () = { let m: [&[&str]; 3] = [&["bb"], &["bb"], &["c"]]; sylvia::utils::assert_no_intersection(m) }; //~ ERROR
const _: () = { let m: [&[&str]; 3] = [&["bb"], &["bb"], &["a", "bb"]]; sylvia::utils::assert_no_intersection(m) }; //~ ERROR
const _: () = { let m: [&[&str]; 3] = [&["bb"], &["bb"], &["a", "c"]]; sylvia::utils::assert_no_intersection(m) }; //~ ERROR
const _: () = { let m: [&[&str]; 3] = [&["bb"], &["bb"], &["bb", "c"]]; sylvia::utils::assert_no_intersection(m) }; //~ ERROR
const _: () = { let m: [&[&str]; 3] = [&["bb"], &["c"], &[]]; sylvia::utils::assert_no_intersection(m) };
const _: () = { let m: [&[&str]; 3] = [&["bb"], &["c"], &["a"]]; sylvia::utils::assert_no_intersection(m) };
const _: () = { let m: [&[&str]; 3] = [&["bb"], &["c"], &["bb"]]; sylvia::utils::assert_no_intersection(m) }; //~ ERROR
const _: () = { let m: [&[&str]; 3] = [&["bb"], &["c"], &["c"]]; sylvia::utils::assert_no_intersection(m) }; //~ ERROR
const _: () = { let m: [&[&str]; 3] = [&["bb"], &["c"], &["a", "bb"]]; sylvia::utils::assert_no_intersection(m) }; //~ ERROR
const _: () = { let m: [&[&str]; 3] = [&["bb"], &["c"], &["a", "c"]]; sylvia::utils::assert_no_intersection(m) }; //~ ERROR
const _: () = { let m: [&[&str]; 3] = [&["bb"], &["c"], &["bb", "c"]]; sylvia::utils::assert_no_intersection(m) }; //~ ERROR
const _: () = { let m: [&[&str]; 3] = [&["bb"], &["a", "bb"], &[]]; sylvia::utils::assert_no_intersection(m) }; //~ ERROR
const _: () = { let m: [&[&str]; 3] = [&["bb"], &["a", "bb"], &["a"]]; sylvia::utils::assert_no_intersection(m) }; //~ ERROR
const _: () = { let m: [&[&str]; 3] = [&["bb"], &["a", "bb"], &["bb"]]; sylvia::utils::assert_no_intersection(m) }; //~ ERROR
const _: () = { let m: [&[&str]; 3] = [&["bb"], &["a", "bb"], &["c"]]; sylvia::utils::assert_no_intersection(m) }; //~ ERROR
const _: () = { let m: [&[&str]; 3] = [&["bb"], &["a", "bb"], &["a", "bb"]]; sylvia::utils::assert_no_intersection(m) }; //~ ERROR
const _: () = { let m: [&[&str]; 3] = [&["bb"], &["a", "bb"], &["a", "c"]]; sylvia::utils::assert_no_intersection(m) }; //~ ERROR
const _: () = { let m: [&[&str]; 3] = [&["bb"], &["a", "bb"], &["bb", "c"]]; sylvia::utils::assert_no_intersection(m) }; //~ ERROR
const _: () = { let m: [&[&str]; 3] = [&["bb"], &["a", "c"], &[]]; sylvia::utils::assert_no_intersection(m) };
const _: () = { let m: [&[&str]; 3] = [&["bb"], &["a", "c"], &["a"]]; sylvia::utils::assert_no_intersection(m) }; //~ ERROR
const _: () = { let m: [&[&str]; 3] = [&["bb"], &["a", "c"], &["bb"]]; sylvia::utils::assert_no_intersection(m) }; //~ ERROR
const _: () = { let m: [&[&str]; 3] = [&["bb"], &["a", "c"], &["c"]]; sylvia::utils::assert_no_intersection(m) }; //~ ERROR
const _: () = { let m: [&[&str]; 3] = [&["bb"], &["a", "c"], &["a", "bb"]]; sylvia::utils::assert_no_intersection(m) }; //~ ERROR
const _: () = { let m: [&[&str]; 3] = [&["bb"], &["a", "c"], &["a", "c"]]; sylvia::utils::assert_no_intersection(m) }; //~ ERROR
const _: () = { let m: [&[&str]; 3] = [&["bb"], &["a", "c"], &["bb", "c"]]; sylvia::utils::assert_no_intersection(m) }; //~ ERROR
const _: () = { let m: [&[&str]; 3] = [&["bb"], &["bb", "c"], &[]]; sylvia::utils::assert_no_intersection(m) }; //~ ERROR
const _: () = { let m: [&[&str]; 3] = [&["bb"], &["bb", "c"], &["a"]]; sylvia::utils::assert_no_intersection(m) }; //~ ERROR
const _: () = { let m: [&[&str]; 3] = [&["bb"], &["bb", "c"], &["bb"]]; sylvia::utils::assert_no_intersection(m) }; //~ ERROR
const _: () = { let m: [&[&str]; 3] = [&["bb"], &["bb", "c"], &["c"]]; sylvia::utils::assert_no_intersection(m) }; //~ ERROR
const _: () = { let m: [&[&str]; 3] = [&["bb"], &["bb", "c"], &["a", "bb"]]; sylvia::utils::assert_no_intersection(m) }; //~ ERROR
const _: () = { let m: [&[&str]; 3] = [&["bb"], &["bb", "c"], &["a", "c"]]; sylvia::utils::assert_no_intersection(m) }; //~ ERROR
const _: () = { let m: [&[&str]; 3] = [&["bb"], &["bb", "c"], &["bb", "c"]]; sylvia::utils::assert_no_intersection(m) }; //~ ERROR
const _: () = { let m: [&[&str]; 3] = [&["c"], &[], &[]]; sylvia::utils::assert_no_intersection(m) };
const _: () = { let m: [&[&str]; 3] = [&["c"], &[], &["a"]]; sylvia::utils::assert_no_intersection(m) };
const _: () = { let m: [&[&str]; 3] = [&["c"], &[], &["bb"]]; sylvia::utils::assert_no_intersection(m) };
const _: () = { let m: [&[&str]; 3] = [&["c"], &[], &["c"]]; sylvia::utils::assert_no_intersection(m) }; //~ ERROR
const _: () = { let m: [&[&str]; 3] = [&["c"], &[], &["a", "bb"]]; sylvia::utils::assert_no_intersection(m) };
const _: () = { let m: [&[&str]; 3] = [&["c"], &[], &["a", "c"]]; sylvia::utils::assert_no_intersection(m) }; //~ ERROR
const _: () = { let m: [&[&str]; 3] = [&["c"], &[], &["bb", "c"]]; sylvia::utils::assert_no_intersection(m) }; //~ ERROR
const _: () = { let m: [&[&str]; 3] = [&["c"], &["a"], &[]]; sylvia::utils::assert_no_intersection(m) };
const _: () = { let m: [&[&str]; 3] = [&["c"], &["a"], &["a"]]; sylvia::utils::assert_no_intersection(m) }; //~ ERROR
const _: () = { let m: [&[&str]; 3] = [&["c"], &["a"], &["bb"]]; sylvia::utils::assert_no_intersection(m) };
const _: () = { let m: [&[&str]; 3] = [&["c"], &["a"], &["c"]]; sylvia::utils::assert_no_intersection(m) }; //~ ERROR
const _: () = { let m: [&[&str]; 3] = [&["c"], &["a"], &["a", "bb"]]; sylvia::utils::assert_no_intersection(m) }; //~ ERROR
const _: () = { let m: [&[&str]; 3] = [&["c"], &["a"], &["a", "c"]]; sylvia::utils::assert_no_intersection(m) }; //~ ERROR
const _: () = { let m: [&[&str]; 3] = [&["c"], &["a"], &["bb", "c"]]; sylvia::utils::assert_no_intersection(m) }; //~ ERROR
const _: () = { let m: [&[&str]; 3] = [&["c"], &["bb"], &[]]; sylvia::utils::assert_no_intersection(m) };
const _: () = { let m: [&[&str]; 3] = [&["c"], &["bb"], &["a"]]; sylvia::utils::assert_no_intersection(m) };
const _: () = { let m: [&[&str]; 3] = [&["c"], &["bb"], &["bb"]]; sylvia::utils::assert_no_intersection(m) }; //~ ERROR
const _: () = { let m: [&[&str]; 3] = [&["c"], &["bb"], &["c"]]; sylvia::utils::assert_no_intersection(m) }; //~ ERROR
const _: () = { let m: [&[&str]; 3] = [&["c"], &["bb"], &["a", "bb"]]; sylvia::utils::assert_no_intersection(m) }; //~ ERROR
const _: () = { let m: [&[&str]; 3] = [&["c"], &["bb"], &["a", "c"]]; sylvia::utils::assert_no_intersection(m) }; //~ ERROR
const _: () = { let m: [&[&str]; 3] = [&["c"], &["bb"], &["bb", "c"]]; sylvia::utils::assert_no_intersection(m) }; //~ ERROR
const _: () = { let m: [&[&str]; 3] = [&["c"], &["c"], &[]]; sylvia::utils::assert_no_intersection(m) }; //~ ERROR
const _: () = { let m: [&[&str]; 3] = [&["c"], &["c"], &["a"]]; sylvia::utils::assert_no_intersection(m) }; //~ ERROR
const _: () = { let m: [&[&str]; 3] = [&["c"], &["c"], &["bb"]]; sylvia::utils::assert_no_intersection(m) }; //~ ERROR
const _: () = { let m: [&[&str]; 3] = [&["c"], &["c"], &["c"]]; sylvia::utils::assert_no_intersection(m) }; //~ ERROR
const _: () = { let m: [&[&str]; 3] = [&["c"], &["c"], &["a", "bb"]]; sylvia::utils::assert_no_intersection(m) }; //~ ERROR
const _: () = { let m: [&[&str]; 3] = [&["c"], &["c"], &["a", "c"]]; sylvia::utils::assert_no_intersection(m) }; //~ ERROR
const _: () = { let m: [&[&str]; 3] = [&["c"], &["c"], &["bb", "c"]]; sylvia::utils::assert_no_intersection(m) }; //~ ERROR
const _: () = { let m: [&[&str]; 3] = [&["c"], &["a", "bb"], &[]]; sylvia::utils::assert_no_intersection(m) };
const _: () = { let m: [&[&str]; 3] = [&["c"], &["a", "bb"], &["a"]]; sylvia::utils::assert_no_intersection(m) }; //~ ERROR
const _: () = { let m: [&[&str]; 3] = [&["c"], &["a", "bb"], &["bb"]]; sylvia::utils::assert_no_intersection(m) }; //~ ERROR
const _: () = { let m: [&[&str]; 3] = [&["c"], &["a", "bb"], &["c"]]; sylvia::utils::assert_no_intersection(m) }; //~ ERROR
const _: () = { let m: [&[&str]; 3] = [&["c"], &["a", "bb"], &["a", "bb"]]; sylvia::utils::assert_no_intersection(m) }; //~ ERROR
const _: () = { let m: [&[&str]; 3] = [&["c"], &["a", "bb"], &["a", "c"]]; sylvia::utils::assert_no_intersection(m) }; //~ ERROR
const _: () = { let m: [&[&str]; 3] = [&["c"], &["a", "bb"], &["bb", "c"]]; sylvia::utils::assert_no_intersection(m) }; //~ ERROR
const _: () = { let m: [&[&str]; 3] = [&["c"], &["a", "c"], &[]]; sylvia::utils::assert_no_intersection(m) }; //~ ERROR
const _: () = { let m: [&[&str]; 3] = [&["c"], &["a", "c"], &["a"]]; sylvia::utils::assert_no_intersection(m) }; //~ ERROR
const _: () = { let m: [&[&str]; 3] = [&["c"], &["a", "c"], &["bb"]]; sylvia::utils::assert_no_intersection(m) }; //~ ERROR
const _: () = { let m: [&[&str]; 3] = [&["c"], &["a", "c"], &["c"]]; sylvia::utils::assert_no_intersection(m) }; //~ ERROR
const _: () = { let m: [&[&str]; 3] = [&["c"], &["a", "c"], &["a", "bb"]]; sylvia::utils::assert_no_intersection(m) }; //~ ERROR
const _: () = { let m: [&[&str]; 3] = [&["c"], &["a", "c"], &["a", "c"]]; sylvia::utils::assert_no_intersection(m) }; //~ ERROR
const _: () = { let m: [&[&str]; 3] = [&["c"], &["a", "c"], &["bb", "c"]]; sylvia::utils::assert_no_intersection(m) }; //~ ERROR
const _: () = { let m: [&[&str]; 3] = [&["c"], &["bb", "c"], &[]]; sylvia::utils::assert_no_intersection(m) }; //~ ERROR
const _: () = { let m: [&[&str]; 3] = [&["c"], &["bb", "c"], &["a"]]; sylvia::utils::assert_no_intersection(m) }; //~ ERROR
const _: () = { let m: [&[&str]; 3] = [&["c"], &["bb", "c"], &["bb"]]; sylvia::utils::assert_no_intersection(m) }; //~ ERROR
const _: () = { let m: [&[&str]; 3] = [&["c"], &["bb", "c"], &["c"]]; sylvia::utils::assert_no_intersection(m) }; //~ ERROR
const _: () = { let m: [&[&str]; 3] = [&["c"], &["bb", "c"], &["a", "bb"]]; sylvia::utils::assert_no_intersection(m) }; //~ ERROR
const _: () = { let m: [&[&str]; 3] = [&["c"], &["bb", "c"], &["a", "c"]]; sylvia::utils::assert_no_intersection(m) }; //~ ERROR
const _: () = { let m: [&[&str]; 3] = [&["c"], &["bb", "c"], &["bb", "c"]]; sylvia::utils::assert_no_intersection(m) }; //~ ERROR
const _: () = { let m: [&[&str]; 3] = [&["a", "bb"], &[], &[]]; sylvia::utils::assert_no_intersection(m) };
const _: () = { let m: [&[&str]; 3] = [&["a", "bb"], &[], &["a"]]; sylvia::utils::assert_no_intersection(m) }; //~ ERROR
const _: () = { let m: [&[&str]; 3] = [&["a", "bb"], &[], &["bb"]]; sylvia::utils::assert_no_intersection(m) }; //~ ERROR
const _: () = { let m: [&[&str]; 3] = [&["a", "bb"], &[], &["c"]]; sylvia::utils::assert_no_intersection(m) };
const _: () = { let m: [&[&str]; 3] = [&["a", "bb"], &[], &["a", "bb"]]; sylvia::utils::assert_no_intersection(m) }; //~ ERROR
const _: () = { let m: [&[&str]; 3] = [&["a", "bb"], &[], &["a", "c"]]; sylvia::utils::assert_no_intersection(m) }; //~ ERROR
const _: () = { let m: [&[&str]; 3] = [&["a", "bb"], &[], &["bb", "c"]]; sylvia::utils::assert_no_intersection(m) }; //~ ERROR
const _: () = { let m: [&[&str]; 3] = [&["a", "bb"], &["a"], &[]]; sylvia::utils::assert_no_intersection(m) }; //~ ERROR
const _: () = { let m: [&[&str]; 3] = [&["a", "bb"], &["a"], &["a"]]; sylvia::utils::assert_no_intersection(m) }; //~ ERROR
const _: () = { let m: [&[&str]; 3] = [&["a", "bb"], &["a"], &["bb"]]; sylvia::utils::assert_no_intersection(m) }; //~ ERROR
const _: () = { let m: [&[&str]; 3] = [&["a", "bb"], &["a"], &["c"]]; sylvia::utils::assert_no_intersection(m) }; //~ ERROR
const _: () = { let m: [&[&str]; 3] = [&["a", "bb"], &["a"], &["a", "bb"]]; sylvia::utils::assert_no_intersection(m) }; //~ ERROR
const _: () = { let m: [&[&str]; 3] = [&["a", "bb"], &["a"], &["a", "c"]]; sylvia::utils::assert_no_intersection(m) }; //~ ERROR
const _: () = { let m: [&[&str]; 3] = [&["a", "bb"], &["a"], &["bb", "c"]]; sylvia::utils::assert_no_intersection(m) }; //~ ERROR
const _: () = { let m: [&[&str]; 3] = [&["a", "bb"], &["bb"], &[]]; sylvia::utils::assert_no_intersection(m) }; //~ ERROR
const _: () = { let m: [&[&str]; 3] = [&["a", "bb"], &["bb"], &["a"]]; sylvia::utils::assert_no_intersection(m) }; //~ ERROR
const _: () = { let m: [&[&str]; 3] = [&["a", "bb"], &["bb"], &["bb"]]; sylvia::utils::assert_no_intersection(m) }; //~ ERROR
const _: () = { let m: [&[&str]; 3] = [&["a", "bb"], &["bb"], &["c"]]; sylvia::utils::assert_no_intersection(m) }; //~ ERROR
const _: () = { let m: [&[&str]; 3] = [&["a", "bb"], &["bb"], &["a", "bb"]]; sylvia::utils::assert_no_intersection(m) }; //~ ERROR
const _: () = { let m: [&[&str]; 3] = [&["a", "bb"], &["bb"], &["a", "c"]]; sylvia::utils::assert_no_intersection(m) }; //~ ERROR
const _: () = { let m: [&[&str]; 3] = [&["a", "bb"], &["bb"], &["bb", "c"]]; sylvia::utils::assert_no_intersection(m) }; //~ ERROR
const _: () = { let m: [&[&str]; 3] = [&["a", "bb"], &["c"], &[]]; sylvia::utils::assert_no_intersection(m) };
const _: () = { let m: [&[&str]; 3] = [&["a", "bb"], &["c"], &["a"]]; sylvia::utils::assert_no_intersection(m) }; //~ ERROR
const _: () = { let m: [&[&str]; 3] = [&["a", "bb"], &["c"], &["bb"]]; sylvia::utils::assert_no_intersection(m) }; //~ ERROR
const _: () = { let m: [&[&str]; 3] = [&["a", "bb"], &["c"], &["c"]]; sylvia::utils::assert_no_intersection(m) }; //~ ERROR
const _: () = { let m: [&[&str]; 3] = [&["a", "bb"], &["c"], &["a", "bb"]]; sylvia::utils::assert_no_intersection(m) }; //~ ERROR
const _: () = { let m: [&[&str]; 3] = [&["a", "bb"], &["c"], &["a", "c"]]; sylvia::utils::assert_no_intersection(m) }; //~ ERROR
const _: () = { let m: [&[&str]; 3] = [&["a", "bb"], &["c"], &["bb", "c"]]; sylvia::utils::assert_no_intersection(m) }; //~ ERROR
const _: () = { let m: [&[&str]; 3] = [&["a", "bb"], &["a", "bb"], &[]]; sylvia::utils::assert_no_intersection(m) }; //~ ERROR
const _: () = { let m: [&[&str]; 3] = [&["a", "bb"], &["a", "bb"], &["a"]]; sylvia::utils::assert_no_intersection(m) }; //~ ERROR
const _: () = { let m: [&[&str]; 3] = [&["a", "bb"], &["a", "bb"], &["bb"]]; sylvia::utils::assert_no_intersection(m) }; //~ ERROR
const _: () = { let m: [&[&str]; 3] = [&["a", "bb"], &["a", "bb"], &["c"]]; sylvia::utils::assert_no_intersection(m) }; //~ ERROR
const _: () = { let m: [&[&str]; 3] = [&["a", "bb"], &["a", "bb"], &["a", "bb"]]; sylvia::utils::assert_no_intersection(m) }; //~ ERROR
const _: () = { let m: [&[&str]; 3] = [&["a", "bb"], &["a", "bb"], &["a", "c"]]; sylvia::utils::assert_no_intersection(m) }; //~ ERROR
const _: () = { let m: [&[&str]; 3] = [&["a", "bb"], &["a", "bb"], &["bb", "c"]]; sylvia::utils::assert_no_intersection(m) }; //~ ERROR
const _: () = { let m: [&[&str]; 3] = [&["a", "bb"], &["a", "c"], &[]]; sylvia::utils::assert_no_intersection(m) }; //~ ERROR
const _: () = { let m: [&[&str]; 3] = [&["a", "bb"], &["a", "c"], &["a"]]; sylvia::utils::assert_no_intersection(m) }; //~ ERROR
const _: () = { let m: [&[&str]; 3] = [&["a", "bb"], &["a", "c"], &["bb"]]; sylvia::utils::assert_no_intersection(m) }; //~ ERROR
const _: () = { let m: [&[&str]; 3] = [&["a", "bb"], &["a", "c"], &["c"]]; sylvia::utils::assert_no_intersection(m) }; //~ ERROR
const _: () = { let m: [&[&str]; 3] = [&["a", "bb"], &["a", "c"], &["a", "bb"]]; sylvia::utils::assert_no_intersection(m) }; //~ ERROR
const _: () = { let m: [&[&str]; 3] = [&["a", "bb"], &["a", "c"], &["a", "c"]]; sylvia::utils::assert_no_intersection(m) }; //~ ERROR
const _: () = { let m: [&[&str]; 3] = [&["a", "bb"], &["a", "c"], &["bb", "c"]]; sylvia::utils::assert_no_intersection(m) }; //~ ERROR
const _: () = { let m: [&[&str]; 3] = [&["a", "bb"], &["bb", "c"], &[]]; sylvia::utils::assert_no_intersection(m) }; //~ ERROR
const _: () = { let m: [&[&str]; 3] = [&["a", "bb"], &["bb", "c"], &["a"]]; sylvia::utils::assert_no_intersection(m) }; //~ ERROR
const _: () = { let m: [&[&str]; 3] = [&["a", "bb"], &["bb", "c"], &["bb"]]; sylvia::utils::assert_no_intersection(m) }; //~ ERROR
const _: () = { let m: [&[&str]; 3] = [&["a", "bb"], &["bb", "c"], &["c"]]; sylvia::utils::assert_no_intersection(m) }; //~ ERROR
const _: () = { let m: [&[&str]; 3] = [&["a", "bb"], &["bb", "c"], &["a", "bb"]]; sylvia::utils::assert_no_intersection(m) }; //~ ERROR
const _: () = { let m: [&[&str]; 3] = [&["a", "bb"], &["bb", "c"], &["a", "c"]]; sylvia::utils::assert_no_intersection(m) }; //~ ERROR
const _: () = { let m: [&[&str]; 3] = [&["a", "bb"], &["bb", "c"], &["bb", "c"]]; sylvia::utils::assert_no_intersection(m) }; //~ ERROR
const _: () = { let m: [&[&str]; 3] = [&["a", "c"], &[], &[]]; sylvia::utils::assert_no_intersection(m) };
const _: () = { let m: [&[&str]; 3] = [&["a", "c"], &[], &["a"]]; sylvia::utils::assert_no_intersection(m) }; //~ ERROR
const _: () = { let m: [&[&str]; 3] = [&["a", "c"], &[], &["bb"]]; sylvia::utils::assert_no_intersection(m) };
const _: () = { let m: [&[&str]; 3] = [&["a", "c"], &[], &["c"]]; sylvia::utils::assert_no_intersection(m) }; //~ ERROR
const _: () = { let m: [&[&str]; 3] = [&["a", "c"], &[], &["a", "bb"]]; sylvia::utils::assert_no_intersection(m) }; //~ ERROR
const _: () = { let m: [&[&str]; 3] = [&["a", "c"], &[], &["a", "c"]]; sylvia::utils::assert_no_intersection(m) }; //~ ERROR
const _: () = { let m: [&[&str]; 3] = [&["a", "c"], &[], &["bb", "c"]]; sylvia::utils::assert_no_intersection(m) }; //~ ERROR
const _: () = { let m: [&[&str]; 3] = [&["a", "c"], &["a"], &[]]; sylvia::utils::assert_no_intersection(m) }; //~ ERROR
const _: () = { let m: [&[&str]; 3] = [&["a", "c"], &["a"], &["a"]]; sylvia::utils::assert_no_intersection(m) }; //~ ERROR
const _: () = { let m: [&[&str]; 3] = [&["a", "c"], &["a"], &["bb"]]; sylvia::utils::assert_no_intersection(m) }; //~ ERROR
const _: () = { let m: [&[&str]; 3] = [&["a", "c"], &["a"], &["c"]]; sylvia::utils::assert_no_intersection(m) }; //~ ERROR
const _: () = { let m: [&[&str]; 3] = [&["a", "c"], &["a"], &["a", "bb"]]; sylvia::utils::assert_no_intersection(m) }; //~ ERROR
const _: () = { let m: [&[&str]; 3] = [&["a", "c"], &["a"], &["a", "c"]]; sylvia::utils::assert_no_intersection(m) }; //~ ERROR
const _: () = { let m: [&[&str]; 3] = [&["a", "c"], &["a"], &["bb", "c"]]; sylvia::utils::assert_no_intersection(m) }; //~ ERROR
const _: () = { let m: [&[&str]; 3] = [&["a", "c"], &["bb"], &[]]; sylvia::utils::assert_no_intersection(m) };
const _: () = { let m: [&[&str]; 3] = [&["a", "c"], &["bb"], &["a"]]; sylvia::utils::assert_no_intersection(m) }; //~ ERROR
const _: () = { let m: [&[&str]; 3] = [&["a", "c"], &["bb"], &["bb"]]; sylvia::utils::assert_no_intersection(m) }; //~ ERROR
const _: () = { let m: [&[&str]; 3] = [&["a", "c"], &["bb"], &["c"]]; sylvia::utils::assert_no_intersection(m) }; //~ ERROR
const _: () = { let m: [&[&str]; 3] = [&["a", "c"], &["bb"], &["a", "bb"]]; sylvia::utils::assert_no_intersection(m) }; //~ ERROR
const _: () = { let m: [&[&str]; 3] = [&["a", "c"], &["bb"], &["a", "c"]]; sylvia::utils::assert_no_intersection(m) }; //~ ERROR
const _: () = { let m: [&[&str]; 3] = [&["a", "c"], &["bb"], &["bb", "c"]]; sylvia::utils::assert_no_intersection(m) }; //~ ERROR
const _: () = { let m: [&[&str]; 3] = [&["a", "c"], &["c"], &[]]; sylvia::utils::assert_no_intersection(m) }; //~ ERROR
const _: () = { let m: [&[&str]; 3] = [&["a", "c"], &["c"], &["a"]]; sylvia::utils::assert_no_intersection(m) }; //~ ERROR
const _: () = { let m: [&[&str]; 3] = [&["a", "c"], &["c"], &["bb"]]; sylvia::utils::assert_no_intersection(m) }; //~ ERROR
const _: () = { let m: [&[&str]; 3] = [&["a", "c"], &["c"], &["c"]]; sylvia::utils::assert_no_intersection(m) }; //~ ERROR
const _: () = { let m: [&[&str]; 3] = [&["a", "c"], &["c"], &["a", "bb"]]; sylvia::utils::assert_no_intersection(m) }; //~ ERROR
const _: () = { let m: [&[&str]; 3] = [&["a", "c"], &["c"], &["a", "c"]]; sylvia::utils::assert_no_intersection(m) }; //~ ERROR
const _: () = { let m: [&[&str]; 3] = [&["a", "c"], &["c"], &["bb", "c"]]; sylvia::utils::assert_no_intersection(m) }; //~ ERROR
const _: () = { let m: [&[&str]; 3] = [&["a", "c"], &["a", "bb"], &[]]; sylvia::utils::assert_no_intersection(m) }; //~ ERROR
const _: () = { let m: [&[&str]; 3] = [&["a", "c"], &["a", "bb"], &["a"]]; sylvia::utils::assert_no_intersection(m) }; //~ ERROR
const _: () = { let m: [&[&str]; 3] = [&["a", "c"], &["a", "bb"], &["bb"]]; sylvia::utils::assert_no_intersection(m) }; //~ ERROR
const _: () = { let m: [&[&str]; 3] = [&["a", "c"], &["a", "bb"], &["c"]]; sylvia::utils::assert_no_intersection(m) }; //~ ERROR
const _: () = { let m: [&[&str]; 3] = [&["a", "c"], &["a", "bb"], &["a", "bb"]]; sylvia::utils::assert_no_intersection(m) }; //~ ERROR
const _: () = { let m: [&[&str]; 3] = [&["a", "c"], &["a", "bb"], &["a", "c"]]; sylvia::utils::assert_no_intersection(m) }; //~ ERROR
const _: () = { let m: [&[&str]; 3] = [&["a", "c"], &["a", "bb"], &["bb", "c"]]; sylvia::utils::assert_no_intersection(m) }; //~ ERROR
const _: () = { let m: [&[&str]; 3] = [&["a", "c"], &["a", "c"], &[]]; sylvia::utils::assert_no_intersection(m) }; //~ ERROR
const _: () = { let m: [&[&str]; 3] = [&["a", "c"], &["a", "c"], &["a"]]; sylvia::utils::assert_no_intersection(m) }; //~ ERROR
const _: () = { let m: [&[&str]; 3] = [&["a", "c"], &["a", "c"], &["bb"]]; sylvia::utils::assert_no_intersection(m) }; //~ ERROR
const _: () = { let m: [&[&str]; 3] = [&["a", "c"], &["a", "c"], &["c"]]; sylvia::utils::assert_no_intersection(m) }; //~ ERROR
const _: () = { let m: [&[&str]; 3] = [&["a", "c"], &["a", "c"], &["a", "bb"]]; sylvia::utils::assert_no_intersection(m) }; //~ ERROR
const _: () = { let m: [&[&str]; 3] = [&["a", "c"], &["a", "c"], &["a", "c"]]; sylvia::utils::assert_no_intersection(m) }; //~ ERROR
const _: () = { let m: [&[&str]; 3] = [&["a", "c"], &["a", "c"], &["bb", "c"]]; sylvia::utils::assert_no_intersection(m) }; //~ ERROR
const _: () = { let m: [&[&str]; 3] = [&["a", "c"], &["bb", "c"], &[]]; sylvia::utils::assert_no_intersection(m) }; //~ ERROR
const _: () = { let m: [&[&str]; 3] = [&["a", "c"], &["bb", "c"], &["a"]]; sylvia::utils::assert_no_intersection(m) }; //~ ERROR
const _: () = { let m: [&[&str]; 3] = [&["a", "c"], &["bb", "c"], &["bb"]]; sylvia::utils::assert_no_intersection(m) }; //~ ERROR
const _: () = { let m: [&[&str]; 3] = [&["a", "c"], &["bb", "c"], &["c"]]; sylvia::utils::assert_no_intersection(m) }; //~ ERROR
const _: () = { let m: [&[&str]; 3] = [&["a", "c"], &["bb", "c"], &["a", "bb"]]; sylvia::utils::assert_no_intersection(m) }; //~ ERROR
const _: () = { let m: [&[&str]; 3] = [&["a", "c"], &["bb", "c"], &["a", "c"]]; sylvia::utils::assert_no_intersection(m) }; //~ ERROR
const _: () = { let m: [&[&str]; 3] = [&["a", "c"], &["bb", "c"], &["bb", "c"]]; sylvia::utils::assert_no_intersection(m) }; //~ ERROR
const _: () = { let m: [&[&str]; 3] = [&["bb", "c"], &[], &[]]; sylvia::utils::assert_no_intersection(m) };
const _: () = { let m: [&[&str]; 3] = [&["bb", "c"], &[], &["a"]]; sylvia::utils::assert_no_intersection(m) };
const _: () = { let m: [&[&str]; 3] = [&["bb", "c"], &[], &["bb"]]; sylvia::utils::assert_no_intersection(m) }; //~ ERROR
const _: () = { let m: [&[&str]; 3] = [&["bb", "c"], &[], &["c"]]; sylvia::utils::assert_no_intersection(m) }; //~ ERROR
const _: () = { let m: [&[&str]; 3] = [&["bb", "c"], &[], &["a", "bb"]]; sylvia::utils::assert_no_intersection(m) }; //~ ERROR
const _: () = { let m: [&[&str]; 3] = [&["bb", "c"], &[], &["a", "c"]]; sylvia::utils::assert_no_intersection(m) }; //~ ERROR
const _: () = { let m: [&[&str]; 3] = [&["bb", "c"], &[], &["bb", "c"]]; sylvia::utils::assert_no_intersection(m) }; //~ ERROR
const _: () = { let m: [&[&str]; 3] = [&["bb", "c"], &["a"], &[]]; sylvia::utils::assert_no_intersection(m) };
const _: () = { let m: [&[&str]; 3] = [&["bb", "c"], &["a"], &["a"]]; sylvia::utils::assert_no_intersection(m) }; //~ ERROR
const _: () = { let m: [&[&str]; 3] = [&["bb", "c"], &["a"], &["bb"]]; sylvia::utils::assert_no_intersection(m) }; //~ ERROR
const _: () = { let m: [&[&str]; 3] = [&["bb", "c"], &["a"], &["c"]]; sylvia::utils::assert_no_intersection(m) }; //~ ERROR
const _: () = { let m: [&[&str]; 3] = [&["bb", "c"], &["a"], &["a", "bb"]]; sylvia::utils::assert_no_intersection(m) }; //~ ERROR
const _: () = { let m: [&[&str]; 3] = [&["bb", "c"], &["a"], &["a", "c"]]; sylvia::utils::assert_no_intersection(m) }; //~ ERROR
const _: () = { let m: [&[&str]; 3] = [&["bb", "c"], &["a"], &["bb", "c"]]; sylvia::utils::assert_no_intersection(m) }; //~ ERROR
const _: () = { let m: [&[&str]; 3] = [&["bb", "c"], &["bb"], &[]]; sylvia::utils::assert_no_intersection(m) }; //~ ERROR
const _: () = { let m: [&[&str]; 3] = [&["bb", "c"], &["bb"], &["a"]]; sylvia::utils::assert_no_intersection(m) }; //~ ERROR
const _: () = { let m: [&[&str]; 3] = [&["bb", "c"], &["bb"], &["bb"]]; sylvia::utils::assert_no_intersection(m) }; //~ ERROR
const _: () = { let m: [&[&str]; 3] = [&["bb", "c"], &["bb"], &["c"]]; sylvia::utils::assert_no_intersection(m) }; //~ ERROR
const _: () = { let m: [&[&str]; 3] = [&["bb", "c"], &["bb"], &["a", "bb"]]; sylvia::utils::assert_no_intersection(m) }; //~ ERROR
const _: () = { let m: [&[&str]; 3] = [&["bb", "c"], &["bb"], &["a", "c"]]; sylvia::utils::assert_no_intersection(m) }; //~ ERROR
const _: () = { let m: [&[&str]; 3] = [&["bb", "c"], &["bb"], &["bb", "c"]]; sylvia::utils::assert_no_intersection(m) }; //~ ERROR
const _: () = { let m: [&[&str]; 3] = [&["bb", "c"], &["c"], &[]]; sylvia::utils::assert_no_intersection(m) }; //~ ERROR
const _: () = { let m: [&[&str]; 3] = [&["bb", "c"], &["c"], &["a"]]; sylvia::utils::assert_no_intersection(m) }; //~ ERROR
const _: () = { let m: [&[&str]; 3] = [&["bb", "c"], &["c"], &["bb"]]; sylvia::utils::assert_no_intersection(m) }; //~ ERROR
const _: () = { let m: [&[&str]; 3] = [&["bb", "c"], &["c"], &["c"]]; sylvia::utils::assert_no_intersection(m) }; //~ ERROR
const _: () = { let m: [&[&str]; 3] = [&["bb", "c"], &["c"], &["a", "bb"]]; sylvia::utils::assert_no_intersection(m) }; //~ ERROR
const _: () = { let m: [&[&str]; 3] = [&["bb", "c"], &["c"], &["a", "c"]]; sylvia::utils::assert_no_intersection(m) }; //~ ERROR
const _: () = { let m: [&[&str]; 3] = [&["bb", "c"], &["c"], &["bb", "c"]]; sylvia::utils::assert_no_intersection(m) }; //~ ERROR
const _: () = { let m: [&[&str]; 3] = [&["bb", "c"], &["a", "bb"], &[]]; sylvia::utils::assert_no_intersection(m) }; //~ ERROR
const _: () = { let m: [&[&str]; 3] = [&["bb", "c"], &["a", "bb"], &["a"]]; sylvia::utils::assert_no_intersection(m) }; //~ ERROR
const _: () = { let m: [&[&str]; 3] = [&["bb", "c"], &["a", "bb"], &["bb"]]; sylvia::utils::assert_no_intersection(m) }; //~ ERROR
const _: () = { let m: [&[&str]; 3] = [&["bb", "c"], &["a", "bb"], &["c"]]; sylvia::utils::assert_no_intersection(m) }; //~ ERROR
const _: () = { let m: [&[&str]; 3] = [&["bb", "c"], &["a", "bb"], &["a", "bb"]]; sylvia::utils::assert_no_intersection(m) }; //~ ERROR
const _: () = { let m: [&[&str]; 3] = [&["bb", "c"], &["a", "bb"], &["a", "c"]]; sylvia::utils::assert_no_intersection(m) }; //~ ERROR
const _: () = { let m: [&[&str]; 3] = [&["bb", "c"], &["a", "bb"], &["bb", "c"]]; sylvia::utils::assert_no_intersection(m) }; //~ ERROR
const _: () = { let m: [&[&str]; 3] = [&["bb", "c"], &["a", "c"], &[]]; sylvia::utils::assert_no_intersection(m) }; //~ ERROR
const _: () = { let m: [&[&str]; 3] = [&["bb", "c"], &["a", "c"], &["a"]]; sylvia::utils::assert_no_intersection(m) }; //~ ERROR
const _: () = { let m: [&[&str]; 3] = [&["bb", "c"], &["a", "c"], &["bb"]]; sylvia::utils::assert_no_intersection(m) }; //~ ERROR
const _: () = { let m: [&[&str]; 3] = [&["bb", "c"], &["a", "c"], &["c"]]; sylvia::utils::assert_no_intersection(m) }; //~ ERROR
const _: () = { let m: [&[&str]; 3] = [&["bb", "c"], &["a", "c"], &["a", "bb"]]; sylvia::utils::assert_no_intersection(m) }; //~ ERROR
const _: () = { let m: [&[&str]; 3] = [&["bb", "c"], &["a", "c"], &["a", "c"]]; sylvia::utils::assert_no_intersection(m) }; //~ ERROR
const _: () = { let m: [&[&str]; 3] = [&["bb", "c"], &["a", "c"], &["bb", "c"]]; sylvia::utils::assert_no_intersection(m) }; //~ ERROR
const _: () = { let m: [&[&str]; 3] = [&["bb", "c"], &["bb", "c"], &[]]; sylvia::utils::assert_no_intersection(m) }; //~ ERROR
const _: () = { let m: [&[&str]; 3] = [&["bb", "c"], &["bb", "c"], &["a"]]; sylvia::utils::assert_no_intersection(m) }; //~ ERROR
const _: () = { let m: [&[&str]; 3] = [&["bb", "c"], &["bb", "c"], &["bb"]]; sylvia::utils::assert_no_intersection(m) }; //~ ERROR
const _: () = { let m: [&[&str]; 3] = [&["bb", "c"], &["bb", "c"], &["c"]]; sylvia::utils::assert_no_intersection(m) }; //~ ERROR
const _: () = { let m: [&[&str]; 3] = [&["bb", "c"], &["bb", "c"], &["a", "bb"]]; sylvia::utils::assert_no_intersection(m) }; //~ ERROR
const _: () = { let m: [&[&str]; 3] = [&["bb", "c"], &["bb", "c"], &["a", "c"]]; sylvia::utils::assert_no_intersection(m) }; //~ ERROR
const _: () = { let m: [&[&str]; 3] = [&["bb", "c"], &["bb", "c"], &["bb", "c"]]; sylvia::utils::assert_no_intersection(m) }; //~ ERROR
fn main() {}
