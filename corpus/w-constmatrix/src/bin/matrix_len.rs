//@ props: C05
//@ expect: fail
//@ exact: yes
//@ index: no
//@ what: same over {aa,b,c}: a longer name that sorts BEFORE shorter ones (the scan must advance in lexicographic, not length, order)
#![allow(dead_code)]
const _: () = { let m: [&[&str]; 1] = [&[]]; sylvia::utils::assert_no_intersection(m) };
const _: () = { let m: [&[&str]; 1] = [&["aa"]]; sylvia::utils::assert_no_intersection(m) };
const _: () = { let m: [&[&str]; 1] = [&["b"]]; sylvia::utils::assert_no_intersection(m) };
const _: () = { let m: [&[&str]; 1] = [&["c"]]; sylvia::utils::assert_no_intersection(m) };
const _: () = { let m: [&[&str]; 1] = [&["aa", "b"]]; sylvia::utils::assert_no_intersection(m) };
const _: () = { let m: [&[&str]; 1] = [&["aa", "c"]]; sylvia::utils::assert_no_intersection(m) };
const _: () = { let m: [&[&str]; 1] = [&["b", "c"]]; sylvia::utils::assert_no_intersection(m) };
const _: () = { let m: [&[&str]; 2] = [&[], &[]]; sylvia::utils::assert_no_intersection(m) };
const _: () = { let m: [&[&str]; 2] = [&[], &["aa"]]; sylvia::utils::assert_no_intersection(m) };
const _: () = { let m: [&[&str]; 2] = [&[], &["b"]]; sylvia::utils::assert_no_intersection(m) };
const _: () = { let m: [&[&str]; 2] = [&[], &["c"]]; sylvia::utils::assert_no_intersection(m) };
const _: () = { let m: [&[&str]; 2] = [&[], &["aa", "b"]]; sylvia::utils::assert_no_intersection(m) };
const _: () = { let m: [&[&str]; 2] = [&[], &["aa", "c"]]; sylvia::utils::assert_no_intersection(m) };
const _: () = { let m: [&[&str]; 2] = [&[], &["b", "c"]]; sylvia::utils::assert_no_intersection(m) };
const _: () = { let m: [&[&str]; 2] = [&["aa"], &[]]; sylvia::utils::assert_no_intersection(m) };
const _: () = { let m: [&[&str]; 2] = [&["aa"], &["aa"]]; sylvia::utils::assert_no_intersection(m) }; //~ ERROR
const _: () = { let m: [&[&str]; 2] = [&["aa"], &["b"]]; sylvia::utils::assert_no_intersection(m) };
const _: () = { let m: [&[&str]; 2] = [&["aa"], &["c"]]; sylvia::utils::assert_no_intersection(m) };
const _: () = { let m: [&[&str]; 2] = [&["aa"], &["aa", "b"]]; sylvia::utils::assert_no_intersection(m) }; //~ ERROR
const _: () = { let m: [&[&str]; 2] = [&["aa"], &["aa", "c"]]; sylvia::utils::assert_no_intersection(m) }; //~ ERROR
const _: () = { let m: [&[&str]; 2] = [&["aa"], &["b", "c"]]; sylvia::utils::assert_no_intersection(m) };
const _: () = { let m: [&[&str]; 2] = [&["b"], &[]]; sylvia::utils::assert_no_intersection(m) };
const _: () = { let m: [&[&str]; 2] = [&["b"], &["aa"]]; sylvia::utils::assert_no_intersection(m) };
const _: () = { let m: [&[&str]; 2] = [&["b"], &["b"]]; sylvia::utils::assert_no_intersection(m) }; //~ ERROR
const _: () = { let m: [&[&str]; 2] = [&["b"], &["c"]]; sylvia::utils::assert_no_intersection(m) };
const _: () = { let m: [&[&str]; 2] = [&["b"], &["aa", "b"]]; sylvia::utils::assert_no_intersection(m) }; //~ ERROR
const _: () = { let m: [&[&str]; 2] = [&["b"], &["aa", "c"]]; sylvia::utils::assert_no_intersection(m) };
const _: () = { let m: [&[&str]; 2] = [&["b"], &["b", "c"]]; sylvia::utils::assert_no_intersection(m) }; //~ ERROR
const _: () = { let m: [&[&str]; 2] = [&["c"], &[]]; sylvia::utils::assert_no_intersection(m) };
const _: () = { let m: [&[&str]; 2] = [&["c"], &["aa"]]; sylvia::utils::assert_no_intersection(m) };
const _: () = { let m: [&[&str]; 2] = [&["c"], &["b"]]; sylvia::utils::assert_no_intersection(m) };
const _: () = { let m: [&[&str]; 2] = [&["c"], &["c"]]; sylvia::utils::assert_no_intersection(m) }; //~ ERROR
const _: () = { let m: [&[&str]; 2] = [&["c"], &["aa", "b"]]; sylvia::utils::assert_no_intersection(m) };
const _: () = { let m: [&[&str]; 2] = [&["c"], &["aa", "c"]]; sylvia::utils::assert_no_intersection(m) }; //~ ERROR
const _: () = { let m: [&[&str]; 2] = [&["c"], &["b", "c"]]; sylvia::utils::assert_no_intersection(m) }; //~ ERROR
const _: () = { let m: [&[&str]; 2] = [&["aa", "b"], &[]]; sylvia::utils::assert_no_intersection(m) };
const _: () = { let m: [&[&str]; 2] = [&["aa", "b"], &["aa"]]; sylvia::utils::assert_no_intersection(m) }; //~ ERROR
const _: () = { let m: [&[&str]; 2] = [&["aa", "b"], &["b"]]; sylvia::utils::assert_no_intersection(m) }; //~ ERROR
const _: () = { let m: [&[&str]; 2] = [&["aa", "b"], &["c"]]; sylvia::utils::assert_no_intersection(m) };
const _: () = { let m: [&[&str]; 2] = [&["aa", "b"], &["aa", "b"]]; sylvia::utils::assert_no_intersection(m) }; //~ ERROR
const _: () = { let m: [&[&str]; 2] = [&["aa", "b"], &["aa", "c"]]; sylvia::utils::assert_no_intersection(m) }; //~ ERROR
const _: () = { let m: [&[&str]; 2] = [&["aa", "b"], &["b", "c"]]; sylvia::utils::assert_no_intersection(m) }; //~ ERROR
const _: () = { let m: [&[&str]; 2] = [&["aa", "c"], &[]]; sylvia::utils::assert_no_intersection(m) };
const _: () = { let m: [&[&str]; 2] = [&["aa", "c"], &["aa"]]; sylvia::utils::assert_no_intersection(m) }; //~ ERROR
const _: () = { let m: [&[&str]; 2] = [&["aa", "c"], &["b"]]; sylvia::utils::assert_no_intersection(m) };
const _: () = { let m: [&[&str]; 2] = [&["aa", "c"], &["c"]]; sylvia::utils::assert_no_intersection(m) }; //~ ERROR
const _: () = { let m: [&[&str]; 2] = [&["aa", "c"], &["aa", "b"]]; sylvia::utils::assert_no_intersection(m) }; //~ ERROR
const _: () = { let m: [&[&str]; 2] = [&["aa", "c"], &["aa", "c"]]; sylvia::utils::assert_no_intersection(m) }; //~ ERROR
const _: () = { let m: [&[&str]; 2] = [&["aa", "c"], &["b", "c"]]; sylvia::utils::assert_no_intersection(m) }; //~ ERROR
const _: () = { let m: [&[&str]; 2] = [&["b", "c"], &[]]; sylvia::utils::assert_no_intersection(m) };
const _: () = { let m: [&[&str]; 2] = [&["b", "c"], &["aa"]]; sylvia::utils::assert_no_intersection(m) };
const _: () = { let m: [&[&str]; 2] = [&["b", "c"], &["b"]]; sylvia::utils::assert_no_intersection(m) }; //~ ERROR
const _: () = { let m: [&[&str]; 2] = [&["b", "c"], &["c"]]; sylvia::utils::assert_no_intersection(m) }; //~ ERROR
const _: () = { let m: [&[&str]; 2] = [&["b", "c"], &["aa", "b"]]; sylvia::utils::assert_no_intersection(m) }; //~ ERROR
const _: () = { let m: [&[&str]; 2] = [&["b", "c"], &["aa", "c"]]; sylvia::utils::assert_no_intersection(m) }; //~ ERROR
const _: () = { let m: [&[&str]; 2] = [&["b", "c"], &["b", "c"]]; sylvia::utils::assert_no_intersection(m) }; //~ ERROR
const _: () = { let m: [&[&str]; 3] = [&[], &[], &[]]; sylvia::utils::assert_no_intersection(m) };
const _: () = { let m: [&[&str]; 3] = [&[], &[], &["aa"]]; sylvia::utils::assert_no_intersection(m) };
const _: () = { let m: [&[&str]; 3] = [&[], &[], &["b"]]; sylvia::utils::assert_no_intersection(m) };
const _: () = { let m: [&[&str]; 3] = [&[], &[], &["c"]]; sylvia::utils::assert_no_intersection(m) };
const _: () = { let m: [&[&str]; 3] = [&[], &[], &["aa", "b"]]; sylvia::utils::assert_no_intersection(m) };
const _: () = { let m: [&[&str]; 3] = [&[], &[], &["aa", "c"]]; sylvia::utils::assert_no_intersection(m) };
const _: () = { let m: [&[&str]; 3] = [&[], &[], &["b", "c"]]; sylvia::utils::assert_no_intersection(m) };
const _: () = { let m: [&[&str]; 3] = [&[], &["aa"], &[]]; sylvia::utils::assert_no_intersection(m) };
const _: () = { let m: [&[&str]; 3] = [&[], &["aa"], &["aa"]]; sylvia::utils::assert_no_intersection(m) }; //~ ERROR
const _: () = { let m: [&[&str]; 3] = [&[], &["aa"], &["b"]]; sylvia::utils::assert_no_intersection(m) };
const _: () = { let m: [&[&str]; 3] = [&[], &["aa"], &["c"]]; sylvia::utils::assert_no_intersection(m) };
const _: () = { let m: [&[&str]; 3] = [&[], &["aa"], &["aa", "b"]]; sylvia::utils::assert_no_intersection(m) }; //~ ERROR
const _: () = { let m: [&[&str]; 3] = [&[], &["aa"], &["aa", "c"]]; sylvia::utils::assert_no_intersection(m) }; //~ ERROR
const _: () = { let m: [&[&str]; 3] = [&[], &["aa"], &["b", "c"]]; sylvia::utils::assert_no_intersection(m) };
const _: () = { let m: [&[&str]; 3] = [&[], &["b"], &[]]; sylvia::utils::assert_no_intersection(m) };
const _: () = { let m: [&[&str]; 3] = [&[], &["b"], &["aa"]]; sylvia::utils::assert_no_intersection(m) };
const _: () = { let m: [&[&str]; 3] = [&[], &["b"], &["b"]]; sylvia::utils::assert_no_intersection(m) }; //~ ERROR
const _: () = { let m: [&[&str]; 3] = [&[], &["b"], &["c"]]; sylvia::utils::assert_no_intersection(m) };
const _: () = { let m: [&[&str]; 3] = [&[], &["b"], &["aa", "b"]]; sylvia::utils::assert_no_intersection(m) }; //~ ERROR
const _: () = { let m: [&[&str]; 3] = [&[], &["b"], &["aa", "c"]]; sylvia::utils::assert_no_intersection(m) };
const _: () = { let m: [&[&str]; 3] = [&[], &["b"], &["b", "c"]]; sylvia::utils::assert_no_intersection(m) }; //~ ERROR
const _: () = { let m: [&[&str]; 3] = [&[], &["c"], &[]]; sylvia::utils::assert_no_intersection(m) };
const _: () = { let m: [&[&str]; 3] = [&[], &["c"], &["aa"]]; sylvia::utils::assert_no_intersection(m) };
const _: () = { let m: [&[&str]; 3] = [&[], &["c"], &["b"]]; sylvia::utils::assert_no_intersection(m) };
const _: () = { let m: [&[&str]; 3] = [&[], &["c"], &["c"]]; sylvia::utils::assert_no_intersection(m) }; //~ ERROR
const _: () = { let m: [&[&str]; 3] = [&[], &["c"], &["aa", "b"]]; sylvia::utils::assert_no_intersection(m) };
const _: () = { let m: [&[&str]; 3] = [&[], &["c"], &["aa", "c"]]; sylvia::utils::assert_no_intersection(m) }; //~ ERROR
const _: () = { let m: [&[&str]; 3] = [&[], &["c"], &["b", "c"]]; sylvia::utils::assert_no_intersection(m) }; //~ ERROR
const _: () = { let m: [&[&str]; 3] = [&[], &["aa", "b"], &[]]; sylvia::utils::assert_no_intersection(m) };
const _: () = { let m: [&[&str]; 3] = [&[], &["aa", "b"], &["aa"]]; sylvia::utils::assert_no_intersection(m) }; //~ ERROR
const _: () = { let m: [&[&str]; 3] = [&[], &["aa", "b"], &["b"]]; sylvia::utils::assert_no_intersection(m) }; //~ ERROR
const _: () = { let m: [&[&str]; 3] = [&[], &["aa", "b"], &["c"]]; sylvia::utils::assert_no_intersection(m) };
const _: () = { let m: [&[&str]; 3] = [&[], &["aa", "b"], &["aa", "b"]]; sylvia::utils::assert_no_intersection(m) }; //~ ERROR
const _: () = { let m: [&[&str]; 3] = [&[], &["aa", "b"], &["aa", "c"]]; sylvia::utils::assert_no_intersection(m) }; //~ ERROR
const _: () = { let m: [&[&str]; 3] = [&[], &["aa", "b"], &["b", "c"]]; sylvia::utils::assert_no_intersection(m) }; //~ ERROR
const _: () = { let m: [&[&str]; 3] = [&[], &["aa", "c"], &[]]; sylvia::utils::assert_no_intersection(m) };
const _: () = { let m: [&[&str]; 3] = [&[], &["aa", "c"], &["aa"]]; sylvia::utils::assert_no_intersection(m) }; //~ ERROR
const _: () = { let m: [&[&str]; 3] = [&[], &["aa", "c"], &["b"]]; sylvia::utils::assert_no_intersection(m) };
const _: () = { let m: [&[&str]; 3] = [&[], &["aa", "c"], &["c"]]; sylvia::utils::assert_no_intersection(m) }; //~ ERROR
const _: () = { let m: [&[&str]; 3] = [&[], &["aa", "c"], &["aa", "b"]]; sylvia::utils::assert_no_intersection(m) }; //~ ERROR
const _: () = { let m: [&[&str]; 3] = [&[], &["aa", "c"], &["aa", "c"]]; sylvia::utils::assert_no_intersection(m) }; //~ ERROR
const _: () = { let m: [&[&str]; 3] = [&[], &["aa", "c"], &["b", "c"]]; sylvia::utils::assert_no_intersection(m) }; //~ ERROR
const _: () = { let m: [&[&str]; 3] = [&[], &["b", "c"], &[]]; sylvia::utils::assert_no_intersection(m) };
const _: () = { let m: [&[&str]; 3] = [&[], &["b", "c"], &["aa"]]; sylvia::utils::assert_no_intersection(m) };
const _: () = { let m: [&[&str]; 3] = [&[], &["b", "c"], &["b"]]; sylvia::utils::assert_no_intersection(m) }; //~ ERROR
const _: () = { let m: [&[&str]; 3] = [&[], &["b", "c"], &["c"]]; sylvia::utils::assert_no_intersection(m) }; //~ ERROR
const _: () = { let m: [&[&str]; 3] = [&[], &["b", "c"], &["aa", "b"]]; sylvia::utils::assert_no_intersection(m) }; //~ ERROR
const _: () = { let m: [&[&str]; 3] = [&[], &["b", "c"], &["aa", "c"]]; sylvia::utils::assert_no_intersection(m) }; //~ ERROR
const _: () = { let m: [&[&str]; 3] = [&[], &["b", "c"], &["b", "c"]]; sylvia::utils::assert_no_intersection(m) }; //~ ERROR
const _: () = { let m: [&[&str]; 3] = [&["aa"], &[], &[]]; sylvia::utils::assert_no_intersection(m) };
const _: () = { let m: [&[&str]; 3] = [&["aa"], &[], &["aa"]]; sylvia::utils::assert_no_intersection(m) }; //~ ERROR
const _: () = { let m: [&[&str]; 3] = [&["aa"], &[], &["b"]]; sylvia::utils::assert_no_intersection(m) };
const _: () = { let m: [&[&str]; 3] = [&["aa"], &[], &["c"]]; sylvia::utils::assert_no_intersection(m) };
const _: () = { let m: [&[&str]; 3] = [&["aa"], &[], &["aa", "b"]]; sylvia::utils::assert_no_intersection(m) }; //~ ERROR
const _: () = { let m: [&[&str]; 3] = [&["aa"], &[], &["aa", "c"]]; sylvia::utils::assert_no_intersection(m) }; //~ ERROR
const _: () = { let m: [&[&str]; 3] = [&["aa"], &[], &["b", "c"]]; sylvia::utils::assert_no_intersection(m) };
const _: () = { let m: [&[&str]; 3] = [&["aa"], &["aa"], &[]]; sylvia::utils::assert_no_intersection(m) }; //~ ERROR
const _: () = { let m: [&[&str]; 3] = [&["aa"], &["aa"], &["aa"]]; sylvia::utils::assert_no_intersection(m) }; //~ ERROR
const _: () = { let m: [&[&str]; 3] = [&["aa"], &["aa"], &["b"]]; sylvia::utils::assert_no_intersection(m) }; //~ ERROR
const _: () = { let m: [&[&str]; 3] = [&["aa"], &["aa"], &["c"]]; sylvia::utils::assert_no_intersection(m) }; //~ ERROR
const _: () = { let m: [&[&str]; 3] = [&["aa"], &["aa"], &["aa", "b"]]; sylvia::utils::assert_no_intersection(m) }; //~ ERROR
const _: () = { let m: [&[&str]; 3] = [&["aa"], &["aa"], &["aa", "c"]]; sylvia::utils::assert_no_intersection(m) }; //~ ERROR
const _: () = { let m: [&[&str]; 3] = [&["aa"], &["aa"], &["b", "c"]]; sylvia::utils::assert_no_intersection(m) }; //~ ERROR
const _: () = { let m: [&[&str]; 3] = [&["aa"], &["b"], &[]]; sylvia::utils::assert_no_intersection(m) };
const _: () = { let m: [&[&str]; 3] = [&["aa"], &["b"], &["aa"]]; sylvia::utils::assert_no_intersection(m) }; //~ ERROR
const _: () = { let m: [&[&str]; 3] = [&["aa"], &["b"], &["b"]]; sylvia::utils::assert_no_intersection(m) }; //~ ERROR
const _: () = { let m: [&[&str]; 3] = [&["aa"], &["b"], &["c"]]; sylvia::utils::assert_no_intersection(m) };
const _: () = { let m: [&[&str]; 3] = [&["aa"], &["b"], &["aa", "b"]]; sylvia::utils::assert_no_intersection(m) }; //~ ERROR
const _: () = { let m: [&[&str]; 3] = [&["aa"], &["b"], &["aa", "c"]]; sylvia::utils::assert_no_intersection(m) }; //~ ERROR
const _: () = { let m: [&[&str]; 3] = [&["aa"], &["b"], &["b", "c"]]; sylvia::utils::assert_no_intersection(m) }; //~ ERROR
const _: () = { let m: [&[&str]; 3] = [&["aa"], &["c"], &[]]; sylvia::utils::assert_no_intersection(m) };
const _: () = { let m: [&[&str]; 3] = [&["aa"], &["c"], &["aa"]]; sylvia::utils::assert_no_intersection(m) }; //~ ERROR
const _: () = { let m: [&[&str]; 3] = [&["aa"], &["c"], &["b"]]; sylvia::utils::assert_no_intersection(m) };
const _: () = { let m: [&[&str]; 3] = [&["aa"], &["c"], &["c"]]; sylvia::utils::assert_no_intersection(m) }; //~ ERROR
const _: () = { let m: [&[&str]; 3] = [&["aa"], &["c"], &["aa", "b"]]; sylvia::utils::assert_no_intersection(m) }; //~ ERROR
const _: () = { let m: [&[&str]; 3] = [&["aa"], &["c"], &["aa", "c"]]; sylvia::utils::assert_no_intersection(m) }; //~ ERROR
const _: () = { let m: [&[&str]; 3] = [&["aa"], &["c"], &["b", "c"]]; sylvia::utils::assert_no_intersection(m) }; //~ ERROR
const _: () = { let m: [&[&str]; 3] = [&["aa"], &["aa", "b"], &[]]; sylvia::utils::assert_no_intersection(m) }; //~ ERROR
const _: () = { let m: [&[&str]; 3] = [&["aa"], &["aa", "b"], &["aa"]]; sylvia::utils::assert_no_intersection(m) }; //~ ERROR
const _: () = { let m: [&[&str]; 3] = [&["aa"], &["aa", "b"], &["b"]]; sylvia::utils::assert_no_intersection(m) }; //~ ERROR
const _: () = { let m: [&[&str]; 3] = [&["aa"], &["aa", "b"], &["c"]]; sylvia::utils::assert_no_intersection(m) }; //~ ERROR
const _: () = { let m: [&[&str]; 3] = [&["aa"], &["aa", "b"], &["aa", "b"]]; sylvia::utils::assert_no_intersection(m) }; //~ ERROR
const _: () = { let m: [&[&str]; 3] = [&["aa"], &["aa", "b"], &["aa", "c"]]; sylvia::utils::assert_no_intersection(m) }; //~ ERROR
const _: () = { let m: [&[&str]; 3] = [&["aa"], &["aa", "b"], &["b", "c"]]; sylvia::utils::assert_no_intersection(m) }; //~ ERROR
const _: () = { let m: [&[&str]; 3] = [&["aa"], &["aa", "c"], &[]]; sylvia::utils::assert_no_intersection(m) }; //~ ERROR
const _: () = { let m: [&[&str]; 3] = [&["aa"], &["aa", "c"], &["aa"]]; sylvia::utils::assert_no_intersection(m) }; //~ ERROR
const _: () = { let m: [&[&str]; 3] = [&["aa"], &["aa", "c"], &["b"]]; sylvia::utils::assert_no_intersection(m) }; //~ ERROR
const _: () = { let m: [&[&str]; 3] = [&["aa"], &["aa", "c"], &["c"]]; sylvia::utils::assert_no_intersection(m) }; //~ ERROR
const _: () = { let m: [&[&str]; 3] = [&["aa"], &["aa", "c"], &["aa", "b"]]; sylvia::utils::assert_no_intersection(m) }; //~ ERROR
const _: () = { let m: [&[&str]; 3] = [&["aa"], &["aa", "c"], &["aa", "c"]]; sylvia::utils::assert_no_intersection(m) }; //~ ERROR
const _: () = { let m: [&[&str]; 3] = [&["aa"], &["aa", "c"], &["b", "c"]]; sylvia::utils::assert_no_intersection(m) }; //~ ERROR
const _: () = { let m: [&[&str]; 3] = [&["aa"], &["b", "c"], &[]]; sylvia::utils::assert_no_intersection(m) };
const _: () = { let m: [&[&str]; 3] = [&["aa"], &["b", "c"], &["aa"]]; sylvia::utils::assert_no_intersection(m) }; //~ ERROR
const _: () = { let m: [&[&str]; 3] = [&["aa"], &["b", "c"], &["b"]]; sylvia::utils::assert_no_intersection(m) }; //~ ERROR
const _: () = { let m: [&[&str]; 3] = [&["aa"], &["b", "c"], &["c"]]; sylvia::utils::assert_no_intersection(m) }; //~ ERROR
const _: () = { let m: [&[&str]; 3] = [&["aa"], &["b", "c"], &["aa", "b"]]; sylvia::utils::assert_no_intersection(m) }; //~ ERROR
const _: () = { let m: [&[&str]; 3] = [&["aa"], &["b", "c"], &["aa", "c"]]; sylvia::utils::assert_no_intersection(m) }; //~ ERROR
const _: () = { let m: [&[&str]; 3] = [&["aa"], &["b", "c"], &["b", "c"]]; sylvia::utils::assert_no_intersection(m) }; //~ ERROR
const _: () = { let m: [&[&str]; 3] = [&["b"], &[], &[]]; sylvia::utils::assert_no_intersection(m) };
const _: () = { let m: [&[&str]; 3] = [&["b"], &[], &["aa"]]; sylvia::utils::assert_no_intersection(m) };
const _: () = { let m: [&[&str]; 3] = [&["b"], &[], &["b"]]; sylvia::utils::assert_no_intersection(m) }; //~ ERROR
const _: () = { let m: [&[&str]; 3] = [&["b"], &[], &["c"]]; sylvia::utils::assert_no_intersection(m) };
const _: () = { let m: [&[&str]; 3] = [&["b"], &[], &["aa", "b"]]; sylvia::utils::assert_no_intersection(m) }; //~ ERROR
const _: () = { let m: [&[&str]; 3] = [&["b"], &[], &["aa", "c"]]; sylvia::utils::assert_no_intersection(m) };
const _: () = { let m: [&[&str]; 3] = [&["b"], &[], &["b", "c"]]; sylvia::utils::assert_no_intersection(m) }; //~ ERROR
const _: () = { let m: [&[&str]; 3] = [&["b"], &["aa"], &[]]; sylvia::utils::assert_no_intersection(m) };
const _: () = { let m: [&[&str]; 3] = [&["b"], &["aa"], &["aa"]]; sylvia::utils::assert_no_intersection(m) }; //~ ERROR
const _: () = { let m: [&[&str]; 3] = [&["b"], &["aa"], &["b"]]; sylvia::utils::assert_no_intersection(m) }; //~ ERROR
const _: () = { let m: [&[&str]; 3] = [&["b"], &["aa"], &["c"]]; sylvia::utils::assert_no_intersection(m) };
const _: () = { let m: [&[&str]; 3] = [&["b"], &["aa"], &["aa", "b"]]; sylvia::utils::assert_no_intersection(m) }; //~ ERROR
const _: () = { let m: [&[&str]; 3] = [&["b"], &["aa"], &["aa", "c"]]; sylvia::utils::assert_no_intersection(m) }; //~ ERROR
const _: () = { let m: [&[&str]; 3] = [&["b"], &["aa"], &["b", "c"]]; sylvia::utils::assert_no_intersection(m) }; //~ ERROR
const _: () = { let m: [&[&str]; 3] = [&["b"], &["b"], &[]]; sylvia::utils::assert_no_intersection(m) }; //~ ERROR
const _: () = { let m: [&[&str]; 3] = [&["b"], &["b"], &["aa"]]; sylvia::utils::assert_no_intersection(m) }; //~ ERROR
const _: () = { let m: [&[&str]; 3] = [&["b"], &["b"], &["b"]]; sylvia::utils::assert_no_intersection(m) }; //~ ERROR
const _: () = { let m: [&[&str]; 3] = [&["b"], &["b"], &["c"]]; sylvia::utils::assert_no_intersection(m) }; //~ ERROR
const _: () = { let m: [&[&str]; 3] = [&["b"], &["b"], &["aa", "b"]]; sylvia::utils::assert_no_intersection(m) }; //~ ERROR
const _: () = { let m: [&[&str]; 3] = [&["b"], &["b"], &["aa", "c"]]; sylvia::utils::assert_no_intersection(m) }; //~ ERROR
const _: () = { let m: [&[&str]; 3] = [&["b"], &["b"], &["b", "c"]]; sylvia::utils::assert_no_intersection(m) }; //~ ERROR
const _: () = { let m: [&[&str]; 3] = [&["b"], &["c"], &[]]; sylvia::utils::assert_no_intersection(m) };
const _: () = { let m: [&[&str]; 3] = [&["b"], &["c"], &["aa"]]; sylvia::utils::assert_no_intersection(m) };
const _: () = { let m: [&[&str]; 3] = [&["b"], &["c"], &["b"]]; sylvia::utils::assert_no_intersection(m) }; //~ ERROR
const _: () = { let m: [&[&str]; 3] = [&["b"], &["c"], &["c"]]; sylvia::utils::assert_no_intersection(m) }; //~ ERROR
const _: () = { let m: [&[&str]; 3] = [&["b"], &["c"], &["aa", "b"]]; sylvia::utils::assert_no_intersection(m) }; //~ ERROR
const _: () = { let m: [&[&str]; 3] = [&["b"], &["c"], &["aa", "c"]]; sylvia::utils::assert_no_intersection(m) }; //~ ERROR
const _: () = { let m: [&[&str]; 3] = [&["b"], &["c"], &["b", "c"]]; sylvia::utils::assert_no_intersection(m) }; //~ ERROR
const _: () = { let m: [&[&str]; 3] = [&["b"], &["aa", "b"], &[]]; sylvia::utils::assert_no_intersection(m) }; //~ ERROR
const _: () = { let m: [&[&str]; 3] = [&["b"], &["aa", "b"], &["aa"]]; sylvia::utils::assert_no_intersection(m) }; //~ ERROR
const _: () = { let m: [&[&str]; 3] = [&["b"], &["aa", "b"], &["b"]]; sylvia::utils::assert_no_intersection(m) }; //~ ERROR
const _: () = { let m: [&[&str]; 3] = [&["b"], &["aa", "b"], &["c"]]; sylvia::utils::assert_no_intersection(m) }; //~ ERROR
const _: () = { let m: [&[&str]; 3] = [&["b"], &["aa", "b"], &["aa", "b"]]; sylvia::utils::assert_no_intersection(m) }; //~ ERROR
const _: () = { let m: [&[&str]; 3] = [&["b"], &["aa", "b"], &["aa", "c"]]; sylvia::utils::assert_no_intersection(m) }; //~ ERROR
const _: () = { let m: [&[&str]; 3] = [&["b"], &["aa", "b"], &["b", "c"]]; sylvia::utils::assert_no_intersection(m) }; //~ ERROR
const _: () = { let m: [&[&str]; 3] = [&["b"], &["aa", "c"], &[]]; sylvia::utils::assert_no_intersection(m) };
const _: () = { let m: [&[&str]; 3] = [&["b"], &["aa", "c"], &["aa"]]; sylvia::utils::assert_no_intersection(m) }; //~ ERROR
const _: () = { let m: [&[&str]; 3] = [&["b"], &["aa", "c"], &["b"]]; sylvia::utils::assert_no_intersection(m) }; //~ ERROR
const _: () = { let m: [&[&str]; 3] = [&["b"], &["aa", "c"], &["c"]]; sylvia::utils::assert_no_intersection(m) }; //~ ERROR
const _: () = { let m: [&[&str]; 3] = [&["b"], &["aa", "c"], &["aa", "b"]]; sylvia::utils::assert_no_intersection(m) }; //~ ERROR
const _: () = { let m: [&[&str]; 3] = [&["b"], &["aa", "c"], &["aa", "c"]]; sylvia::utils::assert_no_intersection(m) }; //~ ERROR
const _: () = { let m: [&[&str]; 3] = [&["b"], &["aa", "c"], &["b", "c"]]; sylvia::utils::assert_no_intersection(m) }; //~ ERROR
const _: () = { let m: [&[&str]; 3] = [&["b"], &["b", "c"], &[]]; sylvia::utils::assert_no_intersection(m) }; //~ ERROR
const _: () = { let m: [&[&str]; 3] = [&["b"], &["b", "c"], &["aa"]]; sylvia::utils::assert_no_intersection(m) }; //~ ERROR
const _: () = { let m: [&[&str]; 3] = [&["b"], &["b", "c"], &["b"]]; sylvia::utils::assert_no_intersection(m) }; //~ ERROR
const _: () = { let m: [&[&str]; 3] = [&["b"], &["b", "c"], &["c"]]; sylvia::utils::assert_no_intersection(m) }; //~ ERROR
const _: () = { let m: [&[&str]; 3] = [&["b"], &["b", "c"], &["aa", "b"]]; sylvia::utils::assert_no_intersection(m) }; //~ ERROR
const _: () = { let m: [&[&str]; 3] = [&["b"], &["b", "c"], &["aa", "c"]]; sylvia::utils::assert_no_intersection(m) }; //~ ERROR
const _: () = { let m: [&[&str]; 3] = [&["b"], &["b", "c"], &["b", "c"]]; sylvia::utils::assert_no_intersection(m) }; //~ ERROR
const _: () = { let m: [&[&str]; 3] = [&["c"], &[], &[]]; sylvia::utils::assert_no_intersection(m) };
const _: () = { let m: [&[&str]; 3] = [&["c"], &[], &["aa"]]; sylvia::utils::assert_no_intersection(m) };
const _: () = { let m: [&[&str]; 3] = [&["c"], &[], &["b"]]; sylvia::utils::assert_no_intersection(m) };
const _: () = { let m: [&[&str]; 3] = [&["c"], &[], &["c"]]; sylvia::utils::assert_no_intersection(m) }; //~ ERROR
const _: () = { let m: [&[&str]; 3] = [&["c"], &[], &["aa", "b"]]; sylvia::utils::assert_no_intersection(m) };
const _: () = { let m: [&[&str]; 3] = [&["c"], &[], &["aa", "c"]]; sylvia::utils::assert_no_intersection(m) }; //~ ERROR
const _: () = { let m: [&[&str]; 3] = [&["c"], &[], &["b", "c"]]; sylvia::utils::assert_no_intersection(m) }; //~ ERROR
const _: () = { let m: [&[&str]; 3] = [&["c"], &["aa"], &[]]; sylvia::utils::assert_no_intersection(m) };
const _: () = { let m: [&[&str]; 3] = [&["c"], &["aa"], &["aa"]]; sylvia::utils::assert_no_intersection(m) }; //~ ERROR
const _: () = { let m: [&[&str]; 3] = [&["c"], &["aa"], &["b"]]; sylvia::utils::assert_no_intersection(m) };
const _: () = { let m: [&[&str]; 3] = [&["c"], &["aa"], &["c"]]; sylvia::utils::assert_no_intersection(m) }; //~ ERROR
const _: () = { let m: [&[&str]; 3] = [&["c"], &["aa"], &["aa", "b"]]; sylvia::utils::assert_no_intersection(m) }; //~ ERROR
const _: () = { let m: [&[&str]; 3] = [&["c"], &["aa"], &["aa", "c"]]; sylvia::utils::assert_no_intersection(m) }; //~ ERROR
const _: () = { let m: [&[&str]; 3] = [&["c"], &["aa"], &["b", "c"]]; sylvia::utils::assert_no_intersection(m) }; //~ ERROR
const _: () = { let m: [&[&str]; 3] = [&["c"], &["b"], &[]]; sylvia::utils::assert_no_intersection(m) };
const _: () = { let m: [&[&str]; 3] = [&["c"], &["b"], &["aa"]]; sylvia::utils::assert_no_intersection(m) };
const _: () = { let m: [&[&str]; 3] = [&["c"], &["b"], &["b"]]; sylvia::utils::assert_no_intersection(m) }; //~ ERROR
const _: () = { let m: [&[&str]; 3] = [&["c"], &["b"], &["c"]]; sylvia::utils::assert_no_intersection(m) }; //~ ERROR
const _: () = { let m: [&[&str]; 3] = [&["c"], &["b"], &["aa", "b"]]; sylvia::utils::assert_no_intersection(m) }; //~ ERROR
const _: () = { let m: [&[&str]; 3] = [&["c"], &["b"], &["aa", "c"]]; sylvia::utils::assert_no_intersection(m) }; //~ ERROR
const _: () = { let m: [&[&str]; 3] = [&["c"], &["b"], &["b", "c"]]; sylvia::utils::assert_no_intersection(m) }; //~ ERROR
const _: () = { let m: [&[&str]; 3] = [&["c"], &["c"], &[]]; sylvia::utils::assert_no_intersection(m) }; //~ ERROR
const _: () = { let m: [&[&str]; 3] = [&["c"], &["c"], &["aa"]]; sylvia::utils::assert_no_intersection(m) }; //~ ERROR
const _: () = { let m: [&[&str]; 3] = [&["c"], &["c"], &["b"]]; sylvia::utils::assert_no_intersection(m) }; //~ ERROR
const _: () = { let m: [&[&str]; 3] = [&["c"], &["c"], &["c"]]; sylvia::utils::assert_no_intersection(m) }; //~ ERROR
const _: () = { let m: [&[&str]; 3] = [&["c"], &["c"], &["aa", "b"]]; sylvia::utils::assert_no_intersection(m) }; //~ ERROR
const _: () = { let m: [&[&str]; 3] = [&["c"], &["c"], &["aa", "c"]]; sylvia::utils::assert_no_intersection(m) }; //~ ERROR
const _: () = { let m: [&[&str]; 3] = [&["c"], &["c"], &["b", "c"]]; sylvia::utils::assert_no_intersection(m) }; //~ ERROR
const _: () = { let m: [&[&str]; 3] = [&["c"], &["aa", "b"], &[]]; sylvia::utils::assert_no_intersection(m) };
const _: () = { let m: [&[&str]; 3] = [&["c"], &["aa", "b"], &["aa"]]; sylvia::utils::assert_no_intersection(m) }; //~ ERROR
const _: () = { let m: [&[&str]; 3] = [&["c"], &["aa", "b"], &["b"]]; sylvia::utils::assert_no_intersection(m) }; //~ ERROR
const _: () = { let m: [&[&str]; 3] = [&["c"], &["aa", "b"], &["c"]]; sylvia::utils::assert_no_intersection(m) }; //~ ERROR
const _: () = { let m: [&[&str]; 3] = [&["c"], &["aa", "b"], &["aa", "b"]]; sylvia::utils::assert_no_intersection(m) }; //~ ERROR
const _: () = { let m: [&[&str]; 3] = [&["c"], &["aa", "b"], &["aa", "c"]]; sylvia::utils::assert_no_intersection(m) }; //~ ERROR
const _: () = { let m: [&[&str]; 3] = [&["c"], &["aa", "b"], &["b", "c"]]; sylvia::utils::assert_no_intersection(m) }; //~ ERROR
const _: () = { let m: [&[&str]; 3] = [&["c"], &["aa", "c"], &[]]; sylvia::utils::assert_no_intersection(m) }; //~ ERROR
const _: () = { let m: [&[&str]; 3] = [&["c"], &["aa", "c"], &["aa"]]; sylvia::utils::assert_no_intersection(m) }; //~ ERROR
const _: () = { let m: [&[&str]; 3] = [&["c"], &["aa", "c"], &["b"]]; sylvia::utils::assert_no_intersection(m) }; //~ ERROR
const _: () = { let m: [&[&str]; 3] = [&["c"], &["aa", "c"], &["c"]]; sylvia::utils::assert_no_intersection(m) }; //~ ERROR
const _: () = { let m: [&[&str]; 3] = [&["c"], &["aa", "c"], &["aa", "b"]]; sylvia::utils::assert_no_intersection(m) }; //~ ERROR
const _: () = { let m: [&[&str]; 3] = [&["c"], &["aa", "c"], &["aa", "c"]]; sylvia::utils::assert_no_intersection(m) }; //~ ERROR
const _: () = { let m: [&[&str]; 3] = [&["c"], &["aa", "c"], &["b", "c"]]; sylvia::utils::assert_no_intersection(m) }; //~ ERROR
const _: () = { let m: [&[&str]; 3] = [&["c"], &["b", "c"], &[]]; sylvia::utils::assert_no_intersection(m) }; //~ ERROR
const _: () = { let m: [&[&str]; 3] = [&["c"], &["b", "c"], &["aa"]]; sylvia::utils::assert_no_intersection(m) }; //~ ERROR
const _: () = { let m: [&[&str]; 3] = [&["c"], &["b", "c"], &["b"]]; sylvia::utils::assert_no_intersection(m) }; //~ ERROR
const _: () = { let m: [&[&str]; 3] = [&["c"], &["b", "c"], &["c"]]; sylvia::utils::assert_no_intersection(m) }; //~ ERROR
const _: () = { let m: [&[&str]; 3] = [&["c"], &["b", "c"], &["aa", "b"]]; sylvia::utils::assert_no_intersection(m) }; //~ ERROR
const _: () = { let m: [&[&str]; 3] = [&["c"], &["b", "c"], &["aa", "c"]]; sylvia::utils::assert_no_intersection(m) }; //~ ERROR
const _: () = { let m: [&[&str]; 3] = [&["c"], &["b", "c"], &["b", "c"]]; sylvia::utils::assert_no_intersection(m) }; //~ ERROR
const _: () = { let m: [&[&str]; 3] = [&["aa", "b"], &[], &[]]; sylvia::utils::assert_no_intersection(m) };
const _: () = { let m: [&[&str]; 3] = [&["aa", "b"], &[], &["aa"]]; sylvia::utils::assert_no_intersection(m) }; //~ ERROR
const _: () = { let m: [&[&str]; 3] = [&["aa", "b"], &[], &["b"]]; sylvia::utils::assert_no_intersection(m) }; //~ ERROR
const _: () = { let m: [&[&str]; 3] = [&["aa", "b"], &[], &["c"]]; sylvia::utils::assert_no_intersection(m) };
const _: () = { let m: [&[&str]; 3] = [&["aa", "b"], &[], &["aa", "b"]]; sylvia::utils::assert_no_intersection(m) }; //~ ERROR
const _: () = { let m: [&[&str]; 3] = [&["aa", "b"], &[], &["aa", "c"]]; sylvia::utils::assert_no_intersection(m) }; //~ ERROR
const _: () = { let m: [&[&str]; 3] = [&["aa", "b"], &[], &["b", "c"]]; sylvia::utils::assert_no_intersection(m) }; //~ ERROR
const _: () = { let m: [&[&str]; 3] = [&["aa", "b"], &["aa"], &[]]; sylvia::utils::assert_no_intersection(m) }; //~ ERROR
const _: () = { let m: [&[&str]; 3] = [&["aa", "b"], &["aa"], &["aa"]]; sylvia::utils::assert_no_intersection(m) }; //~ ERROR
const _: () = { let m: [&[&str]; 3] = [&["aa", "b"], &["aa"], &["b"]]; sylvia::utils::assert_no_intersection(m) }; //~ ERROR
const _: () = { let m: [&[&str]; 3] = [&["aa", "b"], &["aa"], &["c"]]; sylvia::utils::assert_no_intersection(m) }; //~ ERROR
const _: () = { let m: [&[&str]; 3] = [&["aa", "b"], &["aa"], &["aa", "b"]]; sylvia::utils::assert_no_intersection(m) }; //~ ERROR
const _: () = { let m: [&[&str]; 3] = [&["aa", "b"], &["aa"], &["aa", "c"]]; sylvia::utils::assert_no_intersection(m) }; //~ ERROR
const _: () = { let m: [&[&str]; 3] = [&["aa", "b"], &["aa"], &["b", "c"]]; sylvia::utils::assert_no_intersection(m) }; //~ ERROR
const _: () = { let m: [&[&str]; 3] = [&["aa", "b"], &["b"], &[]]; sylvia::utils::assert_no_intersection(m) }; //~ ERROR
const _: () = { let m: [&[&str]; 3] = [&["aa", "b"], &["b"], &["aa"]]; sylvia::utils::assert_no_intersection(m) }; //~ ERROR
const _: () = { let m: [&[&str]; 3] = [&["aa", "b"], &["b"], &["b"]]; sylvia::utils::assert_no_intersection(m) }; //~ ERROR
const _: () = { let m: [&[&str]; 3] = [&["aa", "b"], &["b"], &["c"]]; sylvia::utils::assert_no_intersection(m) }; //~ ERROR
const _: () = { let m: [&[&str]; 3] = [&["aa", "b"], &["b"], &["aa", "b"]]; sylvia::utils::assert_no_intersection(m) }; //~ ERROR
const _: () = { let m: [&[&str]; 3] = [&["aa", "b"], &["b"], &["aa", "c"]]; sylvia::utils::assert_no_intersection(m) }; //~ ERROR
const _: () = { let m: [&[&str]; 3] = [&["aa", "b"], &["b"], &["b", "c"]]; sylvia::utils::assert_no_intersection(m) }; //~ ERROR
const _: () = { let m: [&[&str]; 3] = [&["aa", "b"], &["c"], &[]]; sylvia::utils::assert_no_intersection(m) };
const _: () = { let m: [&[&str]; 3] = [&["aa", "b"], &["c"], &["aa"]]; sylvia::utils::assert_no_intersection(m) }; //~ ERROR
const _: () = { let m: [&[&str]; 3] = [&["aa", "b"], &["c"], &["b"]]; sylvia::utils::assert_no_intersection(m) }; //~ ERROR
const _: () = { let m: [&[&str]; 3] = [&["aa", "b"], &["c"], &["c"]]; sylvia::utils::assert_no_intersection(m) }; //~ ERROR
const _: () = { let m: [&[&str]; 3] = [&["aa", "b"], &["c"], &["aa", "b"]]; sylvia::utils::assert_no_intersection(m) }; //~ ERROR
const _: () = { let m: [&[&str]; 3] = [&["aa", "b"], &["c"], &["aa", "c"]]; sylvia::utils::assert_no_intersection(m) }; //~ ERROR
const _: () = { let m: [&[&str]; 3] = [&["aa", "b"], &["c"], &["b", "c"]]; sylvia::utils::assert_no_intersection(m) }; //~ ERROR
const _: () = { let m: [&[&str]; 3] = [&["aa", "b"], &["aa", "b"], &[]]; sylvia::utils::assert_no_intersection(m) }; //~ ERROR
const _: () = { let m: [&[&str]; 3] = [&["aa", "b"], &["aa", "b"], &["aa"]]; sylvia::utils::assert_no_intersection(m) }; //~ ERROR
const _: () = { let m: [&[&str]; 3] = [&["aa", "b"], &["aa", "b"], &["b"]]; sylvia::utils::assert_no_intersection(m) }; //~ ERROR
const _: () = { let m: [&[&str]; 3] = [&["aa", "b"], &["aa", "b"], &["c"]]; sylvia::utils::assert_no_intersection(m) }; //~ ERROR
const _: () = { let m: [&[&str]; 3] = [&["aa", "b"], &["aa", "b"], &["aa", "b"]]; sylvia::utils::assert_no_intersection(m) }; //~ ERROR
const _: () = { let m: [&[&str]; 3] = [&["aa", "b"], &["aa", "b"], &["aa", "c"]]; sylvia::utils::assert_no_intersection(m) }; //~ ERROR
const _: () = { let m: [&[&str]; 3] = [&["aa", "b"], &["aa", "b"], &["b", "c"]]; sylvia::utils::assert_no_intersection(m) }; //~ ERROR
const _: () = { let m: [&[&str]; 3] = [&["aa", "b"], &["aa", "c"], &[]]; sylvia::utils::assert_no_intersection(m) }; //~ ERROR
const _: () = { let m: [&[&str]; 3] = [&["aa", "b"], &["aa", "c"], &["aa"]]; sylvia::utils::assert_no_intersection(m) }; //~ ERROR
const _: () = { let m: [&[&str]; 3] = [&["aa", "b"], &["aa", "c"], &["b"]]; sylvia::utils::assert_no_intersection(m) }; //~ ERROR
const _: () = { let m: [&[&str]; 3] = [&["aa", "b"], &["aa", "c"], &["c"]]; sylvia::utils::assert_no_intersection(m) }; //~ ERROR
const _: () = { let m: [&[&str]; 3] = [&["aa", "b"], &["aa", "c"], &["aa", "b"]]; sylvia::utils::assert_no_intersection(m) }; //~ ERROR
const _: () = { let m: [&[&str]; 3] = [&["aa", "b"], &["aa", "c"], &["aa", "c"]]; sylvia::utils::assert_no_intersection(m) }; //~ ERROR
const _: () = { let m: [&[&str]; 3] = [&["aa", "b"], &["aa", "c"], &["b", "c"]]; sylvia::utils::assert_no_intersection(m) }; //~ ERROR
const _: () = { let m: [&[&str]; 3] = [&["aa", "b"], &["b", "c"], &[]]; sylvia::utils::assert_no_intersection(m) }; //~ ERROR
const _: () = { let m: [&[&str]; 3] = [&["aa", "b"], &["b", "c"], &["aa"]]; sylvia::utils::assert_no_intersection(m) }; //~ ERROR
const _: () = { let m: [&[&str]; 3] = [&["aa", "b"], &["b", "c"], &["b"]]; sylvia::utils::assert_no_intersection(m) }; //~ ERROR
const _: () = { let m: [&[&str]; 3] = [&["aa", "b"], &["b", "c"], &["c"]]; sylvia::utils::assert_no_intersection(m) }; //~ ERROR
const _: () = { let m: [&[&str]; 3] = [&["aa", "b"], &["b", "c"], &["aa", "b"]]; sylvia::utils::assert_no_intersection(m) }; //~ ERROR
const _: () = { let m: [&[&str]; 3] = [&["aa", "b"], &["b", "c"], &["aa", "c"]]; sylvia::utils::assert_no_intersection(m) }; //~ ERROR
const _: () = { let m: [&[&str]; 3] = [&["aa", "b"], &["b", "c"], &["b", "c"]]; sylvia::utils::assert_no_intersection(m) }; //~ ERROR
const _: () = { let m: [&[&str]; 3] = [&["aa", "c"], &[], &[]]; sylvia::utils::assert_no_intersection(m) };
const _: () = { let m: [&[&str]; 3] = [&["aa", "c"], &[], &["aa"]]; sylvia::utils::assert_no_intersection(m) }; //~ ERROR
const _: () = { let m: [&[&str]; 3] = [&["aa", "c"], &[], &["b"]]; sylvia::utils::assert_no_intersection(m) };
const _: () = { let m: [&[&str]; 3] = [&["aa", "c"], &[], &["c"]]; sylvia::utils::assert_no_intersection(m) }; //~ ERROR
const _: () = { let m: [&[&str]; 3] = [&["aa", "c"], &[], &["aa", "b"]]; sylvia::utils::assert_no_intersection(m) }; //~ ERROR
const _: () = { let m: [&[&str]; 3] = [&["aa", "c"], &[], &["aa", "c"]]; sylvia::utils::assert_no_intersection(m) }; //~ ERROR
const _: () = { let m: [&[&str]; 3] = [&["aa", "c"], &[], &["b", "c"]]; sylvia::utils::assert_no_intersection(m) }; //~ ERROR
const _: () = { let m: [&[&str]; 3] = [&["aa", "c"], &["aa"], &[]]; sylvia::utils::assert_no_intersection(m) }; //~ ERROR
const _: () = { let m: [&[&str]; 3] = [&["aa", "c"], &["aa"], &["aa"]]; sylvia::utils::assert_no_intersection(m) }; //~ ERROR
const _: () = { let m: [&[&str]; 3] = [&["aa", "c"], &["aa"], &["b"]]; sylvia::utils::assert_no_intersection(m) }; //~ ERROR
const _: () = { let m: [&[&str]; 3] = [&["aa", "c"], &["aa"], &["c"]]; sylvia::utils::assert_no_intersection(m) }; //~ ERROR
const _: () = { let m: [&[&str]; 3] = [&["aa", "c"], &["aa"], &["aa", "b"]]; sylvia::utils::assert_no_intersection(m) }; //~ ERROR
const _: () = { let m: [&[&str]; 3] = [&["aa", "c"], &["aa"], &["aa", "c"]]; sylvia::utils::assert_no_intersection(m) }; //~ ERROR
const _: () = { let m: [&[&str]; 3] = [&["aa", "c"], &["aa"], &["b", "c"]]; sylvia::utils::assert_no_intersection(m) }; //~ ERROR
const _: () = { let m: [&[&str]; 3] = [&["aa", "c"], &["b"], &[]]; sylvia::utils::assert_no_intersection(m) };
const _: () = { let m: [&[&str]; 3] = [&["aa", "c"], &["b"], &["aa"]]; sylvia::utils::assert_no_intersection(m) }; //~ ERROR
const _: () = { let m: [&[&str]; 3] = [&["aa", "c"], &["b"], &["b"]]; sylvia::utils::assert_no_intersection(m) }; //~ ERROR
const _: () = { let m: [&[&str]; 3] = [&["aa", "c"], &["b"], &["c"]]; sylvia::utils::assert_no_intersection(m) }; //~ ERROR
const _: () = { let m: [&[&str]; 3] = [&["aa", "c"], &["b"], &["aa", "b"]]; sylvia::utils::assert_no_intersection(m) }; //~ ERROR
const _: () = { let m: [&[&str]; 3] = [&["aa", "c"], &["b"], &["aa", "c"]]; sylvia::utils::assert_no_intersection(m) }; //~ ERROR
const _: () = { let m: [&[&str]; 3] = [&["aa", "c"], &["b"], &["b", "c"]]; sylvia::utils::assert_no_intersection(m) }; //~ ERROR
const _: () = { let m: [&[&str]; 3] = [&["aa", "c"], &["c"], &[]]; sylvia::utils::assert_no_intersection(m) }; //~ ERROR
const _: () = { let m: [&[&str]; 3] = [&["aa", "c"], &["c"], &["aa"]]; sylvia::utils::assert_no_intersection(m) }; //~ ERROR
const _: () = { let m: [&[&str]; 3] = [&["aa", "c"], &["c"], &["b"]]; sylvia::utils::assert_no_intersection(m) }; //~ ERROR
const _: () = { let m: [&[&str]; 3] = [&["aa", "c"], &["c"], &["c"]]; sylvia::utils::assert_no_intersection(m) }; //~ ERROR
const _: () = { let m: [&[&str]; 3] = [&["aa", "c"], &["c"], &["aa", "b"]]; sylvia::utils::assert_no_intersection(m) }; //~ ERROR
const _: () = { let m: [&[&str]; 3] = [&["aa", "c"], &["c"], &["aa", "c"]]; sylvia::utils::assert_no_intersection(m) }; //~ ERROR
const _: () = { let m: [&[&str]; 3] = [&["aa", "c"], &["c"], &["b", "c"]]; sylvia::utils::assert_no_intersection(m) }; //~ ERROR
const _: () = { let m: [&[&str]; 3] = [&["aa", "c"], &["aa", "b"], &[]]; sylvia::utils::assert_no_intersection(m) }; //~ ERROR
const _: () = { let m: [&[&str]; 3] = [&["aa", "c"], &["aa", "b"], &["aa"]]; sylvia::utils::assert_no_intersection(m) }; //~ ERROR
const _: () = { let m: [&[&str]; 3] = [&["aa", "c"], &["aa", "b"], &["b"]]; sylvia::utils::assert_no_intersection(m) }; //~ ERROR
const _: () = { let m: [&[&str]; 3] = [&["aa", "c"], &["aa", "b"], &["c"]]; sylvia::utils::assert_no_intersection(m) }; //~ ERROR
const _: () = { let m: [&[&str]; 3] = [&["aa", "c"], &["aa", "b"], &["aa", "b"]]; sylvia::utils::assert_no_intersection(m) }; //~ ERROR
const _: () = { let m: [&[&str]; 3] = [&["aa", "c"], &["aa", "b"], &["aa", "c"]]; sylvia::utils::assert_no_intersection(m) }; //~ ERROR
const _: () = { let m: [&[&str]; 3] = [&["aa", "c"], &["aa", "b"], &["b", "c"]]; sylvia::utils::assert_no_intersection(m) }; //~ ERROR
const _: () = { let m: [&[&str]; 3] = [&["aa", "c"], &["aa", "c"], &[]]; sylvia::utils::assert_no_intersection(m) }; //~ ERROR
const _: () = { let m: [&[&str]; 3] = [&["aa", "c"], &["aa", "c"], &["aa"]]; sylvia::utils::assert_no_intersection(m) }; //~ ERROR
const _: () = { let m: [&[&str]; 3] = [&["aa", "c"], &["aa", "c"], &["b"]]; sylvia::utils::assert_no_intersection(m) }; //~ ERROR
const _: () = { let m: [&[&str]; 3] = [&["aa", "c"], &["aa", "c"], &["c"]]; sylvia::utils::assert_no_intersection(m) }; //~ ERROR
const _: () = { let m: [&[&str]; 3] = [&["aa", "c"], &["aa", "c"], &["aa", "b"]]; sylvia::utils::assert_no_intersection(m) }; //~ ERROR
const _: () = { let m: [&[&str]; 3] = [&["aa", "c"], &["aa", "c"], &["aa", "c"]]; sylvia::utils::assert_no_intersection(m) }; //~ ERROR
const _: () = { let m: [&[&str]; 3] = [&["aa", "c"], &["aa", "c"], &["b", "c"]]; sylvia::utils::assert_no_intersection(m) }; //~ ERROR
const _: () = { let m: [&[&str]; 3] = [&["aa", "c"], &["b", "c"], &[]]; sylvia::utils::assert_no_intersection(m) }; //~ ERROR
const _: () = { let m: [&[&str]; 3] = [&["aa", "c"], &["b", "c"], &["aa"]]; sylvia::utils::assert_no_intersection(m) }; //~ ERROR
const _: () = { let m: [&[&str]; 3] = [&["aa", "c"], &["b", "c"], &["b"]]; sylvia::utils::assert_no_intersection(m) }; //~ ERROR
const _: () = { let m: [&[&str]; 3] = [&["aa", "c"], &["b", "c"], &["c"]]; sylvia::utils::assert_no_intersection(m) }; //~ ERROR
const _: () = { let m: [&[&str]; 3] = [&["aa", "c"], &["b", "c"], &["aa", "b"]]; sylvia::utils::assert_no_intersection(m) }; //~ ERROR
const _: () = { let m: [&[&str]; 3] = [&["aa", "c"], &["b", "c"], &["aa", "c"]]; sylvia::utils::assert_no_intersection(m) }; //~ ERROR
const _: () = { let m: [&[&str]; 3] = [&["aa", "c"], &["b", "c"], &["b", "c"]]; sylvia::utils::assert_no_intersection(m) }; //~ ERROR
const _: () = { let m: [&[&str]; 3] = [&["b", "c"], &[], &[]]; sylvia::utils::assert_no_intersection(m) };
const _: () = { let m: [&[&str]; 3] = [&["b", "c"], &[], &["aa"]]; sylvia::utils::assert_no_intersection(m) };
const _: () = { let m: [&[&str]; 3] = [&["b", "c"], &[], &["b"]]; sylvia::utils::assert_no_intersection(m) }; //~ ERROR
const _: () = { let m: [&[&str]; 3] = [&["b", "c"], &[], &["c"]]; sylvia::utils::assert_no_intersection(m) }; //~ ERROR
const _: () = { let m: [&[&str]; 3] = [&["b", "c"], &[], &["aa", "b"]]; sylvia::utils::assert_no_intersection(m) }; //~ ERROR
const _: () = { let m: [&[&str]; 3] = [&["b", "c"], &[], &["aa", "c"]]; sylvia::utils::assert_no_intersection(m) }; //~ ERROR
const _: () = { let m: [&[&str]; 3] = [&["b", "c"], &[], &["b", "c"]]; sylvia::utils::assert_no_intersection(m) }; //~ ERROR
const _: () = { let m: [&[&str]; 3] = [&["b", "c"], &["aa"], &[]]; sylvia::utils::assert_no_intersection(m) };
const _: () = { let m: [&[&str]; 3] = [&["b", "c"], &["aa"], &["aa"]]; sylvia::utils::assert_no_intersection(m) }; //~ ERROR
const _: () = { let m: [&[&str]; 3] = [&["b", "c"], &["aa"], &["b"]]; sylvia::utils::assert_no_intersection(m) }; //~ ERROR
const _: () = { let m: [&[&str]; 3] = [&["b", "c"], &["aa"], &["c"]]; sylvia::utils::assert_no_intersection(m) }; //~ ERROR
const _: () = { let m: [&[&str]; 3] = [&["b", "c"], &["aa"], &["aa", "b"]]; sylvia::utils::assert_no_intersection(m) }; //~ ERROR
const _: () = { let m: [&[&str]; 3] = [&["b", "c"], &["aa"], &["aa", "c"]]; sylvia::utils::assert_no_intersection(m) }; //~ ERROR
const _: () = { let m: [&[&str]; 3] = [&["b", "c"], &["aa"], &["b", "c"]]; sylvia::utils::assert_no_intersection(m) }; //~ ERROR
const _: () = { let m: [&[&str]; 3] = [&["b", "c"], &["b"], &[]]; sylvia::utils::assert_no_intersection(m) }; //~ ERROR
const _: () = { let m: [&[&str]; 3] = [&["b", "c"], &["b"], &["aa"]]; sylvia::utils::assert_no_intersection(m) }; //~ ERROR
const _: () = { let m: [&[&str]; 3] = [&["b", "c"], &["b"], &["b"]]; sylvia::utils::assert_no_intersection(m) }; //~ ERROR
const _: () = { let m: [&[&str]; 3] = [&["b", "c"], &["b"], &["c"]]; sylvia::utils::assert_no_intersection(m) }; //~ ERROR
const _: () = { let m: [&[&str]; 3] = [&["b", "c"], &["b"], &["aa", "b"]]; sylvia::utils::assert_no_intersection(m) }; //~ ERROR
const _: () = { let m: [&[&str]; 3] = [&["b", "c"], &["b"], &["aa", "c"]]; sylvia::utils::assert_no_intersection(m) }; //~ ERROR
const _: () = { let m: [&[&str]; 3] = [&["b", "c"], &["b"], &["b", "c"]]; sylvia::utils::assert_no_intersection(m) }; //~ ERROR
const _: () = { let m: [&[&str]; 3] = [&["b", "c"], &["c"], &[]]; sylvia::utils::assert_no_intersection(m) }; //~ ERROR
const _: () = { let m: [&[&str]; 3] = [&["b", "c"], &["c"], &["aa"]]; sylvia::utils::assert_no_intersection(m) }; //~ ERROR
const _: () = { let m: [&[&str]; 3] = [&["b", "c"], &["c"], &["b"]]; sylvia::utils::assert_no_intersection(m) }; //~ ERROR
const _: () = { let m: [&[&str]; 3] = [&["b", "c"], &["c"], &["c"]]; sylvia::utils::assert_no_intersection(m) }; //~ ERROR
const _: () = { let m: [&[&str]; 3] = [&["b", "c"], &["c"], &["aa", "b"]]; sylvia::utils::assert_no_intersection(m) }; //~ ERROR
const _: () = { let m: [&[&str]; 3] = [&["b", "c"], &["c"], &["aa", "c"]]; sylvia::utils::assert_no_intersection(m) }; //~ ERROR
const _: () = { let m: [&[&str]; 3] = [&["b", "c"], &["c"], &["b", "c"]]; sylvia::utils::assert_no_intersection(m) }; //~ ERROR
const _: () = { let m: [&[&str]; 3] = [&["b", "c"], &["aa", "b"], &[]]; sylvia::utils::assert_no_intersection(m) }; //~ ERROR
const _: () = { let m: [&[&str]; 3] = [&["b", "c"], &["aa", "b"], &["aa"]]; sylvia::utils::assert_no_intersection(m) }; //~ ERROR
const _: () = { let m: [&[&str]; 3] = [&["b", "c"], &["aa", "b"], &["b"]]; sylvia::utils::assert_no_intersection(m) }; //~ ERROR
const _: () = { let m: [&[&str]; 3] = [&["b", "c"], &["aa", "b"], &["c"]]; sylvia::utils::assert_no_intersection(m) }; //~ ERROR
const _: () = { let m: [&[&str]; 3] = [&["b", "c"], &["aa", "b"], &["aa", "b"]]; sylvia::utils::assert_no_intersection(m) }; //~ ERROR
const _: () = { let m: [&[&str]; 3] = [&["b", "c"], &["aa", "b"], &["aa", "c"]]; sylvia::utils::assert_no_intersection(m) }; //~ ERROR
const _: () = { let m: [&[&str]; 3] = [&["b", "c"], &["aa", "b"], &["b", "c"]]; sylvia::utils::assert_no_intersection(m) }; //~ ERROR
const _: () = { let m: [&[&str]; 3] = [&["b", "c"], &["aa", "c"], &[]]; sylvia::utils::assert_no_intersection(m) }; //~ ERROR
const _: () = { let m: [&[&str]; 3] = [&["b", "c"], &["aa", "c"], &["aa"]]; sylvia::utils::assert_no_intersection(m) }; //~ ERROR
const _: () = { let m: [&[&str]; 3] = [&["b", "c"], &["aa", "c"], &["b"]]; sylvia::utils::assert_no_intersection(m) }; //~ ERROR
const _: () = { let m: [&[&str]; 3] = [&["b", "c"], &["aa", "c"], &["c"]]; sylvia::utils::assert_no_intersection(m) }; //~ ERROR
const _: () = { let m: [&[&str]; 3] = [&["b", "c"], &["aa", "c"], &["aa", "b"]]; sylvia::utils::assert_no_intersection(m) }; //~ ERROR
const _: () = { let m: [&[&str]; 3] = [&["b", "c"], &["aa", "c"], &["aa", "c"]]; sylvia::utils::assert_no_intersection(m) }; //~ ERROR
const _: () = { let m: [&[&str]; 3] = [&["b", "c"], &["aa", "c"], &["b", "c"]]; sylvia::utils::assert_no_intersection(m) }; //~ ERROR
const _: () = { let m: [&[&str]; 3] = [&["b", "c"], &["b", "c"], &[]]; sylvia::utils::assert_no_intersection(m) }; //~ ERROR
const _: () = { let m: [&[&str]; 3] = [&["b", "c"], &["b", "c"], &["aa"]]; sylvia::utils::assert_no_intersection(m) }; //~ ERROR
const _: () = { let m: [&[&str]; 3] = [&["b", "c"], &["b", "c"], &["b"]]; sylvia::utils::assert_no_intersection(m) }; //~ ERROR
const _: () = { let m: [&[&str]; 3] = [&["b", "c"], &["b", "c"], &["c"]]; sylvia::utils::assert_no_intersection(m) }; //~ ERROR
const _: () = { let m: [&[&str]; 3] = [&["b", "c"], &["b", "c"], &["aa", "b"]]; sylvia::utils::assert_no_intersection(m) }; //~ ERROR
const _: () = { let m: [&[&str]; 3] = [&["b", "c"], &["b", "c"], &["aa", "c"]]; sylvia::utils::assert_no_intersection(m) }; //~ ERROR
const _: () = { let m: [&[&str]; 3] = [&["b", "c"], &["b", "c"], &["b", "c"]]; sylvia::utils::assert_no_intersection(m) }; //~ ERROR
fn main() {}
