//@ props: C05
//@ expect: fail
//@ exact: yes
//@ index: no
//@ what: same over {a,aa,ab}: names that are prefixes of each other are distinct
#![allow(dead_code)]
const _: () = { let m: [&[&str]; 1] = [&[]]; sylvia::utils::assert_no_intersection(m) };
const _: () = { let m: [&[&str]; 1] = [&["a"]]; sylvia::utils::assert_no_intersection(m) };
const _: () = { let m: [&[&str]; 1] = [&["aa"]]; sylvia::utils::assert_no_intersection(m) };
const _: () = { let m: [&[&str]; 1] = [&["ab"]]; sylvia::utils::assert_no_intersection(m) };
const _: () = { let m: [&[&str]; 1] = [&["a", "aa"]]; sylvia::utils::assert_no_intersection(m) };
const _: () = { let m: [&[&str]; 1] = [&["a", "ab"]]; sylvia::utils::assert_no_intersection(m) };
const _: () = { let m: [&[&str]; 1] = [&["aa", "ab"]]; sylvia::utils::assert_no_intersection(m) };
const _: () = { let m: [&[&str]; 2] = [&[], &[]]; sylvia::utils::assert_no_intersection(m) };
const _: () = { let m: [&[&str]; 2] = [&[], &["a"]]; sylvia::utils::assert_no_intersection(m) };
const _: () = { let m: [&[&str]; 2] = [&[], &["aa"]]; sylvia::utils::assert_no_intersection(m) };
const _: () = { let m: [&[&str]; 2] = [&[], &["ab"]]; sylvia::utils::assert_no_intersection(m) };
const _: () = { let m: [&[&str]; 2] = [&[], &["a", "aa"]]; sylvia::utils::assert_no_intersection(m) };
const _: () = { let m: [&[&str]; 2] = [&[], &["a", "ab"]]; sylvia::utils::assert_no_intersection(m) };
const _: () = { let m: [&[&str]; 2] = [&[], &["aa", "ab"]]; sylvia::utils::assert_no_intersection(m) };
const _: () = { let m: [&[&str]; 2] = [&["a"], &[]]; sylvia::utils::assert_no_intersection(m) };
const _: () = { let m: [&[&str]; 2] = [&["a"], &["a"]]; sylvia::utils::assert_no_intersection(m) }; //~ ERROR
const _: () = { let m: [&[&str]; 2] = [&["a"], &["aa"]]; sylvia::utils::assert_no_intersection(m) };
const _: () = { let m: [&[&str]; 2] = [&["a"], &["ab"]]; sylvia::utils::assert_no_intersection(m) };
const _: () = { let m: [&[&str]; 2] = [&["a"], &["a", "aa"]]; sylvia::utils::assert_no_intersection(m) }; //~ ERROR
const _: () = { let m: [&[&str]; 2] = [&["a"], &["a", "ab"]]; sylvia::utils::assert_no_intersection(m) }; //~ ERROR
const _: () = { let m: [&[&str]; 2] = [&["a"], &["aa", "ab"]]; sylvia::utils::assert_no_intersection(m) };
const _: () = { let m: [&[&str]; 2] = [&["aa"], &[]]; sylvia::utils::assert_no_intersection(m) };
const _: () = { let m: [&[&str]; 2] = [&["aa"], &["a"]]; sylvia::utils::assert_no_intersection(m) };
const _: () = { let m: [&[&str]; 2] = [&["aa"], &["aa"]]; sylvia::utils::assert_no_intersection(m) }; //~ ERROR
const _: () = { let m: [&[&str]; 2] = [&["aa"], &["ab"]]; sylvia::utils::assert_no_intersection(m) };
const _: () = { let m: [&[&str]; 2] = [&["aa"], &["a", "aa"]]; sylvia::utils::assert_no_intersection(m) }; //~ ERROR
const _: () = { let m: [&[&str]; 2] = [&["aa"], &["a", "ab"]]; sylvia::utils::assert_no_intersection(m) };
const _: () = { let m: [&[&str]; 2] = [&["aa"], &["aa", "ab"]]; sylvia::utils::assert_no_intersection(m) }; //~ ERROR
const _: () = { let m: [&[&str]; 2] = [&["ab"], &[]]; sylvia::utils::assert_no_intersection(m) };
const _: () = { let m: [&[&str]; 2] = [&["ab"], &["a"]]; sylvia::utils::assert_no_intersection(m) };
const _: () = { let m: [&[&str]; 2] = [&["ab"], &["aa"]]; sylvia::utils::assert_no_intersection(m) };
const _: () = { let m: [&[&str]; 2] = [&["ab"], &["ab"]]; sylvia::utils::assert_no_intersection(m) }; //~ ERROR
const _: () = { let m: [&[&str]; 2] = [&["ab"], &["a", "aa"]]; sylvia::utils::assert_no_intersection(m) };
const _: () = { let m: [&[&str]; 2] = [&["ab"], &["a", "ab"]]; sylvia::utils::assert_no_intersection(m) }; //~ ERROR
const _: () = { let m: [&[&str]; 2] = [&["ab"], &["aa", "ab"]]; sylvia::utils::assert_no_intersection(m) }; //~ ERROR
const _: () = { let m: [&[&str]; 2] = [&["a", "aa"], &[]]; sylvia::utils::assert_no_intersection(m) };
const _: () = { let m: [&[&str]; 2] = [&["a", "aa"], &["a"]]; sylvia::utils::assert_no_intersection(m) }; //~ ERROR
const _: () = { let m: [&[&str]; 2] = [&["a", "aa"], &["aa"]]; sylvia::utils::assert_no_intersection(m) }; //~ ERROR
const _: () = { let m: [&[&str]; 2] = [&["a", "aa"], &["ab"]]; sylvia::utils::assert_no_intersection(m) };
const _: () = { let m: [&[&str]; 2] = [&["a", "aa"], &["a", "aa"]]; sylvia::utils::assert_no_intersection(m) }; //~ ERROR
const _: () = { let m: [&[&str]; 2] = [&["a", "aa"], &["a", "ab"]]; sylvia::utils::assert_no_intersection(m) }; //~ ERROR
const _: () = { let m: [&[&str]; 2] = [&["a", "aa"], &["aa", "ab"]]; sylvia::utils::assert_no_intersection(m) }; //~ ERROR
const _: () = { let m: [&[&str]; 2] = [&["a", "ab"], &[]]; sylvia::utils::assert_no_intersection(m) };
const _: () = { let m: [&[&str]; 2] = [&["a", "ab"], &["a"]]; sylvia::utils::assert_no_intersection(m) }; //~ ERROR
const _: () = { let m: [&[&str]; 2] = [&["a", "ab"], &["aa"]]; sylvia::utils::assert_no_intersection(m) };
const _: () = { let m: [&[&str]; 2] = [&["a", "ab"], &["ab"]]; sylvia::utils::assert_no_intersection(m) }; //~ ERROR
const _: () = { let m: [&[&str]; 2] = [&["a", "ab"], &["a", "aa"]]; sylvia::utils::assert_no_intersection(m) }; //~ ERROR
const _: () = { let m: [&[&str]; 2] = [&["a", "ab"], &["a", "ab"]]; sylvia::utils::assert_no_intersection(m) }; //~ ERROR
const _: () = { let m: [&[&str]; 2] = [&["a", "ab"], &["aa", "ab"]]; sylvia::utils::assert_no_intersection(m) }; //~ ERROR
const _: () = { let m: [&[&str]; 2] = [&["aa", "ab"], &[]]; sylvia::utils::assert_no_intersection(m) };
const _: () = { let m: [&[&str]; 2] = [&["aa", "ab"], &["a"]]; sylvia::utils::assert_no_intersection(m) };
const _: () = { let m: [&[&str]; 2] = [&["aa", "ab"], &["aa"]]; sylvia::utils::assert_no_intersection(m) }; //~ ERROR
const _: () = { let m: [&[&str]; 2] = [&["aa", "ab"], &["ab"]]; sylvia::utils::assert_no_intersection(m) }; //~ ERROR
const _: () = { let m: [&[&str]; 2] = [&["aa", "ab"], &["a", "aa"]]; sylvia::utils::assert_no_intersection(m) }; //~ ERROR
const _: () = { let m: [&[&str]; 2] = [&["aa", "ab"], &["a", "ab"]]; sylvia::utils::assert_no_intersection(m) }; //~ ERROR
const _: () = { let m: [&[&str]; 2] = [&["aa", "ab"], &["aa", "ab"]]; sylvia::utils::assert_no_intersection(m) }; //~ ERROR
const _: () = { let m: [&[&str]; 3] = [&[], &[], &[]]; sylvia::utils::assert_no_intersection(m) };
const _: () = { let m: [&[&str]; 3] = [&[], &[], &["a"]]; sylvia::utils::assert_no_intersection(m) };
const _: () = { let m: [&[&str]; 3] = [&[], &[], &["aa"]]; sylvia::utils::assert_no_intersection(m) };
const _: () = { let m: [&[&str]; 3] = [&[], &[], &["ab"]]; sylvia::utils::assert_no_intersection(m) };
const _: () = { let m: [&[&str]; 3] = [&[], &[], &["a", "aa"]]; sylvia::utils::assert_no_intersection(m) };
const _: () = { let m: [&[&str]; 3] = [&[], &[], &["a", "ab"]]; sylvia::utils::assert_no_intersection(m) };
const _: () = { let m: [&[&str]; 3] = [&[], &[], &["aa", "ab"]]; sylvia::utils::assert_no_intersection(m) };
const _: () = { let m: [&[&str]; 3] = [&[], &["a"], &[]]; sylvia::utils::assert_no_intersection(m) };
const _: () = { let m: [&[&str]; 3] = [&[], &["a"], &["a"]]; sylvia::utils::assert_no_intersection(m) }; //~ ERROR
const _: () = { let m: [&[&str]; 3] = [&[], &["a"], &["aa"]]; sylvia::utils::assert_no_intersection(m) };
const _: () = { let m: [&[&str]; 3] = [&[], &["a"], &["ab"]]; sylvia::utils::assert_no_intersection(m) };
const _: () = { let m: [&[&str]; 3] = [&[], &["a"], &["a", "aa"]]; sylvia::utils::assert_no_intersection(m) }; //~ ERROR
const _: () = { let m: [&[&str]; 3] = [&[], &["a"], &["a", "ab"]]; sylvia::utils::assert_no_intersection(m) }; //~ ERROR
const _: () = { let m: [&[&str]; 3] = [&[], &["a"], &["aa", "ab"]]; sylvia::utils::assert_no_intersection(m) };
const _: () = { let m: [&[&str]; 3] = [&[], &["aa"], &[]]; sylvia::utils::assert_no_intersection(m) };
const _: () = { let m: [&[&str]; 3] = [&[], &["aa"], &["a"]]; sylvia::utils::assert_no_intersection(m) };
const _: () = { let m: [&[&str]; 3] = [&[], &["aa"], &["aa"]]; sylvia::utils::assert_no_intersection(m) }; //~ ERROR
const _: () = { let m: [&[&str]; 3] = [&[], &["aa"], &["ab"]]; sylvia::utils::assert_no_intersection(m) };
const _: () = { let m: [&[&str]; 3] = [&[], &["aa"], &["a", "aa"]]; sylvia::utils::assert_no_intersection(m) }; //~ ERROR
const _: () = { let m: [&[&str]; 3] = [&[], &["aa"], &["a", "ab"]]; sylvia::utils::assert_no_intersection(m) };
const _: () = { let m: [&[&str]; 3] = [&[], &["aa"], &["aa", "ab"]]; sylvia::utils::assert_no_intersection(m) }; //~ ERROR
const _: () = { let m: [&[&str]; 3] = [&[], &["ab"], &[]]; sylvia::utils::assert_no_intersection(m) };
const _: () = { let m: [&[&str]; 3] = [&[], &["ab"], &["a"]]; sylvia::utils::assert_no_intersection(m) };
const _: () = { let m: [&[&str]; 3] = [&[], &["ab"], &["aa"]]; sylvia::utils::assert_no_intersection(m) };
const _: () = { let m: [&[&str]; 3] = [&[], &["ab"], &["ab"]]; sylvia::utils::assert_no_intersection(m) }; //~ ERROR
const _: () = { let m: [&[&str]; 3] = [&[], &["ab"], &["a", "aa"]]; sylvia::utils::assert_no_intersection(m) };
const _: () = { let m: [&[&str]; 3] = [&[], &["ab"], &["a", "ab"]]; sylvia::utils::assert_no_intersection(m) }; //~ ERROR
const _: () = { let m: [&[&str]; 3] = [&[], &["ab"], &["aa", "ab"]]; sylvia::utils::assert_no_intersection(m) }; //~ ERROR
const _: () = { let m: [&[&str]; 3] = [&[], &["a", "aa"], &[]]; sylvia::utils::assert_no_intersection(m) };
const _: () = { let m: [&[&str]; 3] = [&[], &["a", "aa"], &["a"]]; sylvia::utils::assert_no_intersection(m) }; //~ ERROR
const _: () = { let m: [&[&str]; 3] = [&[], &["a", "aa"], &["aa"]]; sylvia::utils::assert_no_intersection(m) }; //~ ERROR
const _: () = { let m: [&[&str]; 3] = [&[], &["a", "aa"], &["ab"]]; sylvia::utils::assert_no_intersection(m) };
const _: () = { let m: [&[&str]; 3] = [&[], &["a", "aa"], &["a", "aa"]]; sylvia::utils::assert_no_intersection(m) }; //~ ERROR
const _: () = { let m: [&[&str]; 3] = [&[], &["a", "aa"], &["a", "ab"]]; sylvia::utils::assert_no_intersection(m) }; //~ ERROR
const _: () = { let m: [&[&str]; 3] = [&[], &["a", "aa"], &["aa", "ab"]]; sylvia::utils::assert_no_intersection(m) }; //~ ERROR
const _: () = { let m: [&[&str]; 3] = [&[], &["a", "ab"], &[]]; sylvia::utils::assert_no_intersection(m) };
const _: () = { let m: [&[&str]; 3] = [&[], &["a", "ab"], &["a"]]; sylvia::utils::assert_no_intersection(m) }; //~ ERROR
const _: () = { let m: [&[&str]; 3] = [&[], &["a", "ab"], &["aa"]]; sylvia::utils::assert_no_intersection(m) };
const _: () = { let m: [&[&str]; 3] = [&[], &["a", "ab"], &["ab"]]; sylvia::utils::assert_no_intersection(m) }; //~ ERROR
const _: () = { let m: [&[&str]; 3] = [&[], &["a", "ab"], &["a", "aa"]]; sylvia::utils::assert_no_intersection(m) }; //~ ERROR
const _: () = { let m: [&[&str]; 3] = [&[], &["a", "ab"], &["a", "ab"]]; sylvia::utils::assert_no_intersection(m) }; //~ ERROR
const _: () = { let m: [&[&str]; 3] = [&[], &["a", "ab"], &["aa", "ab"]]; sylvia::utils::assert_no_intersection(m) }; //~ ERROR
const _: () = { let m: [&[&str]; 3] = [&[], &["aa", "ab"], &[]]; sylvia::utils::assert_no_intersection(m) };
const _: () = { let m: [&[&str]; 3] = [&[], &["aa", "ab"], &["a"]]; sylvia::utils::assert_no_intersection(m) };
const _: () = { let m: [&[&str]; 3] = [&[], &["aa", "ab"], &["aa"]]; sylvia::utils::assert_no_intersection(m) }; //~ ERROR
const _: () = { let m: [&[&str]; 3] = [&[], &["aa", "ab"], &["ab"]]; sylvia::utils::assert_no_intersection(m) }; //~ ERROR
const _: () = { let m: [&[&str]; 3] = [&[], &["aa", "ab"], &["a", "aa"]]; sylvia::utils::assert_no_intersection(m) }; //~ ERROR
const _: () = { let m: [&[&str]; 3] = [&[], &["aa", "ab"], &["a", "ab"]]; sylvia::utils::assert_no_intersection(m) }; //~ ERROR
const _: () = { let m: [&[&str]; 3] = [&[], &["aa", "ab"], &["aa", "ab"]]; sylvia::utils::assert_no_intersection(m) }; //~ ERROR
const _: () = { let m: [&[&str]; 3] = [&["a"], &[], &[]]; sylvia::utils::assert_no_intersection(m) };
const _: () = { let m: [&[&str]; 3] = [&["a"], &[], &["a"]]; sylvia::utils::assert_no_intersection(m) }; //~ ERROR
const _: () = { let m: [&[&str]; 3] = [&["a"], &[], &["aa"]]; sylvia::utils::assert_no_intersection(m) };
const _: () = { let m: [&[&str]; 3] = [&["a"], &[], &["ab"]]; sylvia::utils::assert_no_intersection(m) };
const _: () = { let m: [&[&str]; 3] = [&["a"], &[], &["a", "aa"]]; sylvia::utils::assert_no_intersection(m) }; //~ ERROR
const _: () = { let m: [&[&str]; 3] = [&["a"], &[], &["a", "ab"]]; sylvia::utils::assert_no_intersection(m) }; //~ ERROR
const _: () = { let m: [&[&str]; 3] = [&["a"], &[], &["aa", "ab"]]; sylvia::utils::assert_no_intersection(m) };
const _: () = { let m: [&[&str]; 3] = [&["a"], &["a"], &[]]; sylvia::utils::assert_no_intersection(m) }; //~ ERROR
const _: () = { let m: [&[&str]; 3] = [&["a"], &["a"], &["a"]]; sylvia::utils::assert_no_intersection(m) }; //~ ERROR
const _: () = { let m: [&[&str]; 3] = [&["a"], &["a"], &["aa"]]; sylvia::utils::assert_no_intersection(m) }; //~ ERROR
const _: () = { let m: [&[&str]; 3] = [&["a"], &["a"], &["ab"]]; sylvia::utils::assert_no_intersection(m) }; //~ ERROR
const _: () = { let m: [&[&str]; 3] = [&["a"], &["a"], &["a", "aa"]]; sylvia::utils::assert_no_intersection(m) }; //~ ERROR
const _: () = { let m: [&[&str]; 3] = [&["a"], &["a"], &["a", "ab"]]; sylvia::utils::assert_no_intersection(m) }; //~ ERROR
const _: () = { let m: [&[&str]; 3] = [&["a"], &["a"], &["aa", "ab"]]; sylvia::utils::assert_no_intersection(m) }; //~ ERROR
const _: () = { let m: [&[&str]; 3] = [&["a"], &["aa"], &[]]; sylvia::utils::assert_no_intersection(m) };
const _: () = { let m: [&[&str]; 3] = [&["a"], &["aa"], &["a"]]; sylvia::utils::assert_no_intersection(m) }; //~ ERROR
const _: () = { let m: [&[&str]; 3] = [&["a"], &["aa"], &["aa"]]; sylvia::utils::assert_no_intersection(m) }; //~ ERROR
const _: () = { let m: [&[&str]; 3] = [&["a"], &["aa"], &["ab"]]; sylvia::utils::assert_no_intersection(m) };
const _: () = { let m: [&[&str]; 3] = [&["a"], &["aa"], &["a", "aa"]]; sylvia::utils::assert_no_intersection(m) }; //~ ERROR
const _: () = { let m: [&[&str]; 3] = [&["a"], &["aa"], &["a", "ab"]]; sylvia::utils::assert_no_intersection(m) }; //~ ERROR
const _: () = { let m: [&[&str]; 3] = [&["a"], &["aa"], &["aa", "ab"]]; sylvia::utils::assert_no_intersection(m) }; //~ ERROR
const _: () = { let m: [&[&str]; 3] = [&["a"], &["ab"], &[]]; sylvia::utils::assert_no_intersection(m) };
const _: () = { let m: [&[&str]; 3] = [&["a"], &["ab"], &["a"]]; sylvia::utils::assert_no_intersection(m) }; //~ ERROR
const _: () = { let m: [&[&str]; 3] = [&["a"], &["ab"], &["aa"]]; sylvia::utils::assert_no_intersection(m) };
const _: () = { let m: [&[&str]; 3] = [&["a"], &["ab"], &["ab"]]; sylvia::utils::assert_no_intersection(m) }; //~ ERROR
const _: () = { let m: [&[&str]; 3] = [&["a"], &["ab"], &["a", "aa"]]; sylvia::utils::assert_no_intersection(m) }; //~ ERROR
const _: () = { let m: [&[&str]; 3] = [&["a"], &["ab"], &["a", "ab"]]; sylvia::utils::assert_no_intersection(m) }; //~ ERROR
const _: () = { let m: [&[&str]; 3] = [&["a"], &["ab"], &["aa", "ab"]]; sylvia::utils::assert_no_intersection(m) }; //~ ERROR
const _: () = { let m: [&[&str]; 3] = [&["a"], &["a", "aa"], &[]]; sylvia::utils::assert_no_intersection(m) }; //~ ERROR
const _: () = { let m: [&[&str]; 3] = [&["a"], &["a", "aa"], &["a"]]; sylvia::utils::assert_no_intersection(m) }; //~ ERROR
const _: () = { let m: [&[&str]; 3] = [&["a"], &["a", "aa"], &["aa"]]; sylvia::utils::assert_no_intersection(m) }; //~ ERROR
const _: () = { let m: [&[&str]; 3] = [&["a"], &["a", "aa"], &["ab"]]; sylvia::utils::assert_no_intersection(m) }; //~ ERROR
const _: () = { let m: [&[&str]; 3] = [&["a"], &["a", "aa"], &["a", "aa"]]; sylvia::utils::assert_no_intersection(m) }; //~ ERROR
const _: () = { let m: [&[&str]; 3] = [&["a"], &["a", "aa"], &["a", "ab"]]; sylvia::utils::assert_no_intersection(m) }; //~ ERROR
const _: () = { let m: [&[&str]; 3] = [&["a"], &["a", "aa"], &["aa", "ab"]]; sylvia::utils::assert_no_intersection(m) }; //~ ERROR
const _: () = { let m: [&[&str]; 3] = [&["a"], &["a", "ab"], &[]]; sylvia::utils::assert_no_intersection(m) }; //~ ERROR
const _: () = { let m: [&[&str]; 3] = [&["a"], &["a", "ab"], &["a"]]; sylvia::utils::assert_no_intersection(m) }; //~ ERROR
const _: () = { let m: [&[&str]; 3] = [&["a"], &["a", "ab"], &["aa"]]; sylvia::utils::assert_no_intersection(m) }; //~ ERROR
const _: () = { let m: [&[&str]; 3] = [&["a"], &["a", "ab"], &["ab"]]; sylvia::utils::assert_no_intersection(m) }; //~ ERROR
const _: () = { let m: [&[&str]; 3] = [&["a"], &["a", "ab"], &["a", "aa"]]; sylvia::utils::assert_no_intersection(m) }; //~ ERROR
const _: () = { let m: [&[&str]; 3] = [&["a"], &["a", "ab"], &["a", "ab"]]; sylvia::utils::assert_no_intersection(m) }; //~ ERROR
const _: () = { let m: [&[&str]; 3] = [&["a"], &["a", "ab"], &["aa", "ab"]]; sylvia::utils::assert_no_intersection(m) }; //~ ERROR
const _: () = { let m: [&[&str]; 3] = [&["a"], &["aa", "ab"], &[]]; sylvia::utils::assert_no_intersection(m) };
const _: () = { let m: [&[&str]; 3] = [&["a"], &["aa", "ab"], &["a"]]; sylvia::utils::assert_no_intersection(m) }; //~ ERROR
const _: () = { let m: [&[&str]; 3] = [&["a"], &["aa", "ab"], &["aa"]]; sylvia::utils::assert_no_intersection(m) }; //~ ERROR
const _: () = { let m: [&[&str]; 3] = [&["a"], &["aa", "ab"], &["ab"]]; sylvia::utils::assert_no_intersection(m) }; //~ ERROR
const _: () = { let m: [&[&str]; 3] = [&["a"], &["aa", "ab"], &["a", "aa"]]; sylvia::utils::assert_no_intersection(m) }; //~ ERROR
const _: () = { let m: [&[&str]; 3] = [&["a"], &["aa", "ab"], &["a", "ab"]]; sylvia::utils::assert_no_intersection(m) }; //~ ERROR
const _: () = { let m: [&[&str]; 3] = [&["a"], &["aa", "ab"], &["aa", "ab"]]; sylvia::utils::assert_no_intersection(m) }; //~ ERROR
const _: () = { let m: [&[&str]; 3] = [&["aa"], &[], &[]]; sylvia::utils::assert_no_intersection(m) };
const _: () = { let m: [&[&str]; 3] = [&["aa"], &[], &["a"]]; sylvia::utils::assert_no_intersection(m) };
const _: () = { let m: [&[&str]; 3] = [&["aa"], &[], &["aa"]]; sylvia::utils::assert_no_intersection(m) }; //~ ERROR
const _: () = { let m: [&[&str]; 3] = [&["aa"], &[], &["ab"]]; sylvia::utils::assert_no_intersection(m) };
const _: () = { let m: [&[&str]; 3] = [&["aa"], &[], &["a", "aa"]]; sylvia::utils::assert_no_intersection(m) }; //~ ERROR
const _: () = { let m: [&[&str]; 3] = [&["aa"], &[], &["a", "ab"]]; sylvia::utils::assert_no_intersection(m) };
const _: () = { let m: [&[&str]; 3] = [&["aa"], &[], &["aa", "ab"]]; sylvia::utils::assert_no_intersection(m) }; //~ ERROR
const _: () = { let m: [&[&str]; 3] = [&["aa"], &["a"], &[]]; sylvia::utils::assert_no_intersection(m) };
const _: () = { let m: [&[&str]; 3] = [&["aa"], &["a"], &["a"]]; sylvia::utils::assert_no_intersection(m) }; //~ ERROR
const _: () = { let m: [&[&str]; 3] = [&["aa"], &["a"], &["aa"]]; sylvia::utils::assert_no_intersection(m) }; //~ ERROR
const _: () = { let m: [&[&str]; 3] = [&["aa"], &["a"], &["ab"]]; sylvia::utils::assert_no_intersection(m) };
const _: () = { let m: [&[&str]; 3] = [&["aa"], &["a"], &["a", "aa"]]; sylvia::utils::assert_no_intersection(m) }; //~ ERROR
const _: () = { let m: [&[&str]; 3] = [&["aa"], &["a"], &["a", "ab"]]; sylvia::utils::assert_no_intersection(m) }; //~ ERROR
const _: () = { let m: [&[&str]; 3] = [&["aa"], &["a"], &["aa", "ab"]]; sylvia::utils::assert_no_intersection(m) }; //~ ERROR
const _: () = { let m: [&[&str]; 3] = [&["aa"], &["aa"], &[]]; sylvia::utils::assert_no_intersection(m) }; //~ ERROR
const _: () = { let m: [&[&str]; 3] = [&["aa"], &["aa"], &["a"]]; sylvia::utils::assert_no_intersection(m) }; //~ ERROR
const _: () = { let m: [&[&str]; 3] = [&["aa"], &["aa"], &["aa"]]; sylvia::utils::assert_no_intersection(m) }; //~ ERROR
const _: () = { let m: [&[&str]; 3] = [&["aa"], &["aa"], &["ab"]]; sylvia::utils::assert_no_intersection(m) }; //~ ERROR
const _: () = { let m: [&[&str]; 3] = [&["aa"], &["aa"], &["a", "aa"]]; sylvia::utils::assert_no_intersection(m) }; //~ ERROR
const _: () = { let m: [&[&str]; 3] = [&["aa"], &["aa"], &["a", "ab"]]; sylvia::utils::assert_no_intersection(m) }; //~ ERROR
const _: () = { let m: [&[&str]; 3] = [&["aa"], &["aa"], &["aa", "ab"]]; sylvia::utils::assert_no_intersection(m) }; //~ ERROR
const _: () = { let m: [&[&str]; 3] = [&["aa"], &["ab"], &[]]; sylvia::utils::assert_no_intersection(m) };
const _: () = { let m: [&[&str]; 3] = [&["aa"], &["ab"], &["a"]]; sylvia::utils::assert_no_intersection(m) };
const _: () = { let m: [&[&str]; 3] = [&["aa"], &["ab"], &["aa"]]; sylvia::utils::assert_no_intersection(m) }; //~ ERROR
const _: () = { let m: [&[&str]; 3] = [&["aa"], &["ab"], &["ab"]]; sylvia::utils::assert_no_intersection(m) }; //~ ERROR
const _: () = { let m: [&[&str]; 3] = [&["aa"], &["ab"], &["a", "aa"]]; sylvia::utils::assert_no_intersection(m) }; //~ ERROR
const _: () = { let m: [&[&str]; 3] = [&["aa"], &["ab"], &["a", "ab"]]; sylvia::utils::assert_no_intersection(m) }; //~ ERROR
const _: () = { let m: [&[&str]; 3] = [&["aa"], &["ab"], &["aa", "ab"]]; sylvia::utils::assert_no_intersection(m) }; //~ ERROR
const _: () = { let m: [&[&str]; 3] = [&["aa"], &["a", "aa"], &[]]; sylvia::utils::assert_no_intersection(m) }; //~ ERROR
const _: () = { let m: [&[&str]; 3] = [&["aa"], &["a", "aa"], &["a"]]; sylvia::utils::assert_no_intersection(m) }; //~ ERROR
const _: () = { let m: [&[&str]; 3] = [&["aa"], &["a", "aa"], &["aa"]]; sylvia::utils::assert_no_intersection(m) }; //~ ERROR
const _: () = { let m: [&[&str]; 3] = [&["aa"], &["a", "aa"], &["ab"]]; sylvia::utils::assert_no_intersection(m) }; //~ ERROR
const _: () = { let m: [&[&str]; 3] = [&["aa"], &["a", "aa"], &["a", "aa"]]; sylvia::utils::assert_no_intersection(m) }; //~ ERROR
const _: () = { let m: [&[&str]; 3] = [&["aa"], &["a", "aa"], &["a", "ab"]]; sylvia::utils::assert_no_intersection(m) }; //~ ERROR
const _: () = { let m: [&[&str]; 3] = [&["aa"], &["a", "aa"], &["aa", "ab"]]; sylvia::utils::assert_no_intersection(m) }; //~ ERROR
const _: () = { let m: [&[&str]; 3] = [&["aa"], &["a", "ab"], &[]]; sylvia::utils::assert_no_intersection(m) };
const _: () = { let m: [&[&str]; 3] = [&["aa"], &["a", "ab"], &["a"]]; sylvia::utils::assert_no_intersection(m) }; //~ ERROR
const _: () = { let m: [&[&str]; 3] = [&["aa"], &["a", "ab"], &["aa"]]; sylvia::utils::assert_no_intersection(m) }; //~ ERROR
const _: () = { let m: [&[&str]; 3] = [&["aa"], &["a", "ab"], &["ab"]]; sylvia::utils::assert_no_intersection(m) }; //~ ERROR
const _: () = { let m: [&[&str]; 3] = [&["aa"], &["a", "ab"], &["a", "aa"]]; sylvia::utils::assert_no_intersection(m) }; //~ ERROR
const _: () = { let m: [&[&str]; 3] = [&["aa"], &["a", "ab"], &["a", "ab"]]; sylvia::utils::assert_no_intersection(m) }; //~ ERROR
const _: () = { let m: [&[&str]; 3] = [&["aa"], &["a", "ab"], &["aa", "ab"]]; sylvia::utils::assert_no_intersection(m) }; //~ ERROR
const _: () = { let m: [&[&str]; 3] = [&["aa"], &["aa", "ab"], &[]]; sylvia::utils::assert_no_intersection(m) }; //~ ERROR
const _: () = { let m: [&[&str]; 3] = [&["aa"], &["aa", "ab"], &["a"]]; sylvia::utils::assert_no_intersection(m) }; //~ ERROR
const _: () = { let m: [&[&str]; 3] = [&["aa"], &["aa", "ab"], &["aa"]]; sylvia::utils::assert_no_intersection(m) }; //~ ERROR
const _: () = { let m: [&[&str]; 3] = [&["aa"], &["aa", "ab"], &["ab"]]; sylvia::utils::assert_no_intersection(m) }; //~ ERROR
const _: () = { let m: [&[&str]; 3] = [&["aa"], &["aa", "ab"], &["a", "aa"]]; sylvia::utils::assert_no_intersection(m) }; //~ ERROR
const _: () = { let m: [&[&str]; 3] = [&["aa"], &["aa", "ab"], &["a", "ab"]]; sylvia::utils::assert_no_intersection(m) }; //~ ERROR
const _: () = { let m: [&[&str]; 3] = [&["aa"], &["aa", "ab"], &["aa", "ab"]]; sylvia::utils::assert_no_intersection(m) }; //~ ERROR
const _: () = { let m: [&[&str]; 3] = [&["ab"], &[], &[]]; sylvia::utils::assert_no_intersection(m) };
const _: () = { let m: [&[&str]; 3] = [&["ab"], &[], &["a"]]; sylvia::utils::assert_no_intersection(m) };
const _: () = { let m: [&[&str]; 3] = [&["ab"], &[], &["aa"]]; sylvia::utils::assert_no_intersection(m) };
const _: () = { let m: [&[&str]; 3] = [&["ab"], &[], &["ab"]]; sylvia::utils::assert_no_intersection(m) }; //~ ERROR
const _: () = { let m: [&[&str]; 3] = [&["ab"], &[], &["a", "aa"]]; sylvia::utils::assert_no_intersection(m) };
const _: () = { let m: [&[&str]; 3] = [&["ab"], &[], &["a", "ab"]]; sylvia::utils::assert_no_intersection(m) }; //~ ERROR
const _: () = { let m: [&[&str]; 3] = [&["ab"], &[], &["aa", "ab"]]; sylvia::utils::assert_no_intersection(m) }; //~ ERROR
const _: () = { let m: [&[&str]; 3] = [&["ab"], &["a"], &[]]; sylvia::utils::assert_no_intersection(m) };
const _: () = { let m: [&[&str]; 3] = [&["ab"], &["a"], &["a"]]; sylvia::utils::assert_no_intersection(m) }; //~ ERROR
const _: () = { let m: [&[&str]; 3] = [&["ab"], &["a"], &["aa"]]; sylvia::utils::assert_no_intersection(m) };
const _: () = { let m: [&[&str]; 3] = [&["ab"], &["a"], &["ab"]]; sylvia::utils::assert_no_intersection(m) }; //~ ERROR
const _: () = { let m: [&[&str]; 3] = [&["ab"], &["a"], &["a", "aa"]]; sylvia::utils::assert_no_intersection(m) }; //~ ERROR
const _: () = { let m: [&[&str]; 3] = [&["ab"], &["a"], &["a", "ab"]]; sylvia::utils::assert_no_intersection(m) }; //~ ERROR
const _: () = { let m: [&[&str]; 3] = [&["ab"], &["a"], &["aa", "ab"]]; sylvia::utils::assert_no_intersection(m) }; //~ ERROR
const _: () = { let m: [&[&str]; 3] = [&["ab"], &["aa"], &[]]; sylvia::utils::assert_no_intersection(m) };
const _: () = { let m: [&[&str]; 3] = [&["ab"], &["aa"], &["a"]]; sylvia::utils::assert_no_intersection(m) };
const _: () = { let m: [&[&str]; 3] = [&["ab"], &["aa"], &["aa"]]; sylvia::utils::assert_no_intersection(m) }; //~ ERROR
const _: () = { let m: [&[&str]; 3] = [&["ab"], &["aa"], &["ab"]]; sylvia::utils::assert_no_intersection(m) }; //~ ERROR
const _: () = { let m: [&[&str]; 3] = [&["ab"], &["aa"], &["a", "aa"]]; sylvia::utils::assert_no_intersection(m) }; //~ ERROR
const _: () = { let m: [&[&str]; 3] = [&["ab"], &["aa"], &["a", "ab"]]; sylvia::utils::assert_no_intersection(m) }; //~ ERROR
const _: () = { let m: [&[&str]; 3] = [&["ab"], &["aa"], &["aa", "ab"]]; sylvia::utils::assert_no_intersection(m) }; //~ ERROR
const _: () = { let m: [&[&str]; 3] = [&["ab"], &["ab"], &[]]; sylvia::utils::assert_no_intersection(m) }; //~ ERROR
const _: () = { let m: [&[&str]; 3] = [&["ab"], &["ab"], &["a"]]; sylvia::utils::assert_no_intersection(m) }; //~ ERROR
const _: () = { let m: [&[&str]; 3] = [&["ab"], &["ab"], &["aa"]]; sylvia::utils::assert_no_intersection(m) }; //~ ERROR
const _: () = { let m: [&[&str]; 3] = [&["ab"], &["ab"], &["ab"]]; sylvia::utils::assert_no_intersection(m) }; //~ ERROR
const _: () = { let m: [&[&str]; 3] = [&["ab"], &["ab"], &["a", "aa"]]; sylvia::utils::assert_no_intersection(m) }; //~ ERROR
const _: () = { let m: [&[&str]; 3] = [&["ab"], &["ab"], &["a", "ab"]]; sylvia::utils::assert_no_intersection(m) }; //~ ERROR
const _: () = { let m: [&[&str]; 3] = [&["ab"], &["ab"], &["aa", "ab"]]; sylvia::utils::assert_no_intersection(m) }; //~ ERROR
const _: () = { let m: [&[&str]; 3] = [&["ab"], &["a", "aa"], &[]]; sylvia::utils::assert_no_intersection(m) };
const _: () = { let m: [&[&str]; 3] = [&["ab"], &["a", "aa"], &["a"]]; sylvia::utils::assert_no_intersection(m) }; //~ ERROR
const _: () = { let m: [&[&str]; 3] = [&["ab"], &["a", "aa"], &["aa"]]; sylvia::utils::assert_no_intersection(m) }; //~ ERROR
const _: () = { let m: [&[&str]; 3] = [&["ab"], &["a", "aa"], &["ab"]]; sylvia::utils::assert_no_intersection(m) }; //~ ERROR
const _: () = { let m: [&[&str]; 3] = [&["ab"], &["a", "aa"], &["a", "aa"]]; sylvia::utils::assert_no_intersection(m) }; //~ ERROR
const _: () = { let m: [&[&str]; 3] = [&["ab"], &["a", "aa"], &["a", "ab"]]; sylvia::utils::assert_no_intersection(m) }; //~ ERROR
const _: () = { let m: [&[&str]; 3] = [&["ab"], &["a", "aa"], &["aa", "ab"]]; sylvia::utils::assert_no_intersection(m) }; //~ ERROR
const _: () = { let m: [&[&str]; 3] = [&["ab"], &["a", "ab"], &[]]; sylvia::utils::assert_no_intersection(m) }; //~ ERROR
const _: () = { let m: [&[&str]; 3] = [&["ab"], &["a", "ab"], &["a"]]; sylvia::utils::assert_no_intersection(m) }; //~ ERROR
const _: () = { let m: [&[&str]; 3] = [&["ab"], &["a", "ab"], &["aa"]]; sylvia::utils::assert_no_intersection(m) }; //~ ERROR
const _: () = { let m: [&[&str]; 3] = [&["ab"], &["a", "ab"], &["ab"]]; sylvia::utils::assert_no_intersection(m) }; //~ ERROR
const _: () = { let m: [&[&str]; 3] = [&["ab"], &["a", "ab"], &["a", "aa"]]; sylvia::utils::assert_no_intersection(m) }; //~ ERROR
const _: () = { let m: [&[&str]; 3] = [&["ab"], &["a", "ab"], &["a", "ab"]]; sylvia::utils::assert_no_intersection(m) }; //~ ERROR
const _: () = { let m: [&[&str]; 3] = [&["ab"], &["a", "ab"], &["aa", "ab"]]; sylvia::utils::assert_no_intersection(m) }; //~ ERROR
const _: () = { let m: [&[&str]; 3] = [&["ab"], &["aa", "ab"], &[]]; sylvia::utils::assert_no_intersection(m) }; //~ ERROR
const _: () = { let m: [&[&str]; 3] = [&["ab"], &["aa", "ab"], &["a"]]; sylvia::utils::assert_no_intersection(m) }; //~ ERROR
const _: () = { let m: [&[&str]; 3] = [&["ab"], &["aa", "ab"], &["aa"]]; sylvia::utils::assert_no_intersection(m) }; //~ ERROR
const _: () = { let m: [&[&str]; 3] = [&["ab"], &["aa", "ab"], &["ab"]]; sylvia::utils::assert_no_intersection(m) }; //~ ERROR
const _: () = { let m: [&[&str]; 3] = [&["ab"], &["aa", "ab"], &["a", "aa"]]; sylvia::utils::assert_no_intersection(m) }; //~ ERROR
const _: () = { let m: [&[&str]; 3] = [&["ab"], &["aa", "ab"], &["a", "ab"]]; sylvia::utils::assert_no_intersection(m) }; //~ ERROR
const _: () = { let m: [&[&str]; 3] = [&["ab"], &["aa", "ab"], &["aa", "ab"]]; sylvia::utils::assert_no_intersection(m) }; //~ ERROR
const _: () = { let m: [&[&str]; 3] = [&["a", "aa"], &[], &[]]; sylvia::utils::assert_no_intersection(m) };
const _: () = { let m: [&[&str]; 3] = [&["a", "aa"], &[], &["a"]]; sylvia::utils::assert_no_intersection(m) }; //~ ERROR
const _: () = { let m: [&[&str]; 3] = [&["a", "aa"], &[], &["aa"]]; sylvia::utils::assert_no_intersection(m) }; //~ ERROR
const _: () = { let m: [&[&str]; 3] = [&["a", "aa"], &[], &["ab"]]; sylvia::utils::assert_no_intersection(m) };
const _: () = { let m: [&[&str]; 3] = [&["a", "aa"], &[], &["a", "aa"]]; sylvia::utils::assert_no_intersection(m) }; //~ ERROR
const _: () = { let m: [&[&str]; 3] = [&["a", "aa"], &[], &["a", "ab"]]; sylvia::utils::assert_no_intersection(m) }; //~ ERROR
const _: () = { let m: [&[&str]; 3] = [&["a", "aa"], &[], &["aa", "ab"]]; sylvia::utils::assert_no_intersection(m) }; //~ ERROR
const _: () = { let m: [&[&str]; 3] = [&["a", "aa"], &["a"], &[]]; sylvia::utils::assert_no_intersection(m) }; //~ ERROR
const _: () = { let m: [&[&str]; 3] = [&["a", "aa"], &["a"], &["a"]]; sylvia::utils::assert_no_intersection(m) }; //~ ERROR
const _: () = { let m: [&[&str]; 3] = [&["a", "aa"], &["a"], &["aa"]]; sylvia::utils::assert_no_intersection(m) }; //~ ERROR
const _: () = { let m: [&[&str]; 3] = [&["a", "aa"], &["a"], &["ab"]]; sylvia::utils::assert_no_intersection(m) }; //~ ERROR
const _: () = { let m: [&[&str]; 3] = [&["a", "aa"], &["a"], &["a", "aa"]]; sylvia::utils::assert_no_intersection(m) }; //~ ERROR
const _: () = { let m: [&[&str]; 3] = [&["a", "aa"], &["a"], &["a", "ab"]]; sylvia::utils::assert_no_intersection(m) }; //~ ERROR
const _: () = { let m: [&[&str]; 3] = [&["a", "aa"], &["a"], &["aa", "ab"]]; sylvia::utils::assert_no_intersection(m) }; //~ ERROR
const _: () = { let m: [&[&str]; 3] = [&["a", "aa"], &["aa"], &[]]; sylvia::utils::assert_no_intersection(m) }; //~ ERROR
const _: () = { let m: [&[&str]; 3] = [&["a", "aa"], &["aa"], &["a"]]; sylvia::utils::assert_no_intersection(m) }; //~ ERROR
const _: () = { let m: [&[&str]; 3] = [&["a", "aa"], &["aa"], &["aa"]]; sylvia::utils::assert_no_intersection(m) }; //~ ERROR
const _: () = { let m: [&[&str]; 3] = [&["a", "aa"], &["aa"], &["ab"]]; sylvia::utils::assert_no_intersection(m) }; //~ ERROR
const _: () = { let m: [&[&str]; 3] = [&["a", "aa"], &["aa"], &["a", "aa"]]; sylvia::utils::assert_no_intersection(m) }; //~ ERROR
const _: () = { let m: [&[&str]; 3] = [&["a", "aa"], &["aa"], &["a", "ab"]]; sylvia::utils::assert_no_intersection(m) }; //~ ERROR
const _: () = { let m: [&[&str]; 3] = [&["a", "aa"], &["aa"], &["aa", "ab"]]; sylvia::utils::assert_no_intersection(m) }; //~ ERROR
const _: () = { let m: [&[&str]; 3] = [&["a", "aa"], &["ab"], &[]]; sylvia::utils::assert_no_intersection(m) };
const _: () = { let m: [&[&str]; 3] = [&["a", "aa"], &["ab"], &["a"]]; sylvia::utils::assert_no_intersection(m) }; //~ ERROR
const _: () = { let m: [&[&str]; 3] = [&["a", "aa"], &["ab"], &["aa"]]; sylvia::utils::assert_no_intersection(m) }; //~ ERROR
const _: () = { let m: [&[&str]; 3] = [&["a", "aa"], &["ab"], &["ab"]]; sylvia::utils::assert_no_intersection(m) }; //~ ERROR
const _: () = { let m: [&[&str]; 3] = [&["a", "aa"], &["ab"], &["a", "aa"]]; sylvia::utils::assert_no_intersection(m) }; //~ ERROR
const _: () = { let m: [&[&str]; 3] = [&["a", "aa"], &["ab"], &["a", "ab"]]; sylvia::utils::assert_no_intersection(m) }; //~ ERROR
const _: () = { let m: [&[&str]; 3] = [&["a", "aa"], &["ab"], &["aa", "ab"]]; sylvia::utils::assert_no_intersection(m) }; //~ ERROR
const _: () = { let m: [&[&str]; 3] = [&["a", "aa"], &["a", "aa"], &[]]; sylvia::utils::assert_no_intersection(m) }; //~ ERROR
const _: () = { let m: [&[&str]; 3] = [&["a", "aa"], &["a", "aa"], &["a"]]; sylvia::utils::assert_no_intersection(m) }; //~ ERROR
const _: () = { let m: [&[&str]; 3] = [&["a", "aa"], &["a", "aa"], &["aa"]]; sylvia::utils::assert_no_intersection(m) }; //~ ERROR
const _: () = { let m: [&[&str]; 3] = [&["a", "aa"], &["a", "aa"], &["ab"]]; sylvia::utils::assert_no_intersection(m) }; //~ ERROR
const _: () = { let m: [&[&str]; 3] = [&["a", "aa"], &["a", "aa"], &["a", "aa"]]; sylvia::utils::assert_no_intersection(m) }; //~ ERROR
const _: () = { let m: [&[&str]; 3] = [&["a", "aa"], &["a", "aa"], &["a", "ab"]]; sylvia::utils::assert_no_intersection(m) }; //~ ERROR
const _: () = { let m: [&[&str]; 3] = [&["a", "aa"], &["a", "aa"], &["aa", "ab"]]; sylvia::utils::assert_no_intersection(m) }; //~ ERROR
const _: () = { let m: [&[&str]; 3] = [&["a", "aa"], &["a", "ab"], &[]]; sylvia::utils::assert_no_intersection(m) }; //~ ERROR
const _: () = { let m: [&[&str]; 3] = [&["a", "aa"], &["a", "ab"], &["a"]]; sylvia::utils::assert_no_intersection(m) }; //~ ERROR
const _: () = { let m: [&[&str]; 3] = [&["a", "aa"], &["a", "ab"], &["aa"]]; sylvia::utils::assert_no_intersection(m) }; //~ ERROR
const _: () = { let m: [&[&str]; 3] = [&["a", "aa"], &["a", "ab"], &["ab"]]; sylvia::utils::assert_no_intersection(m) }; //~ ERROR
const _: () = { let m: [&[&str]; 3] = [&["a", "aa"], &["a", "ab"], &["a", "aa"]]; sylvia::utils::assert_no_intersection(m) }; //~ ERROR
const _: () = { let m: [&[&str]; 3] = [&["a", "aa"], &["a", "ab"], &["a", "ab"]]; sylvia::utils::assert_no_intersection(m) }; //~ ERROR
const _: () = { let m: [&[&str]; 3] = [&["a", "aa"], &["a", "ab"], &["aa", "ab"]]; sylvia::utils::assert_no_intersection(m) }; //~ ERROR
const _: () = { let m: [&[&str]; 3] = [&["a", "aa"], &["aa", "ab"], &[]]; sylvia::utils::assert_no_intersection(m) }; //~ ERROR
const _: () = { let m: [&[&str]; 3] = [&["a", "aa"], &["aa", "ab"], &["a"]]; sylvia::utils::assert_no_intersection(m) }; //~ ERROR
const _: () = { let m: [&[&str]; 3] = [&["a", "aa"], &["aa", "ab"], &["aa"]]; sylvia::utils::assert_no_intersection(m) }; //~ ERROR
const _: () = { let m: [&[&str]; 3] = [&["a", "aa"], &["aa", "ab"], &["ab"]]; sylvia::utils::assert_no_intersection(m) }; //~ ERROR
const _: () = { let m: [&[&str]; 3] = [&["a", "aa"], &["aa", "ab"], &["a", "aa"]]; sylvia::utils::assert_no_intersection(m) }; //~ ERROR
const _: () = { let m: [&[&str]; 3] = [&["a", "aa"], &["aa", "ab"], &["a", "ab"]]; sylvia::utils::assert_no_intersection(m) }; //~ ERROR
const _: () = { let m: [&[&str]; 3] = [&["a", "aa"], &["aa", "ab"], &["aa", "ab"]]; sylvia::utils::assert_no_intersection(m) }; //~ ERROR
const _: () = { let m: [&[&str]; 3] = [&["a", "ab"], &[], &[]]; sylvia::utils::assert_no_intersection(m) };
const _: () = { let m: [&[&str]; 3] = [&["a", "ab"], &[], &["a"]]; sylvia::utils::assert_no_intersection(m) }; //~ ERROR
const _: () = { let m: [&[&str]; 3] = [&["a", "ab"], &[], &["aa"]]; sylvia::utils::assert_no_intersection(m) };
const _: () = { let m: [&[&str]; 3] = [&["a", "ab"], &[], &["ab"]]; sylvia::utils::assert_no_intersection(m) }; //~ ERROR
const _: () = { let m: [&[&str]; 3] = [&["a", "ab"], &[], &["a", "aa"]]; sylvia::utils::assert_no_intersection(m) }; //~ ERROR
const _: () = { let m: [&[&str]; 3] = [&["a", "ab"], &[], &["a", "ab"]]; sylvia::utils::assert_no_intersection(m) }; //~ ERROR
const _: () = { let m: [&[&str]; 3] = [&["a", "ab"], &[], &["aa", "ab"]]; sylvia::utils::assert_no_intersection(m) }; //~ ERROR
const _: () = { let m: [&[&str]; 3] = [&["a", "ab"], &["a"], &[]]; sylvia::utils::assert_no_intersection(m) }; //~ ERROR
const _: () = { let m: [&[&str]; 3] = [&["a", "ab"], &["a"], &["a"]]; sylvia::utils::assert_no_intersection(m) }; //~ ERROR
const _: () = { let m: [&[&str]; 3] = [&["a", "ab"], &["a"], &["aa"]]; sylvia::utils::assert_no_intersection(m) }; //~ ERROR
const _: () = { let m: [&[&str]; 3] = [&["a", "ab"], &["a"], &["ab"]]; sylvia::utils::assert_no_intersection(m) }; //~ ERROR
const _: () = { let m: [&[&str]; 3] = [&["a", "ab"], &["a"], &["a", "aa"]]; sylvia::utils::assert_no_intersection(m) }; //~ ERROR
const _: () = { let m: [&[&str]; 3] = [&["a", "ab"], &["a"], &["a", "ab"]]; sylvia::utils::assert_no_intersection(m) }; //~ ERROR
const _: () = { let m: [&[&str]; 3] = [&["a", "ab"], &["a"], &["aa", "ab"]]; sylvia::utils::assert_no_intersection(m) }; //~ ERROR
const _: () = { let m: [&[&str]; 3] = [&["a", "ab"], &["aa"], &[]]; sylvia::utils::assert_no_intersection(m) };
const _: () = { let m: [&[&str]; 3] = [&["a", "ab"], &["aa"], &["a"]]; sylvia::utils::assert_no_intersection(m) }; //~ ERROR
const _: () = { let m: [&[&str]; 3] = [&["a", "ab"], &["aa"], &["aa"]]; sylvia::utils::assert_no_intersection(m) }; //~ ERROR
const _: () = { let m: [&[&str]; 3] = [&["a", "ab"], &["aa"], &["ab"]]; sylvia::utils::assert_no_intersection(m) }; //~ ERROR
const _: () = { let m: [&[&str]; 3] = [&["a", "ab"], &["aa"], &["a", "aa"]]; sylvia::utils::assert_no_intersection(m) }; //~ ERROR
const _: () = { let m: [&[&str]; 3] = [&["a", "ab"], &["aa"], &["a", "ab"]]; sylvia::utils::assert_no_intersection(m) }; //~ ERROR
const _: () = { let m: [&[&str]; 3] = [&["a", "ab"], &["aa"], &["aa", "ab"]]; sylvia::utils::assert_no_intersection(m) }; //~ ERROR
const _: () = { let m: [&[&str]; 3] = [&["a", "ab"], &["ab"], &[]]; sylvia::utils::assert_no_intersection(m) }; //~ ERROR
const _: () = { let m: [&[&str]; 3] = [&["a", "ab"], &["ab"], &["a"]]; sylvia::utils::assert_no_intersection(m) }; //~ ERROR
const _: () = { let m: [&[&str]; 3] = [&["a", "ab"], &["ab"], &["aa"]]; sylvia::utils::assert_no_intersection(m) }; //~ ERROR
const _: () = { let m: [&[&str]; 3] = [&["a", "ab"], &["ab"], &["ab"]]; sylvia::utils::assert_no_intersection(m) }; //~ ERROR
const _: () = { let m: [&[&str]; 3] = [&["a", "ab"], &["ab"], &["a", "aa"]]; sylvia::utils::assert_no_intersection(m) }; //~ ERROR
const _: () = { let m: [&[&str]; 3] = [&["a", "ab"], &["ab"], &["a", "ab"]]; sylvia::utils::assert_no_intersection(m) }; //~ ERROR
const _: () = { let m: [&[&str]; 3] = [&["a", "ab"], &["ab"], &["aa", "ab"]]; sylvia::utils::assert_no_intersection(m) }; //~ ERROR
const _: () = { let m: [&[&str]; 3] = [&["a", "ab"], &["a", "aa"], &[]]; sylvia::utils::assert_no_intersection(m) }; //~ ERROR
const _: () = { let m: [&[&str]; 3] = [&["a", "ab"], &["a", "aa"], &["a"]]; sylvia::utils::assert_no_intersection(m) }; //~ ERROR
const _: () = { let m: [&[&str]; 3] = [&["a", "ab"], &["a", "aa"], &["aa"]]; sylvia::utils::assert_no_intersection(m) }; //~ ERROR
const _: () = { let m: [&[&str]; 3] = [&["a", "ab"], &["a", "aa"], &["ab"]]; sylvia::utils::assert_no_intersection(m) }; //~ ERROR
const _: () = { let m: [&[&str]; 3] = [&["a", "ab"], &["a", "aa"], &["a", "aa"]]; sylvia::utils::assert_no_intersection(m) }; //~ ERROR
const _: () = { let m: [&[&str]; 3] = [&["a", "ab"], &["a", "aa"], &["a", "ab"]]; sylvia::utils::assert_no_intersection(m) }; //~ ERROR
const _: () = { let m: [&[&str]; 3] = [&["a", "ab"], &["a", "aa"], &["aa", "ab"]]; sylvia::utils::assert_no_intersection(m) }; //~ ERROR
const _: () = { let m: [&[&str]; 3] = [&["a", "ab"], &["a", "ab"], &[]]; sylvia::utils::assert_no_intersection(m) }; //~ ERROR
const _: () = { let m: [&[&str]; 3] = [&["a", "ab"], &["a", "ab"], &["a"]]; sylvia::utils::assert_no_intersection(m) }; //~ ERROR
const _: () = { let m: [&[&str]; 3] = [&["a", "ab"], &["a", "ab"], &["aa"]]; sylvia::utils::assert_no_intersection(m) }; //~ ERROR
const _: () = { let m: [&[&str]; 3] = [&["a", "ab"], &["a", "ab"], &["ab"]]; sylvia::utils::assert_no_intersection(m) }; //~ ERROR
const _: () = { let m: [&[&str]; 3] = [&["a", "ab"], &["a", "ab"], &["a", "aa"]]; sylvia::utils::assert_no_intersection(m) }; //~ ERROR
const _: () = { let m: [&[&str]; 3] = [&["a", "ab"], &["a", "ab"], &["a", "ab"]]; sylvia::utils::assert_no_intersection(m) }; //~ ERROR
const _: () = { let m: [&[&str]; 3] = [&["a", "ab"], &["a", "ab"], &["aa", "ab"]]; sylvia::utils::assert_no_intersection(m) }; //~ ERROR
const _: () = { let m: [&[&str]; 3] = [&["a", "ab"], &["aa", "ab"], &[]]; sylvia::utils::assert_no_intersection(m) }; //~ ERROR
const _: () = { let m: [&[&str]; 3] = [&["a", "ab"], &["aa", "ab"], &["a"]]; sylvia::utils::assert_no_intersection(m) }; //~ ERROR
const _: () = { let m: [&[&str]; 3] = [&["a", "ab"], &["aa", "ab"], &["aa"]]; sylvia::utils::assert_no_intersection(m) }; //~ ERROR
const _: () = { let m: [&[&str]; 3] = [&["a", "ab"], &["aa", "ab"], &["ab"]]; sylvia::utils::assert_no_intersection(m) }; //~ ERROR
const _: () = { let m: [&[&str]; 3] = [&["a", "ab"], &["aa", "ab"], &["a", "aa"]]; sylvia::utils::assert_no_intersection(m) }; //~ ERROR
const _: () = { let m: [&[&str]; 3] = [&["a", "ab"], &["aa", "ab"], &["a", "ab"]]; sylvia::utils::assert_no_intersection(m) }; //~ ERROR
const _: () = { let m: [&[&str]; 3] = [&["a", "ab"], &["aa", "ab"], &["aa", "ab"]]; sylvia::utils::assert_no_intersection(m) }; //~ ERROR
const _: () = { let m: [&[&str]; 3] = [&["aa", "ab"], &[], &[]]; sylvia::utils::assert_no_intersection(m) };
const _: () = { let m: [&[&str]; 3] = [&["aa", "ab"], &[], &["a"]]; sylvia::utils::assert_no_intersection(m) };
const _: () = { let m: [&[&str]; 3] = [&["aa", "ab"], &[], &["aa"]]; sylvia::utils::assert_no_intersection(m) }; //~ ERROR
const _: () = { let m: [&[&str]; 3] = [&["aa", "ab"], &[], &["ab"]]; sylvia::utils::assert_no_intersection(m) }; //~ ERROR
const _: () = { let m: [&[&str]; 3] = [&["aa", "ab"], &[], &["a", "aa"]]; sylvia::utils::assert_no_intersection(m) }; //~ ERROR
const _: () = { let m: [&[&str]; 3] = [&["aa", "ab"], &[], &["a", "ab"]]; sylvia::utils::assert_no_intersection(m) }; //~ ERROR
const _: () = { let m: [&[&str]; 3] = [&["aa", "ab"], &[], &["aa", "ab"]]; sylvia::utils::assert_no_intersection(m) }; //~ ERROR
const _: () = { let m: [&[&str]; 3] = [&["aa", "ab"], &["a"], &[]]; sylvia::utils::assert_no_intersection(m) };
const _: () = { let m: [&[&str]; 3] = [&["aa", "ab"], &["a"], &["a"]]; sylvia::utils::assert_no_intersection(m) }; //~ ERROR
const _: () = { let m: [&[&str]; 3] = [&["aa", "ab"], &["a"], &["aa"]]; sylvia::utils::assert_no_intersection(m) }; //~ ERROR
const _: () = { let m: [&[&str]; 3] = [&["aa", "ab"], &["a"], &["ab"]]; sylvia::utils::assert_no_intersection(m) }; //~ ERROR
const _: () = { let m: [&[&str]; 3] = [&["aa", "ab"], &["a"], &["a", "aa"]]; sylvia::utils::assert_no_intersection(m) }; //~ ERROR
const _: () = { let m: [&[&str]; 3] = [&["aa", "ab"], &["a"], &["a", "ab"]]; sylvia::utils::assert_no_intersection(m) }; //~ ERROR
const _: () = { let m: [&[&str]; 3] = [&["aa", "ab"], &["a"], &["aa", "ab"]]; sylvia::utils::assert_no_intersection(m) }; //~ ERROR
const _: () = { let m: [&[&str]; 3] = [&["aa", "ab"], &["aa"], &[]]; sylvia::utils::assert_no_intersection(m) }; //~ ERROR
const _: () = { let m: [&[&str]; 3] = [&["aa", "ab"], &["aa"], &["a"]]; sylvia::utils::assert_no_intersection(m) }; //~ ERROR
const _: () = { let m: [&[&str]; 3] = [&["aa", "ab"], &["aa"], &["aa"]]; sylvia::utils::assert_no_intersection(m) }; //~ ERROR
const _: () = { let m: [&[&str]; 3] = [&["aa", "ab"], &["aa"], &["ab"]]; sylvia::utils::assert_no_intersection(m) }; //~ ERROR
const _: () = { let m: [&[&str]; 3] = [&["aa", "ab"], &["aa"], &["a", "aa"]]; sylvia::utils::assert_no_intersection(m) }; //~ ERROR
const _: () = { let m: [&[&str]; 3] = [&["aa", "ab"], &["aa"], &["a", "ab"]]; sylvia::utils::assert_no_intersection(m) }; //~ ERROR
const _: () = { let m: [&[&str]; 3] = [&["aa", "ab"], &["aa"], &["aa", "ab"]]; sylvia::utils::assert_no_intersection(m) }; //~ ERROR
const _: () = { let m: [&[&str]; 3] = [&["aa", "ab"], &["ab"], &[]]; sylvia::utils::assert_no_intersection(m) }; //~ ERROR
const _: () = { let m: [&[&str]; 3] = [&["aa", "ab"], &["ab"], &["a"]]; sylvia::utils::assert_no_intersection(m) }; //~ ERROR
const _: () = { let m: [&[&str]; 3] = [&["aa", "ab"], &["ab"], &["aa"]]; sylvia::utils::assert_no_intersection(m) }; //~ ERROR
const _: () = { let m: [&[&str]; 3] = [&["aa", "ab"], &["ab"], &["ab"]]; sylvia::utils::assert_no_intersection(m) }; //~ ERROR
const _: () = { let m: [&[&str]; 3] = [&["aa", "ab"], &["ab"], &["a", "aa"]]; sylvia::utils::assert_no_intersection(m) }; //~ ERROR
const _: () = { let m: [&[&str]; 3] = [&["aa", "ab"], &["ab"], &["a", "ab"]]; sylvia::utils::assert_no_intersection(m) }; //~ ERROR
const _: () = { let m: [&[&str]; 3] = [&["aa", "ab"], &["ab"], &["aa", "ab"]]; sylvia::utils::assert_no_intersection(m) }; //~ ERROR
const _: () = { let m: [&[&str]; 3] = [&["aa", "ab"], &["a", "aa"], &[]]; sylvia::utils::assert_no_intersection(m) }; //~ ERROR
const _: () = { let m: [&[&str]; 3] = [&["aa", "ab"], &["a", "aa"], &["a"]]; sylvia::utils::assert_no_intersection(m) }; //~ ERROR
const _: () = { let m: [&[&str]; 3] = [&["aa", "ab"], &["a", "aa"], &["aa"]]; sylvia::utils::assert_no_intersection(m) }; //~ ERROR
const _: () = { let m: [&[&str]; 3] = [&["aa", "ab"], &["a", "aa"], &["ab"]]; sylvia::utils::assert_no_intersection(m) }; //~ ERROR
const _: () = { let m: [&[&str]; 3] = [&["aa", "ab"], &["a", "aa"], &["a", "aa"]]; sylvia::utils::assert_no_intersection(m) }; //~ ERROR
const _: () = { let m: [&[&str]; 3] = [&["aa", "ab"], &["a", "aa"], &["a", "ab"]]; sylvia::utils::assert_no_intersection(m) }; //~ ERROR
const _: () = { let m: [&[&str]; 3] = [&["aa", "ab"], &["a", "aa"], &["aa", "ab"]]; sylvia::utils::assert_no_intersection(m) }; //~ ERROR
const _: () = { let m: [&[&str]; 3] = [&["aa", "ab"], &["a", "ab"], &[]]; sylvia::utils::assert_no_intersection(m) }; //~ ERROR
const _: () = { let m: [&[&str]; 3] = [&["aa", "ab"], &["a", "ab"], &["a"]]; sylvia::utils::assert_no_intersection(m) }; //~ ERROR
const _: () = { let m: [&[&str]; 3] = [&["aa", "ab"], &["a", "ab"], &["aa"]]; sylvia::utils::assert_no_intersection(m) }; //~ ERROR
const _: () = { let m: [&[&str]; 3] = [&["aa", "ab"], &["a", "ab"], &["ab"]]; sylvia::utils::assert_no_intersection(m) }; //~ ERROR
const _: () = { let m: [&[&str]; 3] = [&["aa", "ab"], &["a", "ab"], &["a", "aa"]]; sylvia::utils::assert_no_intersection(m) }; //~ ERROR
const _: () = { let m: [&[&str]; 3] = [&["aa", "ab"], &["a", "ab"], &["a", "ab"]]; sylvia::utils::assert_no_intersection(m) }; //~ ERROR
const _: () = { let m: [&[&str]; 3] = [&["aa", "ab"], &["a", "ab"], &["aa", "ab"]]; sylvia::utils::assert_no_intersection(m) }; //~ ERROR
const _: () = { let m: [&[&str]; 3] = [&["aa", "ab"], &["aa", "ab"], &[]]; sylvia::utils::assert_no_intersection(m) }; //~ ERROR
const _: () = { let m: [&[&str]; 3] = [&["aa", "ab"], &["aa", "ab"], &["a"]]; sylvia::utils::assert_no_intersection(m) }; //~ ERROR
const _: () = { let m: [&[&str]; 3] = [&["aa", "ab"], &["aa", "ab"], &["aa"]]; sylvia::utils::assert_no_intersection(m) }; //~ ERROR
const _: () = { let m: [&[&str]; 3] = [&["aa", "ab"], &["aa", "ab"], &["ab"]]; sylvia::utils::assert_no_intersection(m) }; //~ ERROR
const _: () = { let m: [&[&str]; 3] = [&["aa", "ab"], &["aa", "ab"], &["a", "aa"]]; sylvia::utils::assert_no_intersection(m) }; //~ ERROR
const _: () = { let m: [&[&str]; 3] = [&["aa", "ab"], &["aa", "ab"], &["a", "ab"]]; sylvia::utils::assert_no_intersection(m) }; //~ ERROR
const _: () = { let m: [&[&str]; 3] = [&["aa", "ab"], &["aa", "ab"], &["aa", "ab"]]; sylvia::utils::assert_no_intersection(m) }; //~ ERROR
fn main() {}
