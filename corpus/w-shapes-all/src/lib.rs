//@ props: C01 C02 C03 C04 C05 C10
//@ expect: pass
//@ what: all 179 method names over the classes letter/digit/underscore up to length 5, under exec/query/sudo in contracts, interfaces and contracts using them
#![allow(dead_code, unused_variables, non_snake_case, clippy::new_without_default)]
use sylvia::ctx::{ExecCtx, InstantiateCtx, QueryCtx, SudoCtx};
use sylvia::cw_std::{Response, StdError, StdResult};
use sylvia::{contract, entry_points, interface};

#[sylvia::cw_schema::cw_serde]
pub struct Resp {}

pub mod tc0 {
    use super::*;
    pub struct Contract;

    #[entry_points]
    #[contract]
    impl Contract {
        pub fn new() -> Self { Self }
        #[sv::msg(instantiate)]
        fn instantiate(&self, _ctx: InstantiateCtx) -> StdResult<Response> { Ok(Response::new()) }
        #[sv::msg(exec)]
        fn ____a(&self, _ctx: ExecCtx, first: u32, second: u32) -> StdResult<Response> { Ok(Response::new()) }
        #[sv::msg(exec)]
        fn ___a2(&self, _ctx: ExecCtx, first: u32, second: u32) -> StdResult<Response> { Ok(Response::new()) }
        #[sv::msg(exec)]
        fn ___ab(&self, _ctx: ExecCtx, first: u32, second: u32) -> StdResult<Response> { Ok(Response::new()) }
        #[sv::msg(exec)]
        fn __a22(&self, _ctx: ExecCtx, first: u32, second: u32) -> StdResult<Response> { Ok(Response::new()) }
        #[sv::msg(query)]
        fn __a2b(&self, _ctx: QueryCtx, first: u32, second: u32) -> StdResult<Resp> { Ok(Resp {}) }
        #[sv::msg(query)]
        fn __ab2(&self, _ctx: QueryCtx, first: u32, second: u32) -> StdResult<Resp> { Ok(Resp {}) }
        #[sv::msg(query)]
        fn __abc(&self, _ctx: QueryCtx, first: u32, second: u32) -> StdResult<Resp> { Ok(Resp {}) }
        #[sv::msg(query)]
        fn _a222(&self, _ctx: QueryCtx, first: u32, second: u32) -> StdResult<Resp> { Ok(Resp {}) }
        #[sv::msg(sudo)]
        fn _a22b(&self, _ctx: SudoCtx, first: u32, second: u32) -> StdResult<Response> { Ok(Response::new()) }
        #[sv::msg(sudo)]
        fn _a2b2(&self, _ctx: SudoCtx, first: u32, second: u32) -> StdResult<Response> { Ok(Response::new()) }
        #[sv::msg(sudo)]
        fn _a2bc(&self, _ctx: SudoCtx, first: u32, second: u32) -> StdResult<Response> { Ok(Response::new()) }
        #[sv::msg(sudo)]
        fn _ab22(&self, _ctx: SudoCtx, first: u32, second: u32) -> StdResult<Response> { Ok(Response::new()) }
    }
}

pub mod ti0 {
    use super::*;
    #[interface]
    #[sv::custom(msg = sylvia::cw_std::Empty, query = sylvia::cw_std::Empty)]
    pub trait Shapes0 {
        type Error: From<StdError>;
        #[sv::msg(exec)]
        fn _a22b(&self, ctx: ExecCtx, first: u32, second: u32) -> Result<Response, Self::Error>;
        #[sv::msg(exec)]
        fn _a2b2(&self, ctx: ExecCtx, first: u32, second: u32) -> Result<Response, Self::Error>;
        #[sv::msg(exec)]
        fn _a2bc(&self, ctx: ExecCtx, first: u32, second: u32) -> Result<Response, Self::Error>;
        #[sv::msg(exec)]
        fn _ab22(&self, ctx: ExecCtx, first: u32, second: u32) -> Result<Response, Self::Error>;
        #[sv::msg(query)]
        fn ____a(&self, ctx: QueryCtx, first: u32, second: u32) -> Result<Resp, Self::Error>;
        #[sv::msg(query)]
        fn ___a2(&self, ctx: QueryCtx, first: u32, second: u32) -> Result<Resp, Self::Error>;
        #[sv::msg(query)]
        fn ___ab(&self, ctx: QueryCtx, first: u32, second: u32) -> Result<Resp, Self::Error>;
        #[sv::msg(query)]
        fn __a22(&self, ctx: QueryCtx, first: u32, second: u32) -> Result<Resp, Self::Error>;
        #[sv::msg(sudo)]
        fn __a2b(&self, ctx: SudoCtx, first: u32, second: u32) -> Result<Response, Self::Error>;
        #[sv::msg(sudo)]
        fn __ab2(&self, ctx: SudoCtx, first: u32, second: u32) -> Result<Response, Self::Error>;
        #[sv::msg(sudo)]
        fn __abc(&self, ctx: SudoCtx, first: u32, second: u32) -> Result<Response, Self::Error>;
        #[sv::msg(sudo)]
        fn _a222(&self, ctx: SudoCtx, first: u32, second: u32) -> Result<Response, Self::Error>;
    }
}

pub mod tu0 {
    use super::*;
    pub struct Contract;

    impl super::ti0::Shapes0 for Contract {
        type Error = StdError;
        fn _a22b(&self, _ctx: ExecCtx, first: u32, second: u32) -> StdResult<Response> { Ok(Response::new()) }
        fn _a2b2(&self, _ctx: ExecCtx, first: u32, second: u32) -> StdResult<Response> { Ok(Response::new()) }
        fn _a2bc(&self, _ctx: ExecCtx, first: u32, second: u32) -> StdResult<Response> { Ok(Response::new()) }
        fn _ab22(&self, _ctx: ExecCtx, first: u32, second: u32) -> StdResult<Response> { Ok(Response::new()) }
        fn ____a(&self, _ctx: QueryCtx, first: u32, second: u32) -> StdResult<Resp> { Ok(Resp {}) }
        fn ___a2(&self, _ctx: QueryCtx, first: u32, second: u32) -> StdResult<Resp> { Ok(Resp {}) }
        fn ___ab(&self, _ctx: QueryCtx, first: u32, second: u32) -> StdResult<Resp> { Ok(Resp {}) }
        fn __a22(&self, _ctx: QueryCtx, first: u32, second: u32) -> StdResult<Resp> { Ok(Resp {}) }
        fn __a2b(&self, _ctx: SudoCtx, first: u32, second: u32) -> StdResult<Response> { Ok(Response::new()) }
        fn __ab2(&self, _ctx: SudoCtx, first: u32, second: u32) -> StdResult<Response> { Ok(Response::new()) }
        fn __abc(&self, _ctx: SudoCtx, first: u32, second: u32) -> StdResult<Response> { Ok(Response::new()) }
        fn _a222(&self, _ctx: SudoCtx, first: u32, second: u32) -> StdResult<Response> { Ok(Response::new()) }
    }

    #[entry_points]
    #[contract]
    #[sv::messages(super::ti0 as Shapes0)]
    impl Contract {
        pub fn new() -> Self { Self }
        #[sv::msg(instantiate)]
        fn instantiate(&self, _ctx: InstantiateCtx) -> StdResult<Response> { Ok(Response::new()) }
        #[sv::msg(exec)]
        fn zz_own_exec(&self, _ctx: ExecCtx, first: u32, second: u32) -> StdResult<Response> { Ok(Response::new()) }
        #[sv::msg(query)]
        fn zz_own_query(&self, _ctx: QueryCtx, first: u32, second: u32) -> StdResult<Resp> { Ok(Resp {}) }
    }
}

pub mod tc1 {
    use super::*;
    pub struct Contract;

    #[entry_points]
    #[contract]
    impl Contract {
        pub fn new() -> Self { Self }
        #[sv::msg(instantiate)]
        fn instantiate(&self, _ctx: InstantiateCtx) -> StdResult<Response> { Ok(Response::new()) }
        #[sv::msg(exec)]
        fn ___a(&self, _ctx: ExecCtx, first: u32, second: u32) -> StdResult<Response> { Ok(Response::new()) }
        #[sv::msg(exec)]
        fn __a2(&self, _ctx: ExecCtx, first: u32, second: u32) -> StdResult<Response> { Ok(Response::new()) }
        #[sv::msg(exec)]
        fn __a_b(&self, _ctx: ExecCtx, first: u32, second: u32) -> StdResult<Response> { Ok(Response::new()) }
        #[sv::msg(exec)]
        fn _a22(&self, _ctx: ExecCtx, first: u32, second: u32) -> StdResult<Response> { Ok(Response::new()) }
        #[sv::msg(query)]
        fn _a2_b(&self, _ctx: QueryCtx, first: u32, second: u32) -> StdResult<Resp> { Ok(Resp {}) }
        #[sv::msg(query)]
        fn _a_b2(&self, _ctx: QueryCtx, first: u32, second: u32) -> StdResult<Resp> { Ok(Resp {}) }
        #[sv::msg(query)]
        fn _a_bc(&self, _ctx: QueryCtx, first: u32, second: u32) -> StdResult<Resp> { Ok(Resp {}) }
        #[sv::msg(query)]
        fn _ab2c(&self, _ctx: QueryCtx, first: u32, second: u32) -> StdResult<Resp> { Ok(Resp {}) }
        #[sv::msg(sudo)]
        fn _abc2(&self, _ctx: SudoCtx, first: u32, second: u32) -> StdResult<Response> { Ok(Response::new()) }
        #[sv::msg(sudo)]
        fn _abcd(&self, _ctx: SudoCtx, first: u32, second: u32) -> StdResult<Response> { Ok(Response::new()) }
        #[sv::msg(sudo)]
        fn a222(&self, _ctx: SudoCtx, first: u32, second: u32) -> StdResult<Response> { Ok(Response::new()) }
        #[sv::msg(sudo)]
        fn a2222(&self, _ctx: SudoCtx, first: u32, second: u32) -> StdResult<Response> { Ok(Response::new()) }
    }
}

pub mod ti1 {
    use super::*;
    #[interface]
    #[sv::custom(msg = sylvia::cw_std::Empty, query = sylvia::cw_std::Empty)]
    pub trait Shapes1 {
        type Error: From<StdError>;
        #[sv::msg(exec)]
        fn _abc2(&self, ctx: ExecCtx, first: u32, second: u32) -> Result<Response, Self::Error>;
        #[sv::msg(exec)]
        fn _abcd(&self, ctx: ExecCtx, first: u32, second: u32) -> Result<Response, Self::Error>;
        #[sv::msg(exec)]
        fn a222(&self, ctx: ExecCtx, first: u32, second: u32) -> Result<Response, Self::Error>;
        #[sv::msg(exec)]
        fn a2222(&self, ctx: ExecCtx, first: u32, second: u32) -> Result<Response, Self::Error>;
        #[sv::msg(query)]
        fn ___a(&self, ctx: QueryCtx, first: u32, second: u32) -> Result<Resp, Self::Error>;
        #[sv::msg(query)]
        fn __a2(&self, ctx: QueryCtx, first: u32, second: u32) -> Result<Resp, Self::Error>;
        #[sv::msg(query)]
        fn __a_b(&self, ctx: QueryCtx, first: u32, second: u32) -> Result<Resp, Self::Error>;
        #[sv::msg(query)]
        fn _a22(&self, ctx: QueryCtx, first: u32, second: u32) -> Result<Resp, Self::Error>;
        #[sv::msg(sudo)]
        fn _a2_b(&self, ctx: SudoCtx, first: u32, second: u32) -> Result<Response, Self::Error>;
        #[sv::msg(sudo)]
        fn _a_b2(&self, ctx: SudoCtx, first: u32, second: u32) -> Result<Response, Self::Error>;
        #[sv::msg(sudo)]
        fn _a_bc(&self, ctx: SudoCtx, first: u32, second: u32) -> Result<Response, Self::Error>;
        #[sv::msg(sudo)]
        fn _ab2c(&self, ctx: SudoCtx, first: u32, second: u32) -> Result<Response, Self::Error>;
    }
}

pub mod tu1 {
    use super::*;
    pub struct Contract;

    impl super::ti1::Shapes1 for Contract {
        type Error = StdError;
        fn _abc2(&self, _ctx: ExecCtx, first: u32, second: u32) -> StdResult<Response> { Ok(Response::new()) }
        fn _abcd(&self, _ctx: ExecCtx, first: u32, second: u32) -> StdResult<Response> { Ok(Response::new()) }
        fn a222(&self, _ctx: ExecCtx, first: u32, second: u32) -> StdResult<Response> { Ok(Response::new()) }
        fn a2222(&self, _ctx: ExecCtx, first: u32, second: u32) -> StdResult<Response> { Ok(Response::new()) }
        fn ___a(&self, _ctx: QueryCtx, first: u32, second: u32) -> StdResult<Resp> { Ok(Resp {}) }
        fn __a2(&self, _ctx: QueryCtx, first: u32, second: u32) -> StdResult<Resp> { Ok(Resp {}) }
        fn __a_b(&self, _ctx: QueryCtx, first: u32, second: u32) -> StdResult<Resp> { Ok(Resp {}) }
        fn _a22(&self, _ctx: QueryCtx, first: u32, second: u32) -> StdResult<Resp> { Ok(Resp {}) }
        fn _a2_b(&self, _ctx: SudoCtx, first: u32, second: u32) -> StdResult<Response> { Ok(Response::new()) }
        fn _a_b2(&self, _ctx: SudoCtx, first: u32, second: u32) -> StdResult<Response> { Ok(Response::new()) }
        fn _a_bc(&self, _ctx: SudoCtx, first: u32, second: u32) -> StdResult<Response> { Ok(Response::new()) }
        fn _ab2c(&self, _ctx: SudoCtx, first: u32, second: u32) -> StdResult<Response> { Ok(Response::new()) }
    }

    #[entry_points]
    #[contract]
    #[sv::messages(super::ti1 as Shapes1)]
    impl Contract {
        pub fn new() -> Self { Self }
        #[sv::msg(instantiate)]
        fn instantiate(&self, _ctx: InstantiateCtx) -> StdResult<Response> { Ok(Response::new()) }
        #[sv::msg(exec)]
        fn zz_own_exec(&self, _ctx: ExecCtx, first: u32, second: u32) -> StdResult<Response> { Ok(Response::new()) }
        #[sv::msg(query)]
        fn zz_own_query(&self, _ctx: QueryCtx, first: u32, second: u32) -> StdResult<Resp> { Ok(Resp {}) }
    }
}

pub mod tc2 {
    use super::*;
    pub struct Contract;

    #[entry_points]
    #[contract]
    impl Contract {
        pub fn new() -> Self { Self }
        #[sv::msg(instantiate)]
        fn instantiate(&self, _ctx: InstantiateCtx) -> StdResult<Response> { Ok(Response::new()) }
        #[sv::msg(exec)]
        fn ___a_(&self, _ctx: ExecCtx, first: u32, second: u32) -> StdResult<Response> { Ok(Response::new()) }
        #[sv::msg(exec)]
        fn __a2_(&self, _ctx: ExecCtx, first: u32, second: u32) -> StdResult<Response> { Ok(Response::new()) }
        #[sv::msg(exec)]
        fn __ab(&self, _ctx: ExecCtx, first: u32, second: u32) -> StdResult<Response> { Ok(Response::new()) }
        #[sv::msg(exec)]
        fn _a22_(&self, _ctx: ExecCtx, first: u32, second: u32) -> StdResult<Response> { Ok(Response::new()) }
        #[sv::msg(query)]
        fn _a2b(&self, _ctx: QueryCtx, first: u32, second: u32) -> StdResult<Resp> { Ok(Resp {}) }
        #[sv::msg(query)]
        fn _ab2(&self, _ctx: QueryCtx, first: u32, second: u32) -> StdResult<Resp> { Ok(Resp {}) }
        #[sv::msg(query)]
        fn _ab_c(&self, _ctx: QueryCtx, first: u32, second: u32) -> StdResult<Resp> { Ok(Resp {}) }
        #[sv::msg(query)]
        fn a222_(&self, _ctx: QueryCtx, first: u32, second: u32) -> StdResult<Resp> { Ok(Resp {}) }
        #[sv::msg(sudo)]
        fn a222b(&self, _ctx: SudoCtx, first: u32, second: u32) -> StdResult<Response> { Ok(Response::new()) }
        #[sv::msg(sudo)]
        fn a22_b(&self, _ctx: SudoCtx, first: u32, second: u32) -> StdResult<Response> { Ok(Response::new()) }
        #[sv::msg(sudo)]
        fn a22b2(&self, _ctx: SudoCtx, first: u32, second: u32) -> StdResult<Response> { Ok(Response::new()) }
        #[sv::msg(sudo)]
        fn a22bc(&self, _ctx: SudoCtx, first: u32, second: u32) -> StdResult<Response> { Ok(Response::new()) }
    }
}

pub mod ti2 {
    use super::*;
    #[interface]
    #[sv::custom(msg = sylvia::cw_std::Empty, query = sylvia::cw_std::Empty)]
    pub trait Shapes2 {
        type Error: From<StdError>;
        #[sv::msg(exec)]
        fn a222b(&self, ctx: ExecCtx, first: u32, second: u32) -> Result<Response, Self::Error>;
        #[sv::msg(exec)]
        fn a22_b(&self, ctx: ExecCtx, first: u32, second: u32) -> Result<Response, Self::Error>;
        #[sv::msg(exec)]
        fn a22b2(&self, ctx: ExecCtx, first: u32, second: u32) -> Result<Response, Self::Error>;
        #[sv::msg(exec)]
        fn a22bc(&self, ctx: ExecCtx, first: u32, second: u32) -> Result<Response, Self::Error>;
        #[sv::msg(query)]
        fn ___a_(&self, ctx: QueryCtx, first: u32, second: u32) -> Result<Resp, Self::Error>;
        #[sv::msg(query)]
        fn __a2_(&self, ctx: QueryCtx, first: u32, second: u32) -> Result<Resp, Self::Error>;
        #[sv::msg(query)]
        fn __ab(&self, ctx: QueryCtx, first: u32, second: u32) -> Result<Resp, Self::Error>;
        #[sv::msg(query)]
        fn _a22_(&self, ctx: QueryCtx, first: u32, second: u32) -> Result<Resp, Self::Error>;
        #[sv::msg(sudo)]
        fn _a2b(&self, ctx: SudoCtx, first: u32, second: u32) -> Result<Response, Self::Error>;
        #[sv::msg(sudo)]
        fn _ab2(&self, ctx: SudoCtx, first: u32, second: u32) -> Result<Response, Self::Error>;
        #[sv::msg(sudo)]
        fn _ab_c(&self, ctx: SudoCtx, first: u32, second: u32) -> Result<Response, Self::Error>;
        #[sv::msg(sudo)]
        fn a222_(&self, ctx: SudoCtx, first: u32, second: u32) -> Result<Response, Self::Error>;
    }
}

pub mod tu2 {
    use super::*;
    pub struct Contract;

    impl super::ti2::Shapes2 for Contract {
        type Error = StdError;
        fn a222b(&self, _ctx: ExecCtx, first: u32, second: u32) -> StdResult<Response> { Ok(Response::new()) }
        fn a22_b(&self, _ctx: ExecCtx, first: u32, second: u32) -> StdResult<Response> { Ok(Response::new()) }
        fn a22b2(&self, _ctx: ExecCtx, first: u32, second: u32) -> StdResult<Response> { Ok(Response::new()) }
        fn a22bc(&self, _ctx: ExecCtx, first: u32, second: u32) -> StdResult<Response> { Ok(Response::new()) }
        fn ___a_(&self, _ctx: QueryCtx, first: u32, second: u32) -> StdResult<Resp> { Ok(Resp {}) }
        fn __a2_(&self, _ctx: QueryCtx, first: u32, second: u32) -> StdResult<Resp> { Ok(Resp {}) }
        fn __ab(&self, _ctx: QueryCtx, first: u32, second: u32) -> StdResult<Resp> { Ok(Resp {}) }
        fn _a22_(&self, _ctx: QueryCtx, first: u32, second: u32) -> StdResult<Resp> { Ok(Resp {}) }
        fn _a2b(&self, _ctx: SudoCtx, first: u32, second: u32) -> StdResult<Response> { Ok(Response::new()) }
        fn _ab2(&self, _ctx: SudoCtx, first: u32, second: u32) -> StdResult<Response> { Ok(Response::new()) }
        fn _ab_c(&self, _ctx: SudoCtx, first: u32, second: u32) -> StdResult<Response> { Ok(Response::new()) }
        fn a222_(&self, _ctx: SudoCtx, first: u32, second: u32) -> StdResult<Response> { Ok(Response::new()) }
    }

    #[entry_points]
    #[contract]
    #[sv::messages(super::ti2 as Shapes2)]
    impl Contract {
        pub fn new() -> Self { Self }
        #[sv::msg(instantiate)]
        fn instantiate(&self, _ctx: InstantiateCtx) -> StdResult<Response> { Ok(Response::new()) }
        #[sv::msg(exec)]
        fn zz_own_exec(&self, _ctx: ExecCtx, first: u32, second: u32) -> StdResult<Response> { Ok(Response::new()) }
        #[sv::msg(query)]
        fn zz_own_query(&self, _ctx: QueryCtx, first: u32, second: u32) -> StdResult<Resp> { Ok(Resp {}) }
    }
}

pub mod tc3 {
    use super::*;
    pub struct Contract;

    #[entry_points]
    #[contract]
    impl Contract {
        pub fn new() -> Self { Self }
        #[sv::msg(instantiate)]
        fn instantiate(&self, _ctx: InstantiateCtx) -> StdResult<Response> { Ok(Response::new()) }
        #[sv::msg(exec)]
        fn __a(&self, _ctx: ExecCtx, first: u32, second: u32) -> StdResult<Response> { Ok(Response::new()) }
        #[sv::msg(exec)]
        fn __a_2(&self, _ctx: ExecCtx, first: u32, second: u32) -> StdResult<Response> { Ok(Response::new()) }
        #[sv::msg(exec)]
        fn __ab_(&self, _ctx: ExecCtx, first: u32, second: u32) -> StdResult<Response> { Ok(Response::new()) }
        #[sv::msg(exec)]
        fn _a2_2(&self, _ctx: ExecCtx, first: u32, second: u32) -> StdResult<Response> { Ok(Response::new()) }
        #[sv::msg(query)]
        fn _a2b_(&self, _ctx: QueryCtx, first: u32, second: u32) -> StdResult<Resp> { Ok(Resp {}) }
        #[sv::msg(query)]
        fn _ab2_(&self, _ctx: QueryCtx, first: u32, second: u32) -> StdResult<Resp> { Ok(Resp {}) }
        #[sv::msg(query)]
        fn _abc(&self, _ctx: QueryCtx, first: u32, second: u32) -> StdResult<Resp> { Ok(Resp {}) }
        #[sv::msg(query)]
        fn a22_2(&self, _ctx: QueryCtx, first: u32, second: u32) -> StdResult<Resp> { Ok(Resp {}) }
        #[sv::msg(sudo)]
        fn a22b(&self, _ctx: SudoCtx, first: u32, second: u32) -> StdResult<Response> { Ok(Response::new()) }
        #[sv::msg(sudo)]
        fn a2_b2(&self, _ctx: SudoCtx, first: u32, second: u32) -> StdResult<Response> { Ok(Response::new()) }
        #[sv::msg(sudo)]
        fn a2_bc(&self, _ctx: SudoCtx, first: u32, second: u32) -> StdResult<Response> { Ok(Response::new()) }
        #[sv::msg(sudo)]
        fn a2b22(&self, _ctx: SudoCtx, first: u32, second: u32) -> StdResult<Response> { Ok(Response::new()) }
    }
}

pub mod ti3 {
    use super::*;
    #[interface]
    #[sv::custom(msg = sylvia::cw_std::Empty, query = sylvia::cw_std::Empty)]
    pub trait Shapes3 {
        type Error: From<StdError>;
        #[sv::msg(exec)]
        fn a22b(&self, ctx: ExecCtx, first: u32, second: u32) -> Result<Response, Self::Error>;
        #[sv::msg(exec)]
        fn a2_b2(&self, ctx: ExecCtx, first: u32, second: u32) -> Result<Response, Self::Error>;
        #[sv::msg(exec)]
        fn a2_bc(&self, ctx: ExecCtx, first: u32, second: u32) -> Result<Response, Self::Error>;
        #[sv::msg(exec)]
        fn a2b22(&self, ctx: ExecCtx, first: u32, second: u32) -> Result<Response, Self::Error>;
        #[sv::msg(query)]
        fn __a(&self, ctx: QueryCtx, first: u32, second: u32) -> Result<Resp, Self::Error>;
        #[sv::msg(query)]
        fn __a_2(&self, ctx: QueryCtx, first: u32, second: u32) -> Result<Resp, Self::Error>;
        #[sv::msg(query)]
        fn __ab_(&self, ctx: QueryCtx, first: u32, second: u32) -> Result<Resp, Self::Error>;
        #[sv::msg(query)]
        fn _a2_2(&self, ctx: QueryCtx, first: u32, second: u32) -> Result<Resp, Self::Error>;
        #[sv::msg(sudo)]
        fn _a2b_(&self, ctx: SudoCtx, first: u32, second: u32) -> Result<Response, Self::Error>;
        #[sv::msg(sudo)]
        fn _ab2_(&self, ctx: SudoCtx, first: u32, second: u32) -> Result<Response, Self::Error>;
        #[sv::msg(sudo)]
        fn _abc(&self, ctx: SudoCtx, first: u32, second: u32) -> Result<Response, Self::Error>;
        #[sv::msg(sudo)]
        fn a22_2(&self, ctx: SudoCtx, first: u32, second: u32) -> Result<Response, Self::Error>;
    }
}

pub mod tu3 {
    use super::*;
    pub struct Contract;

    impl super::ti3::Shapes3 for Contract {
        type Error = StdError;
        fn a22b(&self, _ctx: ExecCtx, first: u32, second: u32) -> StdResult<Response> { Ok(Response::new()) }
        fn a2_b2(&self, _ctx: ExecCtx, first: u32, second: u32) -> StdResult<Response> { Ok(Response::new()) }
        fn a2_bc(&self, _ctx: ExecCtx, first: u32, second: u32) -> StdResult<Response> { Ok(Response::new()) }
        fn a2b22(&self, _ctx: ExecCtx, first: u32, second: u32) -> StdResult<Response> { Ok(Response::new()) }
        fn __a(&self, _ctx: QueryCtx, first: u32, second: u32) -> StdResult<Resp> { Ok(Resp {}) }
        fn __a_2(&self, _ctx: QueryCtx, first: u32, second: u32) -> StdResult<Resp> { Ok(Resp {}) }
        fn __ab_(&self, _ctx: QueryCtx, first: u32, second: u32) -> StdResult<Resp> { Ok(Resp {}) }
        fn _a2_2(&self, _ctx: QueryCtx, first: u32, second: u32) -> StdResult<Resp> { Ok(Resp {}) }
        fn _a2b_(&self, _ctx: SudoCtx, first: u32, second: u32) -> StdResult<Response> { Ok(Response::new()) }
        fn _ab2_(&self, _ctx: SudoCtx, first: u32, second: u32) -> StdResult<Response> { Ok(Response::new()) }
        fn _abc(&self, _ctx: SudoCtx, first: u32, second: u32) -> StdResult<Response> { Ok(Response::new()) }
        fn a22_2(&self, _ctx: SudoCtx, first: u32, second: u32) -> StdResult<Response> { Ok(Response::new()) }
    }

    #[entry_points]
    #[contract]
    #[sv::messages(super::ti3 as Shapes3)]
    impl Contract {
        pub fn new() -> Self { Self }
        #[sv::msg(instantiate)]
        fn instantiate(&self, _ctx: InstantiateCtx) -> StdResult<Response> { Ok(Response::new()) }
        #[sv::msg(exec)]
        fn zz_own_exec(&self, _ctx: ExecCtx, first: u32, second: u32) -> StdResult<Response> { Ok(Response::new()) }
        #[sv::msg(query)]
        fn zz_own_query(&self, _ctx: QueryCtx, first: u32, second: u32) -> StdResult<Resp> { Ok(Resp {}) }
    }
}

pub mod tc4 {
    use super::*;
    pub struct Contract;

    #[entry_points]
    #[contract]
    impl Contract {
        pub fn new() -> Self { Self }
        #[sv::msg(instantiate)]
        fn instantiate(&self, _ctx: InstantiateCtx) -> StdResult<Response> { Ok(Response::new()) }
        #[sv::msg(exec)]
        fn __a_(&self, _ctx: ExecCtx, first: u32, second: u32) -> StdResult<Response> { Ok(Response::new()) }
        #[sv::msg(exec)]
        fn _a2(&self, _ctx: ExecCtx, first: u32, second: u32) -> StdResult<Response> { Ok(Response::new()) }
        #[sv::msg(exec)]
        fn _a_22(&self, _ctx: ExecCtx, first: u32, second: u32) -> StdResult<Response> { Ok(Response::new()) }
        #[sv::msg(exec)]
        fn _a_2b(&self, _ctx: ExecCtx, first: u32, second: u32) -> StdResult<Response> { Ok(Response::new()) }
        #[sv::msg(query)]
        fn _a__b(&self, _ctx: QueryCtx, first: u32, second: u32) -> StdResult<Resp> { Ok(Resp {}) }
        #[sv::msg(query)]
        fn _ab_2(&self, _ctx: QueryCtx, first: u32, second: u32) -> StdResult<Resp> { Ok(Resp {}) }
        #[sv::msg(query)]
        fn _abc_(&self, _ctx: QueryCtx, first: u32, second: u32) -> StdResult<Resp> { Ok(Resp {}) }
        #[sv::msg(query)]
        fn a22b_(&self, _ctx: QueryCtx, first: u32, second: u32) -> StdResult<Resp> { Ok(Resp {}) }
        #[sv::msg(sudo)]
        fn a2_22(&self, _ctx: SudoCtx, first: u32, second: u32) -> StdResult<Response> { Ok(Response::new()) }
        #[sv::msg(sudo)]
        fn a2b2(&self, _ctx: SudoCtx, first: u32, second: u32) -> StdResult<Response> { Ok(Response::new()) }
        #[sv::msg(sudo)]
        fn a2b2c(&self, _ctx: SudoCtx, first: u32, second: u32) -> StdResult<Response> { Ok(Response::new()) }
        #[sv::msg(sudo)]
        fn a2b_c(&self, _ctx: SudoCtx, first: u32, second: u32) -> StdResult<Response> { Ok(Response::new()) }
    }
}

pub mod ti4 {
    use super::*;
    #[interface]
    #[sv::custom(msg = sylvia::cw_std::Empty, query = sylvia::cw_std::Empty)]
    pub trait Shapes4 {
        type Error: From<StdError>;
        #[sv::msg(exec)]
        fn a2_22(&self, ctx: ExecCtx, first: u32, second: u32) -> Result<Response, Self::Error>;
        #[sv::msg(exec)]
        fn a2b2(&self, ctx: ExecCtx, first: u32, second: u32) -> Result<Response, Self::Error>;
        #[sv::msg(exec)]
        fn a2b2c(&self, ctx: ExecCtx, first: u32, second: u32) -> Result<Response, Self::Error>;
        #[sv::msg(exec)]
        fn a2b_c(&self, ctx: ExecCtx, first: u32, second: u32) -> Result<Response, Self::Error>;
        #[sv::msg(query)]
        fn __a_(&self, ctx: QueryCtx, first: u32, second: u32) -> Result<Resp, Self::Error>;
        #[sv::msg(query)]
        fn _a2(&self, ctx: QueryCtx, first: u32, second: u32) -> Result<Resp, Self::Error>;
        #[sv::msg(query)]
        fn _a_22(&self, ctx: QueryCtx, first: u32, second: u32) -> Result<Resp, Self::Error>;
        #[sv::msg(query)]
        fn _a_2b(&self, ctx: QueryCtx, first: u32, second: u32) -> Result<Resp, Self::Error>;
        #[sv::msg(sudo)]
        fn _a__b(&self, ctx: SudoCtx, first: u32, second: u32) -> Result<Response, Self::Error>;
        #[sv::msg(sudo)]
        fn _ab_2(&self, ctx: SudoCtx, first: u32, second: u32) -> Result<Response, Self::Error>;
        #[sv::msg(sudo)]
        fn _abc_(&self, ctx: SudoCtx, first: u32, second: u32) -> Result<Response, Self::Error>;
        #[sv::msg(sudo)]
        fn a22b_(&self, ctx: SudoCtx, first: u32, second: u32) -> Result<Response, Self::Error>;
    }
}

pub mod tu4 {
    use super::*;
    pub struct Contract;

    impl super::ti4::Shapes4 for Contract {
        type Error = StdError;
        fn a2_22(&self, _ctx: ExecCtx, first: u32, second: u32) -> StdResult<Response> { Ok(Response::new()) }
        fn a2b2(&self, _ctx: ExecCtx, first: u32, second: u32) -> StdResult<Response> { Ok(Response::new()) }
        fn a2b2c(&self, _ctx: ExecCtx, first: u32, second: u32) -> StdResult<Response> { Ok(Response::new()) }
        fn a2b_c(&self, _ctx: ExecCtx, first: u32, second: u32) -> StdResult<Response> { Ok(Response::new()) }
        fn __a_(&self, _ctx: QueryCtx, first: u32, second: u32) -> StdResult<Resp> { Ok(Resp {}) }
        fn _a2(&self, _ctx: QueryCtx, first: u32, second: u32) -> StdResult<Resp> { Ok(Resp {}) }
        fn _a_22(&self, _ctx: QueryCtx, first: u32, second: u32) -> StdResult<Resp> { Ok(Resp {}) }
        fn _a_2b(&self, _ctx: QueryCtx, first: u32, second: u32) -> StdResult<Resp> { Ok(Resp {}) }
        fn _a__b(&self, _ctx: SudoCtx, first: u32, second: u32) -> StdResult<Response> { Ok(Response::new()) }
        fn _ab_2(&self, _ctx: SudoCtx, first: u32, second: u32) -> StdResult<Response> { Ok(Response::new()) }
        fn _abc_(&self, _ctx: SudoCtx, first: u32, second: u32) -> StdResult<Response> { Ok(Response::new()) }
        fn a22b_(&self, _ctx: SudoCtx, first: u32, second: u32) -> StdResult<Response> { Ok(Response::new()) }
    }

    #[entry_points]
    #[contract]
    #[sv::messages(super::ti4 as Shapes4)]
    impl Contract {
        pub fn new() -> Self { Self }
        #[sv::msg(instantiate)]
        fn instantiate(&self, _ctx: InstantiateCtx) -> StdResult<Response> { Ok(Response::new()) }
        #[sv::msg(exec)]
        fn zz_own_exec(&self, _ctx: ExecCtx, first: u32, second: u32) -> StdResult<Response> { Ok(Response::new()) }
        #[sv::msg(query)]
        fn zz_own_query(&self, _ctx: QueryCtx, first: u32, second: u32) -> StdResult<Resp> { Ok(Resp {}) }
    }
}

pub mod tc5 {
    use super::*;
    pub struct Contract;

    #[entry_points]
    #[contract]
    impl Contract {
        pub fn new() -> Self { Self }
        #[sv::msg(instantiate)]
        fn instantiate(&self, _ctx: InstantiateCtx) -> StdResult<Response> { Ok(Response::new()) }
        #[sv::msg(exec)]
        fn __a__(&self, _ctx: ExecCtx, first: u32, second: u32) -> StdResult<Response> { Ok(Response::new()) }
        #[sv::msg(exec)]
        fn _a2_(&self, _ctx: ExecCtx, first: u32, second: u32) -> StdResult<Response> { Ok(Response::new()) }
        #[sv::msg(exec)]
        fn _a_b(&self, _ctx: ExecCtx, first: u32, second: u32) -> StdResult<Response> { Ok(Response::new()) }
        #[sv::msg(exec)]
        fn a22(&self, _ctx: ExecCtx, first: u32, second: u32) -> StdResult<Response> { Ok(Response::new()) }
        #[sv::msg(query)]
        fn a2_2b(&self, _ctx: QueryCtx, first: u32, second: u32) -> StdResult<Resp> { Ok(Resp {}) }
        #[sv::msg(query)]
        fn a2__b(&self, _ctx: QueryCtx, first: u32, second: u32) -> StdResult<Resp> { Ok(Resp {}) }
        #[sv::msg(query)]
        fn a2b2_(&self, _ctx: QueryCtx, first: u32, second: u32) -> StdResult<Resp> { Ok(Resp {}) }
        #[sv::msg(query)]
        fn a2bc(&self, _ctx: QueryCtx, first: u32, second: u32) -> StdResult<Resp> { Ok(Resp {}) }
        #[sv::msg(sudo)]
        fn a2bc2(&self, _ctx: SudoCtx, first: u32, second: u32) -> StdResult<Response> { Ok(Response::new()) }
        #[sv::msg(sudo)]
        fn a2bcd(&self, _ctx: SudoCtx, first: u32, second: u32) -> StdResult<Response> { Ok(Response::new()) }
        #[sv::msg(sudo)]
        fn a_222(&self, _ctx: SudoCtx, first: u32, second: u32) -> StdResult<Response> { Ok(Response::new()) }
        #[sv::msg(sudo)]
        fn a__b2(&self, _ctx: SudoCtx, first: u32, second: u32) -> StdResult<Response> { Ok(Response::new()) }
    }
}

pub mod ti5 {
    use super::*;
    #[interface]
    #[sv::custom(msg = sylvia::cw_std::Empty, query = sylvia::cw_std::Empty)]
    pub trait Shapes5 {
        type Error: From<StdError>;
        #[sv::msg(exec)]
        fn a2bc2(&self, ctx: ExecCtx, first: u32, second: u32) -> Result<Response, Self::Error>;
        #[sv::msg(exec)]
        fn a2bcd(&self, ctx: ExecCtx, first: u32, second: u32) -> Result<Response, Self::Error>;
        #[sv::msg(exec)]
        fn a_222(&self, ctx: ExecCtx, first: u32, second: u32) -> Result<Response, Self::Error>;
        #[sv::msg(exec)]
        fn a__b2(&self, ctx: ExecCtx, first: u32, second: u32) -> Result<Response, Self::Error>;
        #[sv::msg(query)]
        fn __a__(&self, ctx: QueryCtx, first: u32, second: u32) -> Result<Resp, Self::Error>;
        #[sv::msg(query)]
        fn _a2_(&self, ctx: QueryCtx, first: u32, second: u32) -> Result<Resp, Self::Error>;
        #[sv::msg(query)]
        fn _a_b(&self, ctx: QueryCtx, first: u32, second: u32) -> Result<Resp, Self::Error>;
        #[sv::msg(query)]
        fn a22(&self, ctx: QueryCtx, first: u32, second: u32) -> Result<Resp, Self::Error>;
        #[sv::msg(sudo)]
        fn a2_2b(&self, ctx: SudoCtx, first: u32, second: u32) -> Result<Response, Self::Error>;
        #[sv::msg(sudo)]
        fn a2__b(&self, ctx: SudoCtx, first: u32, second: u32) -> Result<Response, Self::Error>;
        #[sv::msg(sudo)]
        fn a2b2_(&self, ctx: SudoCtx, first: u32, second: u32) -> Result<Response, Self::Error>;
        #[sv::msg(sudo)]
        fn a2bc(&self, ctx: SudoCtx, first: u32, second: u32) -> Result<Response, Self::Error>;
    }
}

pub mod tu5 {
    use super::*;
    pub struct Contract;

    impl super::ti5::Shapes5 for Contract {
        type Error = StdError;
        fn a2bc2(&self, _ctx: ExecCtx, first: u32, second: u32) -> StdResult<Response> { Ok(Response::new()) }
        fn a2bcd(&self, _ctx: ExecCtx, first: u32, second: u32) -> StdResult<Response> { Ok(Response::new()) }
        fn a_222(&self, _ctx: ExecCtx, first: u32, second: u32) -> StdResult<Response> { Ok(Response::new()) }
        fn a__b2(&self, _ctx: ExecCtx, first: u32, second: u32) -> StdResult<Response> { Ok(Response::new()) }
        fn __a__(&self, _ctx: QueryCtx, first: u32, second: u32) -> StdResult<Resp> { Ok(Resp {}) }
        fn _a2_(&self, _ctx: QueryCtx, first: u32, second: u32) -> StdResult<Resp> { Ok(Resp {}) }
        fn _a_b(&self, _ctx: QueryCtx, first: u32, second: u32) -> StdResult<Resp> { Ok(Resp {}) }
        fn a22(&self, _ctx: QueryCtx, first: u32, second: u32) -> StdResult<Resp> { Ok(Resp {}) }
        fn a2_2b(&self, _ctx: SudoCtx, first: u32, second: u32) -> StdResult<Response> { Ok(Response::new()) }
        fn a2__b(&self, _ctx: SudoCtx, first: u32, second: u32) -> StdResult<Response> { Ok(Response::new()) }
        fn a2b2_(&self, _ctx: SudoCtx, first: u32, second: u32) -> StdResult<Response> { Ok(Response::new()) }
        fn a2bc(&self, _ctx: SudoCtx, first: u32, second: u32) -> StdResult<Response> { Ok(Response::new()) }
    }

    #[entry_points]
    #[contract]
    #[sv::messages(super::ti5 as Shapes5)]
    impl Contract {
        pub fn new() -> Self { Self }
        #[sv::msg(instantiate)]
        fn instantiate(&self, _ctx: InstantiateCtx) -> StdResult<Response> { Ok(Response::new()) }
        #[sv::msg(exec)]
        fn zz_own_exec(&self, _ctx: ExecCtx, first: u32, second: u32) -> StdResult<Response> { Ok(Response::new()) }
        #[sv::msg(query)]
        fn zz_own_query(&self, _ctx: QueryCtx, first: u32, second: u32) -> StdResult<Resp> { Ok(Resp {}) }
    }
}

pub mod tc6 {
    use super::*;
    pub struct Contract;

    #[entry_points]
    #[contract]
    impl Contract {
        pub fn new() -> Self { Self }
        #[sv::msg(instantiate)]
        fn instantiate(&self, _ctx: InstantiateCtx) -> StdResult<Response> { Ok(Response::new()) }
        #[sv::msg(exec)]
        fn _a(&self, _ctx: ExecCtx, first: u32, second: u32) -> StdResult<Response> { Ok(Response::new()) }
        #[sv::msg(exec)]
        fn _a2__(&self, _ctx: ExecCtx, first: u32, second: u32) -> StdResult<Response> { Ok(Response::new()) }
        #[sv::msg(exec)]
        fn _a_b_(&self, _ctx: ExecCtx, first: u32, second: u32) -> StdResult<Response> { Ok(Response::new()) }
        #[sv::msg(exec)]
        fn a22_(&self, _ctx: ExecCtx, first: u32, second: u32) -> StdResult<Response> { Ok(Response::new()) }
        #[sv::msg(query)]
        fn a2_b(&self, _ctx: QueryCtx, first: u32, second: u32) -> StdResult<Resp> { Ok(Resp {}) }
        #[sv::msg(query)]
        fn a2b_2(&self, _ctx: QueryCtx, first: u32, second: u32) -> StdResult<Resp> { Ok(Resp {}) }
        #[sv::msg(query)]
        fn a2bc_(&self, _ctx: QueryCtx, first: u32, second: u32) -> StdResult<Resp> { Ok(Resp {}) }
        #[sv::msg(query)]
        fn a_22b(&self, _ctx: QueryCtx, first: u32, second: u32) -> StdResult<Resp> { Ok(Resp {}) }
        #[sv::msg(sudo)]
        fn a__bc(&self, _ctx: SudoCtx, first: u32, second: u32) -> StdResult<Response> { Ok(Response::new()) }
        #[sv::msg(sudo)]
        fn a_b2(&self, _ctx: SudoCtx, first: u32, second: u32) -> StdResult<Response> { Ok(Response::new()) }
        #[sv::msg(sudo)]
        fn a_b22(&self, _ctx: SudoCtx, first: u32, second: u32) -> StdResult<Response> { Ok(Response::new()) }
        #[sv::msg(sudo)]
        fn a_b2c(&self, _ctx: SudoCtx, first: u32, second: u32) -> StdResult<Response> { Ok(Response::new()) }
    }
}

pub mod ti6 {
    use super::*;
    #[interface]
    #[sv::custom(msg = sylvia::cw_std::Empty, query = sylvia::cw_std::Empty)]
    pub trait Shapes6 {
        type Error: From<StdError>;
        #[sv::msg(exec)]
        fn a__bc(&self, ctx: ExecCtx, first: u32, second: u32) -> Result<Response, Self::Error>;
        #[sv::msg(exec)]
        fn a_b2(&self, ctx: ExecCtx, first: u32, second: u32) -> Result<Response, Self::Error>;
        #[sv::msg(exec)]
        fn a_b22(&self, ctx: ExecCtx, first: u32, second: u32) -> Result<Response, Self::Error>;
        #[sv::msg(exec)]
        fn a_b2c(&self, ctx: ExecCtx, first: u32, second: u32) -> Result<Response, Self::Error>;
        #[sv::msg(query)]
        fn _a(&self, ctx: QueryCtx, first: u32, second: u32) -> Result<Resp, Self::Error>;
        #[sv::msg(query)]
        fn _a2__(&self, ctx: QueryCtx, first: u32, second: u32) -> Result<Resp, Self::Error>;
        #[sv::msg(query)]
        fn _a_b_(&self, ctx: QueryCtx, first: u32, second: u32) -> Result<Resp, Self::Error>;
        #[sv::msg(query)]
        fn a22_(&self, ctx: QueryCtx, first: u32, second: u32) -> Result<Resp, Self::Error>;
        #[sv::msg(sudo)]
        fn a2_b(&self, ctx: SudoCtx, first: u32, second: u32) -> Result<Response, Self::Error>;
        #[sv::msg(sudo)]
        fn a2b_2(&self, ctx: SudoCtx, first: u32, second: u32) -> Result<Response, Self::Error>;
        #[sv::msg(sudo)]
        fn a2bc_(&self, ctx: SudoCtx, first: u32, second: u32) -> Result<Response, Self::Error>;
        #[sv::msg(sudo)]
        fn a_22b(&self, ctx: SudoCtx, first: u32, second: u32) -> Result<Response, Self::Error>;
    }
}

pub mod tu6 {
    use super::*;
    pub struct Contract;

    impl super::ti6::Shapes6 for Contract {
        type Error = StdError;
        fn a__bc(&self, _ctx: ExecCtx, first: u32, second: u32) -> StdResult<Response> { Ok(Response::new()) }
        fn a_b2(&self, _ctx: ExecCtx, first: u32, second: u32) -> StdResult<Response> { Ok(Response::new()) }
        fn a_b22(&self, _ctx: ExecCtx, first: u32, second: u32) -> StdResult<Response> { Ok(Response::new()) }
        fn a_b2c(&self, _ctx: ExecCtx, first: u32, second: u32) -> StdResult<Response> { Ok(Response::new()) }
        fn _a(&self, _ctx: QueryCtx, first: u32, second: u32) -> StdResult<Resp> { Ok(Resp {}) }
        fn _a2__(&self, _ctx: QueryCtx, first: u32, second: u32) -> StdResult<Resp> { Ok(Resp {}) }
        fn _a_b_(&self, _ctx: QueryCtx, first: u32, second: u32) -> StdResult<Resp> { Ok(Resp {}) }
        fn a22_(&self, _ctx: QueryCtx, first: u32, second: u32) -> StdResult<Resp> { Ok(Resp {}) }
        fn a2_b(&self, _ctx: SudoCtx, first: u32, second: u32) -> StdResult<Response> { Ok(Response::new()) }
        fn a2b_2(&self, _ctx: SudoCtx, first: u32, second: u32) -> StdResult<Response> { Ok(Response::new()) }
        fn a2bc_(&self, _ctx: SudoCtx, first: u32, second: u32) -> StdResult<Response> { Ok(Response::new()) }
        fn a_22b(&self, _ctx: SudoCtx, first: u32, second: u32) -> StdResult<Response> { Ok(Response::new()) }
    }

    #[entry_points]
    #[contract]
    #[sv::messages(super::ti6 as Shapes6)]
    impl Contract {
        pub fn new() -> Self { Self }
        #[sv::msg(instantiate)]
        fn instantiate(&self, _ctx: InstantiateCtx) -> StdResult<Response> { Ok(Response::new()) }
        #[sv::msg(exec)]
        fn zz_own_exec(&self, _ctx: ExecCtx, first: u32, second: u32) -> StdResult<Response> { Ok(Response::new()) }
        #[sv::msg(query)]
        fn zz_own_query(&self, _ctx: QueryCtx, first: u32, second: u32) -> StdResult<Resp> { Ok(Resp {}) }
    }
}

pub mod tc7 {
    use super::*;
    pub struct Contract;

    #[entry_points]
    #[contract]
    impl Contract {
        pub fn new() -> Self { Self }
        #[sv::msg(instantiate)]
        fn instantiate(&self, _ctx: InstantiateCtx) -> StdResult<Response> { Ok(Response::new()) }
        #[sv::msg(exec)]
        fn _a_(&self, _ctx: ExecCtx, first: u32, second: u32) -> StdResult<Response> { Ok(Response::new()) }
        #[sv::msg(exec)]
        fn _a_2(&self, _ctx: ExecCtx, first: u32, second: u32) -> StdResult<Response> { Ok(Response::new()) }
        #[sv::msg(exec)]
        fn _ab(&self, _ctx: ExecCtx, first: u32, second: u32) -> StdResult<Response> { Ok(Response::new()) }
        #[sv::msg(exec)]
        fn a22__(&self, _ctx: ExecCtx, first: u32, second: u32) -> StdResult<Response> { Ok(Response::new()) }
        #[sv::msg(query)]
        fn a2_b_(&self, _ctx: QueryCtx, first: u32, second: u32) -> StdResult<Resp> { Ok(Resp {}) }
        #[sv::msg(query)]
        fn a_2b2(&self, _ctx: QueryCtx, first: u32, second: u32) -> StdResult<Resp> { Ok(Resp {}) }
        #[sv::msg(query)]
        fn a_2bc(&self, _ctx: QueryCtx, first: u32, second: u32) -> StdResult<Resp> { Ok(Resp {}) }
        #[sv::msg(query)]
        fn a_b2_(&self, _ctx: QueryCtx, first: u32, second: u32) -> StdResult<Resp> { Ok(Resp {}) }
        #[sv::msg(sudo)]
        fn a_b_c(&self, _ctx: SudoCtx, first: u32, second: u32) -> StdResult<Response> { Ok(Response::new()) }
        #[sv::msg(sudo)]
        fn a_bc2(&self, _ctx: SudoCtx, first: u32, second: u32) -> StdResult<Response> { Ok(Response::new()) }
        #[sv::msg(sudo)]
        fn a_bcd(&self, _ctx: SudoCtx, first: u32, second: u32) -> StdResult<Response> { Ok(Response::new()) }
        #[sv::msg(sudo)]
        fn ab22(&self, _ctx: SudoCtx, first: u32, second: u32) -> StdResult<Response> { Ok(Response::new()) }
    }
}

pub mod ti7 {
    use super::*;
    #[interface]
    #[sv::custom(msg = sylvia::cw_std::Empty, query = sylvia::cw_std::Empty)]
    pub trait Shapes7 {
        type Error: From<StdError>;
        #[sv::msg(exec)]
        fn a_b_c(&self, ctx: ExecCtx, first: u32, second: u32) -> Result<Response, Self::Error>;
        #[sv::msg(exec)]
        fn a_bc2(&self, ctx: ExecCtx, first: u32, second: u32) -> Result<Response, Self::Error>;
        #[sv::msg(exec)]
        fn a_bcd(&self, ctx: ExecCtx, first: u32, second: u32) -> Result<Response, Self::Error>;
        #[sv::msg(exec)]
        fn ab22(&self, ctx: ExecCtx, first: u32, second: u32) -> Result<Response, Self::Error>;
        #[sv::msg(query)]
        fn _a_(&self, ctx: QueryCtx, first: u32, second: u32) -> Result<Resp, Self::Error>;
        #[sv::msg(query)]
        fn _a_2(&self, ctx: QueryCtx, first: u32, second: u32) -> Result<Resp, Self::Error>;
        #[sv::msg(query)]
        fn _ab(&self, ctx: QueryCtx, first: u32, second: u32) -> Result<Resp, Self::Error>;
        #[sv::msg(query)]
        fn a22__(&self, ctx: QueryCtx, first: u32, second: u32) -> Result<Resp, Self::Error>;
        #[sv::msg(sudo)]
        fn a2_b_(&self, ctx: SudoCtx, first: u32, second: u32) -> Result<Response, Self::Error>;
        #[sv::msg(sudo)]
        fn a_2b2(&self, ctx: SudoCtx, first: u32, second: u32) -> Result<Response, Self::Error>;
        #[sv::msg(sudo)]
        fn a_2bc(&self, ctx: SudoCtx, first: u32, second: u32) -> Result<Response, Self::Error>;
        #[sv::msg(sudo)]
        fn a_b2_(&self, ctx: SudoCtx, first: u32, second: u32) -> Result<Response, Self::Error>;
    }
}

pub mod tu7 {
    use super::*;
    pub struct Contract;

    impl super::ti7::Shapes7 for Contract {
        type Error = StdError;
        fn a_b_c(&self, _ctx: ExecCtx, first: u32, second: u32) -> StdResult<Response> { Ok(Response::new()) }
        fn a_bc2(&self, _ctx: ExecCtx, first: u32, second: u32) -> StdResult<Response> { Ok(Response::new()) }
        fn a_bcd(&self, _ctx: ExecCtx, first: u32, second: u32) -> StdResult<Response> { Ok(Response::new()) }
        fn ab22(&self, _ctx: ExecCtx, first: u32, second: u32) -> StdResult<Response> { Ok(Response::new()) }
        fn _a_(&self, _ctx: QueryCtx, first: u32, second: u32) -> StdResult<Resp> { Ok(Resp {}) }
        fn _a_2(&self, _ctx: QueryCtx, first: u32, second: u32) -> StdResult<Resp> { Ok(Resp {}) }
        fn _ab(&self, _ctx: QueryCtx, first: u32, second: u32) -> StdResult<Resp> { Ok(Resp {}) }
        fn a22__(&self, _ctx: QueryCtx, first: u32, second: u32) -> StdResult<Resp> { Ok(Resp {}) }
        fn a2_b_(&self, _ctx: SudoCtx, first: u32, second: u32) -> StdResult<Response> { Ok(Response::new()) }
        fn a_2b2(&self, _ctx: SudoCtx, first: u32, second: u32) -> StdResult<Response> { Ok(Response::new()) }
        fn a_2bc(&self, _ctx: SudoCtx, first: u32, second: u32) -> StdResult<Response> { Ok(Response::new()) }
        fn a_b2_(&self, _ctx: SudoCtx, first: u32, second: u32) -> StdResult<Response> { Ok(Response::new()) }
    }

    #[entry_points]
    #[contract]
    #[sv::messages(super::ti7 as Shapes7)]
    impl Contract {
        pub fn new() -> Self { Self }
        #[sv::msg(instantiate)]
        fn instantiate(&self, _ctx: InstantiateCtx) -> StdResult<Response> { Ok(Response::new()) }
        #[sv::msg(exec)]
        fn zz_own_exec(&self, _ctx: ExecCtx, first: u32, second: u32) -> StdResult<Response> { Ok(Response::new()) }
        #[sv::msg(query)]
        fn zz_own_query(&self, _ctx: QueryCtx, first: u32, second: u32) -> StdResult<Resp> { Ok(Resp {}) }
    }
}

pub mod tc8 {
    use super::*;
    pub struct Contract;

    #[entry_points]
    #[contract]
    impl Contract {
        pub fn new() -> Self { Self }
        #[sv::msg(instantiate)]
        fn instantiate(&self, _ctx: InstantiateCtx) -> StdResult<Response> { Ok(Response::new()) }
        #[sv::msg(exec)]
        fn _a_2_(&self, _ctx: ExecCtx, first: u32, second: u32) -> StdResult<Response> { Ok(Response::new()) }
        #[sv::msg(exec)]
        fn _a__(&self, _ctx: ExecCtx, first: u32, second: u32) -> StdResult<Response> { Ok(Response::new()) }
        #[sv::msg(exec)]
        fn _ab_(&self, _ctx: ExecCtx, first: u32, second: u32) -> StdResult<Response> { Ok(Response::new()) }
        #[sv::msg(exec)]
        fn a2_2(&self, _ctx: ExecCtx, first: u32, second: u32) -> StdResult<Response> { Ok(Response::new()) }
        #[sv::msg(query)]
        fn a2b(&self, _ctx: QueryCtx, first: u32, second: u32) -> StdResult<Resp> { Ok(Resp {}) }
        #[sv::msg(query)]
        fn a_b_2(&self, _ctx: QueryCtx, first: u32, second: u32) -> StdResult<Resp> { Ok(Resp {}) }
        #[sv::msg(query)]
        fn a_bc(&self, _ctx: QueryCtx, first: u32, second: u32) -> StdResult<Resp> { Ok(Resp {}) }
        #[sv::msg(query)]
        fn ab222(&self, _ctx: QueryCtx, first: u32, second: u32) -> StdResult<Resp> { Ok(Resp {}) }
        #[sv::msg(sudo)]
        fn ab22_(&self, _ctx: SudoCtx, first: u32, second: u32) -> StdResult<Response> { Ok(Response::new()) }
        #[sv::msg(sudo)]
        fn ab22c(&self, _ctx: SudoCtx, first: u32, second: u32) -> StdResult<Response> { Ok(Response::new()) }
        #[sv::msg(sudo)]
        fn ab2_c(&self, _ctx: SudoCtx, first: u32, second: u32) -> StdResult<Response> { Ok(Response::new()) }
        #[sv::msg(sudo)]
        fn ab2c2(&self, _ctx: SudoCtx, first: u32, second: u32) -> StdResult<Response> { Ok(Response::new()) }
    }
}

pub mod ti8 {
    use super::*;
    #[interface]
    #[sv::custom(msg = sylvia::cw_std::Empty, query = sylvia::cw_std::Empty)]
    pub trait Shapes8 {
        type Error: From<StdError>;
        #[sv::msg(exec)]
        fn ab22_(&self, ctx: ExecCtx, first: u32, second: u32) -> Result<Response, Self::Error>;
        #[sv::msg(exec)]
        fn ab22c(&self, ctx: ExecCtx, first: u32, second: u32) -> Result<Response, Self::Error>;
        #[sv::msg(exec)]
        fn ab2_c(&self, ctx: ExecCtx, first: u32, second: u32) -> Result<Response, Self::Error>;
        #[sv::msg(exec)]
        fn ab2c2(&self, ctx: ExecCtx, first: u32, second: u32) -> Result<Response, Self::Error>;
        #[sv::msg(query)]
        fn _a_2_(&self, ctx: QueryCtx, first: u32, second: u32) -> Result<Resp, Self::Error>;
        #[sv::msg(query)]
        fn _a__(&self, ctx: QueryCtx, first: u32, second: u32) -> Result<Resp, Self::Error>;
        #[sv::msg(query)]
        fn _ab_(&self, ctx: QueryCtx, first: u32, second: u32) -> Result<Resp, Self::Error>;
        #[sv::msg(query)]
        fn a2_2(&self, ctx: QueryCtx, first: u32, second: u32) -> Result<Resp, Self::Error>;
        #[sv::msg(sudo)]
        fn a2b(&self, ctx: SudoCtx, first: u32, second: u32) -> Result<Response, Self::Error>;
        #[sv::msg(sudo)]
        fn a_b_2(&self, ctx: SudoCtx, first: u32, second: u32) -> Result<Response, Self::Error>;
        #[sv::msg(sudo)]
        fn a_bc(&self, ctx: SudoCtx, first: u32, second: u32) -> Result<Response, Self::Error>;
        #[sv::msg(sudo)]
        fn ab222(&self, ctx: SudoCtx, first: u32, second: u32) -> Result<Response, Self::Error>;
    }
}

pub mod tu8 {
    use super::*;
    pub struct Contract;

    impl super::ti8::Shapes8 for Contract {
        type Error = StdError;
        fn ab22_(&self, _ctx: ExecCtx, first: u32, second: u32) -> StdResult<Response> { Ok(Response::new()) }
        fn ab22c(&self, _ctx: ExecCtx, first: u32, second: u32) -> StdResult<Response> { Ok(Response::new()) }
        fn ab2_c(&self, _ctx: ExecCtx, first: u32, second: u32) -> StdResult<Response> { Ok(Response::new()) }
        fn ab2c2(&self, _ctx: ExecCtx, first: u32, second: u32) -> StdResult<Response> { Ok(Response::new()) }
        fn _a_2_(&self, _ctx: QueryCtx, first: u32, second: u32) -> StdResult<Resp> { Ok(Resp {}) }
        fn _a__(&self, _ctx: QueryCtx, first: u32, second: u32) -> StdResult<Resp> { Ok(Resp {}) }
        fn _ab_(&self, _ctx: QueryCtx, first: u32, second: u32) -> StdResult<Resp> { Ok(Resp {}) }
        fn a2_2(&self, _ctx: QueryCtx, first: u32, second: u32) -> StdResult<Resp> { Ok(Resp {}) }
        fn a2b(&self, _ctx: SudoCtx, first: u32, second: u32) -> StdResult<Response> { Ok(Response::new()) }
        fn a_b_2(&self, _ctx: SudoCtx, first: u32, second: u32) -> StdResult<Response> { Ok(Response::new()) }
        fn a_bc(&self, _ctx: SudoCtx, first: u32, second: u32) -> StdResult<Response> { Ok(Response::new()) }
        fn ab222(&self, _ctx: SudoCtx, first: u32, second: u32) -> StdResult<Response> { Ok(Response::new()) }
    }

    #[entry_points]
    #[contract]
    #[sv::messages(super::ti8 as Shapes8)]
    impl Contract {
        pub fn new() -> Self { Self }
        #[sv::msg(instantiate)]
        fn instantiate(&self, _ctx: InstantiateCtx) -> StdResult<Response> { Ok(Response::new()) }
        #[sv::msg(exec)]
        fn zz_own_exec(&self, _ctx: ExecCtx, first: u32, second: u32) -> StdResult<Response> { Ok(Response::new()) }
        #[sv::msg(query)]
        fn zz_own_query(&self, _ctx: QueryCtx, first: u32, second: u32) -> StdResult<Resp> { Ok(Resp {}) }
    }
}

pub mod tc9 {
    use super::*;
    pub struct Contract;

    #[entry_points]
    #[contract]
    impl Contract {
        pub fn new() -> Self { Self }
        #[sv::msg(instantiate)]
        fn instantiate(&self, _ctx: InstantiateCtx) -> StdResult<Response> { Ok(Response::new()) }
        #[sv::msg(exec)]
        fn _a__2(&self, _ctx: ExecCtx, first: u32, second: u32) -> StdResult<Response> { Ok(Response::new()) }
        #[sv::msg(exec)]
        fn _a___(&self, _ctx: ExecCtx, first: u32, second: u32) -> StdResult<Response> { Ok(Response::new()) }
        #[sv::msg(exec)]
        fn _ab__(&self, _ctx: ExecCtx, first: u32, second: u32) -> StdResult<Response> { Ok(Response::new()) }
        #[sv::msg(exec)]
        fn a2_2_(&self, _ctx: ExecCtx, first: u32, second: u32) -> StdResult<Response> { Ok(Response::new()) }
        #[sv::msg(query)]
        fn a2b_(&self, _ctx: QueryCtx, first: u32, second: u32) -> StdResult<Resp> { Ok(Resp {}) }
        #[sv::msg(query)]
        fn a_bc_(&self, _ctx: QueryCtx, first: u32, second: u32) -> StdResult<Resp> { Ok(Resp {}) }
        #[sv::msg(query)]
        fn ab2(&self, _ctx: QueryCtx, first: u32, second: u32) -> StdResult<Resp> { Ok(Resp {}) }
        #[sv::msg(query)]
        fn ab2_2(&self, _ctx: QueryCtx, first: u32, second: u32) -> StdResult<Resp> { Ok(Resp {}) }
        #[sv::msg(sudo)]
        fn ab2c(&self, _ctx: SudoCtx, first: u32, second: u32) -> StdResult<Response> { Ok(Response::new()) }
        #[sv::msg(sudo)]
        fn ab2cd(&self, _ctx: SudoCtx, first: u32, second: u32) -> StdResult<Response> { Ok(Response::new()) }
        #[sv::msg(sudo)]
        fn ab_c2(&self, _ctx: SudoCtx, first: u32, second: u32) -> StdResult<Response> { Ok(Response::new()) }
        #[sv::msg(sudo)]
        fn ab_cd(&self, _ctx: SudoCtx, first: u32, second: u32) -> StdResult<Response> { Ok(Response::new()) }
    }
}

pub mod ti9 {
    use super::*;
    #[interface]
    #[sv::custom(msg = sylvia::cw_std::Empty, query = sylvia::cw_std::Empty)]
    pub trait Shapes9 {
        type Error: From<StdError>;
        #[sv::msg(exec)]
        fn ab2c(&self, ctx: ExecCtx, first: u32, second: u32) -> Result<Response, Self::Error>;
        #[sv::msg(exec)]
        fn ab2cd(&self, ctx: ExecCtx, first: u32, second: u32) -> Result<Response, Self::Error>;
        #[sv::msg(exec)]
        fn ab_c2(&self, ctx: ExecCtx, first: u32, second: u32) -> Result<Response, Self::Error>;
        #[sv::msg(exec)]
        fn ab_cd(&self, ctx: ExecCtx, first: u32, second: u32) -> Result<Response, Self::Error>;
        #[sv::msg(query)]
        fn _a__2(&self, ctx: QueryCtx, first: u32, second: u32) -> Result<Resp, Self::Error>;
        #[sv::msg(query)]
        fn _a___(&self, ctx: QueryCtx, first: u32, second: u32) -> Result<Resp, Self::Error>;
        #[sv::msg(query)]
        fn _ab__(&self, ctx: QueryCtx, first: u32, second: u32) -> Result<Resp, Self::Error>;
        #[sv::msg(query)]
        fn a2_2_(&self, ctx: QueryCtx, first: u32, second: u32) -> Result<Resp, Self::Error>;
        #[sv::msg(sudo)]
        fn a2b_(&self, ctx: SudoCtx, first: u32, second: u32) -> Result<Response, Self::Error>;
        #[sv::msg(sudo)]
        fn a_bc_(&self, ctx: SudoCtx, first: u32, second: u32) -> Result<Response, Self::Error>;
        #[sv::msg(sudo)]
        fn ab2(&self, ctx: SudoCtx, first: u32, second: u32) -> Result<Response, Self::Error>;
        #[sv::msg(sudo)]
        fn ab2_2(&self, ctx: SudoCtx, first: u32, second: u32) -> Result<Response, Self::Error>;
    }
}

pub mod tu9 {
    use super::*;
    pub struct Contract;

    impl super::ti9::Shapes9 for Contract {
        type Error = StdError;
        fn ab2c(&self, _ctx: ExecCtx, first: u32, second: u32) -> StdResult<Response> { Ok(Response::new()) }
        fn ab2cd(&self, _ctx: ExecCtx, first: u32, second: u32) -> StdResult<Response> { Ok(Response::new()) }
        fn ab_c2(&self, _ctx: ExecCtx, first: u32, second: u32) -> StdResult<Response> { Ok(Response::new()) }
        fn ab_cd(&self, _ctx: ExecCtx, first: u32, second: u32) -> StdResult<Response> { Ok(Response::new()) }
        fn _a__2(&self, _ctx: QueryCtx, first: u32, second: u32) -> StdResult<Resp> { Ok(Resp {}) }
        fn _a___(&self, _ctx: QueryCtx, first: u32, second: u32) -> StdResult<Resp> { Ok(Resp {}) }
        fn _ab__(&self, _ctx: QueryCtx, first: u32, second: u32) -> StdResult<Resp> { Ok(Resp {}) }
        fn a2_2_(&self, _ctx: QueryCtx, first: u32, second: u32) -> StdResult<Resp> { Ok(Resp {}) }
        fn a2b_(&self, _ctx: SudoCtx, first: u32, second: u32) -> StdResult<Response> { Ok(Response::new()) }
        fn a_bc_(&self, _ctx: SudoCtx, first: u32, second: u32) -> StdResult<Response> { Ok(Response::new()) }
        fn ab2(&self, _ctx: SudoCtx, first: u32, second: u32) -> StdResult<Response> { Ok(Response::new()) }
        fn ab2_2(&self, _ctx: SudoCtx, first: u32, second: u32) -> StdResult<Response> { Ok(Response::new()) }
    }

    #[entry_points]
    #[contract]
    #[sv::messages(super::ti9 as Shapes9)]
    impl Contract {
        pub fn new() -> Self { Self }
        #[sv::msg(instantiate)]
        fn instantiate(&self, _ctx: InstantiateCtx) -> StdResult<Response> { Ok(Response::new()) }
        #[sv::msg(exec)]
        fn zz_own_exec(&self, _ctx: ExecCtx, first: u32, second: u32) -> StdResult<Response> { Ok(Response::new()) }
        #[sv::msg(query)]
        fn zz_own_query(&self, _ctx: QueryCtx, first: u32, second: u32) -> StdResult<Resp> { Ok(Resp {}) }
    }
}

pub mod tc10 {
    use super::*;
    pub struct Contract;

    #[entry_points]
    #[contract]
    impl Contract {
        pub fn new() -> Self { Self }
        #[sv::msg(instantiate)]
        fn instantiate(&self, _ctx: InstantiateCtx) -> StdResult<Response> { Ok(Response::new()) }
        #[sv::msg(exec)]
        fn a(&self, _ctx: ExecCtx, first: u32, second: u32) -> StdResult<Response> { Ok(Response::new()) }
        #[sv::msg(exec)]
        fn a2(&self, _ctx: ExecCtx, first: u32, second: u32) -> StdResult<Response> { Ok(Response::new()) }
        #[sv::msg(exec)]
        fn a2__2(&self, _ctx: ExecCtx, first: u32, second: u32) -> StdResult<Response> { Ok(Response::new()) }
        #[sv::msg(exec)]
        fn a2b__(&self, _ctx: ExecCtx, first: u32, second: u32) -> StdResult<Response> { Ok(Response::new()) }
        #[sv::msg(query)]
        fn a___b(&self, _ctx: QueryCtx, first: u32, second: u32) -> StdResult<Resp> { Ok(Resp {}) }
        #[sv::msg(query)]
        fn ab2_(&self, _ctx: QueryCtx, first: u32, second: u32) -> StdResult<Resp> { Ok(Resp {}) }
        #[sv::msg(query)]
        fn ab2c_(&self, _ctx: QueryCtx, first: u32, second: u32) -> StdResult<Resp> { Ok(Resp {}) }
        #[sv::msg(query)]
        fn ab_22(&self, _ctx: QueryCtx, first: u32, second: u32) -> StdResult<Resp> { Ok(Resp {}) }
        #[sv::msg(sudo)]
        fn ab__c(&self, _ctx: SudoCtx, first: u32, second: u32) -> StdResult<Response> { Ok(Response::new()) }
        #[sv::msg(sudo)]
        fn abc2(&self, _ctx: SudoCtx, first: u32, second: u32) -> StdResult<Response> { Ok(Response::new()) }
        #[sv::msg(sudo)]
        fn abc22(&self, _ctx: SudoCtx, first: u32, second: u32) -> StdResult<Response> { Ok(Response::new()) }
        #[sv::msg(sudo)]
        fn abc2d(&self, _ctx: SudoCtx, first: u32, second: u32) -> StdResult<Response> { Ok(Response::new()) }
    }
}

pub mod ti10 {
    use super::*;
    #[interface]
    #[sv::custom(msg = sylvia::cw_std::Empty, query = sylvia::cw_std::Empty)]
    pub trait Shapes10 {
        type Error: From<StdError>;
        #[sv::msg(exec)]
        fn ab__c(&self, ctx: ExecCtx, first: u32, second: u32) -> Result<Response, Self::Error>;
        #[sv::msg(exec)]
        fn abc2(&self, ctx: ExecCtx, first: u32, second: u32) -> Result<Response, Self::Error>;
        #[sv::msg(exec)]
        fn abc22(&self, ctx: ExecCtx, first: u32, second: u32) -> Result<Response, Self::Error>;
        #[sv::msg(exec)]
        fn abc2d(&self, ctx: ExecCtx, first: u32, second: u32) -> Result<Response, Self::Error>;
        #[sv::msg(query)]
        fn a(&self, ctx: QueryCtx, first: u32, second: u32) -> Result<Resp, Self::Error>;
        #[sv::msg(query)]
        fn a2(&self, ctx: QueryCtx, first: u32, second: u32) -> Result<Resp, Self::Error>;
        #[sv::msg(query)]
        fn a2__2(&self, ctx: QueryCtx, first: u32, second: u32) -> Result<Resp, Self::Error>;
        #[sv::msg(query)]
        fn a2b__(&self, ctx: QueryCtx, first: u32, second: u32) -> Result<Resp, Self::Error>;
        #[sv::msg(sudo)]
        fn a___b(&self, ctx: SudoCtx, first: u32, second: u32) -> Result<Response, Self::Error>;
        #[sv::msg(sudo)]
        fn ab2_(&self, ctx: SudoCtx, first: u32, second: u32) -> Result<Response, Self::Error>;
        #[sv::msg(sudo)]
        fn ab2c_(&self, ctx: SudoCtx, first: u32, second: u32) -> Result<Response, Self::Error>;
        #[sv::msg(sudo)]
        fn ab_22(&self, ctx: SudoCtx, first: u32, second: u32) -> Result<Response, Self::Error>;
    }
}

pub mod tu10 {
    use super::*;
    pub struct Contract;

    impl super::ti10::Shapes10 for Contract {
        type Error = StdError;
        fn ab__c(&self, _ctx: ExecCtx, first: u32, second: u32) -> StdResult<Response> { Ok(Response::new()) }
        fn abc2(&self, _ctx: ExecCtx, first: u32, second: u32) -> StdResult<Response> { Ok(Response::new()) }
        fn abc22(&self, _ctx: ExecCtx, first: u32, second: u32) -> StdResult<Response> { Ok(Response::new()) }
        fn abc2d(&self, _ctx: ExecCtx, first: u32, second: u32) -> StdResult<Response> { Ok(Response::new()) }
        fn a(&self, _ctx: QueryCtx, first: u32, second: u32) -> StdResult<Resp> { Ok(Resp {}) }
        fn a2(&self, _ctx: QueryCtx, first: u32, second: u32) -> StdResult<Resp> { Ok(Resp {}) }
        fn a2__2(&self, _ctx: QueryCtx, first: u32, second: u32) -> StdResult<Resp> { Ok(Resp {}) }
        fn a2b__(&self, _ctx: QueryCtx, first: u32, second: u32) -> StdResult<Resp> { Ok(Resp {}) }
        fn a___b(&self, _ctx: SudoCtx, first: u32, second: u32) -> StdResult<Response> { Ok(Response::new()) }
        fn ab2_(&self, _ctx: SudoCtx, first: u32, second: u32) -> StdResult<Response> { Ok(Response::new()) }
        fn ab2c_(&self, _ctx: SudoCtx, first: u32, second: u32) -> StdResult<Response> { Ok(Response::new()) }
        fn ab_22(&self, _ctx: SudoCtx, first: u32, second: u32) -> StdResult<Response> { Ok(Response::new()) }
    }

    #[entry_points]
    #[contract]
    #[sv::messages(super::ti10 as Shapes10)]
    impl Contract {
        pub fn new() -> Self { Self }
        #[sv::msg(instantiate)]
        fn instantiate(&self, _ctx: InstantiateCtx) -> StdResult<Response> { Ok(Response::new()) }
        #[sv::msg(exec)]
        fn zz_own_exec(&self, _ctx: ExecCtx, first: u32, second: u32) -> StdResult<Response> { Ok(Response::new()) }
        #[sv::msg(query)]
        fn zz_own_query(&self, _ctx: QueryCtx, first: u32, second: u32) -> StdResult<Resp> { Ok(Resp {}) }
    }
}

pub mod tc11 {
    use super::*;
    pub struct Contract;

    #[entry_points]
    #[contract]
    impl Contract {
        pub fn new() -> Self { Self }
        #[sv::msg(instantiate)]
        fn instantiate(&self, _ctx: InstantiateCtx) -> StdResult<Response> { Ok(Response::new()) }
        #[sv::msg(exec)]
        fn a2_(&self, _ctx: ExecCtx, first: u32, second: u32) -> StdResult<Response> { Ok(Response::new()) }
        #[sv::msg(exec)]
        fn a_(&self, _ctx: ExecCtx, first: u32, second: u32) -> StdResult<Response> { Ok(Response::new()) }
        #[sv::msg(exec)]
        fn a_22(&self, _ctx: ExecCtx, first: u32, second: u32) -> StdResult<Response> { Ok(Response::new()) }
        #[sv::msg(exec)]
        fn a_2_b(&self, _ctx: ExecCtx, first: u32, second: u32) -> StdResult<Response> { Ok(Response::new()) }
        #[sv::msg(query)]
        fn a__b(&self, _ctx: QueryCtx, first: u32, second: u32) -> StdResult<Resp> { Ok(Resp {}) }
        #[sv::msg(query)]
        fn ab2__(&self, _ctx: QueryCtx, first: u32, second: u32) -> StdResult<Resp> { Ok(Resp {}) }
        #[sv::msg(query)]
        fn ab_2c(&self, _ctx: QueryCtx, first: u32, second: u32) -> StdResult<Resp> { Ok(Resp {}) }
        #[sv::msg(query)]
        fn ab_c(&self, _ctx: QueryCtx, first: u32, second: u32) -> StdResult<Resp> { Ok(Resp {}) }
        #[sv::msg(sudo)]
        fn abc2_(&self, _ctx: SudoCtx, first: u32, second: u32) -> StdResult<Response> { Ok(Response::new()) }
        #[sv::msg(sudo)]
        fn abc_d(&self, _ctx: SudoCtx, first: u32, second: u32) -> StdResult<Response> { Ok(Response::new()) }
        #[sv::msg(sudo)]
        fn abcd2(&self, _ctx: SudoCtx, first: u32, second: u32) -> StdResult<Response> { Ok(Response::new()) }
        #[sv::msg(sudo)]
        fn abcde(&self, _ctx: SudoCtx, first: u32, second: u32) -> StdResult<Response> { Ok(Response::new()) }
    }
}

pub mod ti11 {
    use super::*;
    #[interface]
    #[sv::custom(msg = sylvia::cw_std::Empty, query = sylvia::cw_std::Empty)]
    pub trait Shapes11 {
        type Error: From<StdError>;
        #[sv::msg(exec)]
        fn abc2_(&self, ctx: ExecCtx, first: u32, second: u32) -> Result<Response, Self::Error>;
        #[sv::msg(exec)]
        fn abc_d(&self, ctx: ExecCtx, first: u32, second: u32) -> Result<Response, Self::Error>;
        #[sv::msg(exec)]
        fn abcd2(&self, ctx: ExecCtx, first: u32, second: u32) -> Result<Response, Self::Error>;
        #[sv::msg(exec)]
        fn abcde(&self, ctx: ExecCtx, first: u32, second: u32) -> Result<Response, Self::Error>;
        #[sv::msg(query)]
        fn a2_(&self, ctx: QueryCtx, first: u32, second: u32) -> Result<Resp, Self::Error>;
        #[sv::msg(query)]
        fn a_(&self, ctx: QueryCtx, first: u32, second: u32) -> Result<Resp, Self::Error>;
        #[sv::msg(query)]
        fn a_22(&self, ctx: QueryCtx, first: u32, second: u32) -> Result<Resp, Self::Error>;
        #[sv::msg(query)]
        fn a_2_b(&self, ctx: QueryCtx, first: u32, second: u32) -> Result<Resp, Self::Error>;
        #[sv::msg(sudo)]
        fn a__b(&self, ctx: SudoCtx, first: u32, second: u32) -> Result<Response, Self::Error>;
        #[sv::msg(sudo)]
        fn ab2__(&self, ctx: SudoCtx, first: u32, second: u32) -> Result<Response, Self::Error>;
        #[sv::msg(sudo)]
        fn ab_2c(&self, ctx: SudoCtx, first: u32, second: u32) -> Result<Response, Self::Error>;
        #[sv::msg(sudo)]
        fn ab_c(&self, ctx: SudoCtx, first: u32, second: u32) -> Result<Response, Self::Error>;
    }
}

pub mod tu11 {
    use super::*;
    pub struct Contract;

    impl super::ti11::Shapes11 for Contract {
        type Error = StdError;
        fn abc2_(&self, _ctx: ExecCtx, first: u32, second: u32) -> StdResult<Response> { Ok(Response::new()) }
        fn abc_d(&self, _ctx: ExecCtx, first: u32, second: u32) -> StdResult<Response> { Ok(Response::new()) }
        fn abcd2(&self, _ctx: ExecCtx, first: u32, second: u32) -> StdResult<Response> { Ok(Response::new()) }
        fn abcde(&self, _ctx: ExecCtx, first: u32, second: u32) -> StdResult<Response> { Ok(Response::new()) }
        fn a2_(&self, _ctx: QueryCtx, first: u32, second: u32) -> StdResult<Resp> { Ok(Resp {}) }
        fn a_(&self, _ctx: QueryCtx, first: u32, second: u32) -> StdResult<Resp> { Ok(Resp {}) }
        fn a_22(&self, _ctx: QueryCtx, first: u32, second: u32) -> StdResult<Resp> { Ok(Resp {}) }
        fn a_2_b(&self, _ctx: QueryCtx, first: u32, second: u32) -> StdResult<Resp> { Ok(Resp {}) }
        fn a__b(&self, _ctx: SudoCtx, first: u32, second: u32) -> StdResult<Response> { Ok(Response::new()) }
        fn ab2__(&self, _ctx: SudoCtx, first: u32, second: u32) -> StdResult<Response> { Ok(Response::new()) }
        fn ab_2c(&self, _ctx: SudoCtx, first: u32, second: u32) -> StdResult<Response> { Ok(Response::new()) }
        fn ab_c(&self, _ctx: SudoCtx, first: u32, second: u32) -> StdResult<Response> { Ok(Response::new()) }
    }

    #[entry_points]
    #[contract]
    #[sv::messages(super::ti11 as Shapes11)]
    impl Contract {
        pub fn new() -> Self { Self }
        #[sv::msg(instantiate)]
        fn instantiate(&self, _ctx: InstantiateCtx) -> StdResult<Response> { Ok(Response::new()) }
        #[sv::msg(exec)]
        fn zz_own_exec(&self, _ctx: ExecCtx, first: u32, second: u32) -> StdResult<Response> { Ok(Response::new()) }
        #[sv::msg(query)]
        fn zz_own_query(&self, _ctx: QueryCtx, first: u32, second: u32) -> StdResult<Resp> { Ok(Resp {}) }
    }
}

pub mod tc12 {
    use super::*;
    pub struct Contract;

    #[entry_points]
    #[contract]
    impl Contract {
        pub fn new() -> Self { Self }
        #[sv::msg(instantiate)]
        fn instantiate(&self, _ctx: InstantiateCtx) -> StdResult<Response> { Ok(Response::new()) }
        #[sv::msg(exec)]
        fn a2__(&self, _ctx: ExecCtx, first: u32, second: u32) -> StdResult<Response> { Ok(Response::new()) }
        #[sv::msg(exec)]
        fn a_22_(&self, _ctx: ExecCtx, first: u32, second: u32) -> StdResult<Response> { Ok(Response::new()) }
        #[sv::msg(exec)]
        fn a_2b(&self, _ctx: ExecCtx, first: u32, second: u32) -> StdResult<Response> { Ok(Response::new()) }
        #[sv::msg(query)]
        fn a__(&self, _ctx: QueryCtx, first: u32, second: u32) -> StdResult<Resp> { Ok(Resp {}) }
        #[sv::msg(query)]
        fn a__b_(&self, _ctx: QueryCtx, first: u32, second: u32) -> StdResult<Resp> { Ok(Resp {}) }
        #[sv::msg(query)]
        fn ab_2(&self, _ctx: QueryCtx, first: u32, second: u32) -> StdResult<Resp> { Ok(Resp {}) }
        #[sv::msg(sudo)]
        fn ab_c_(&self, _ctx: SudoCtx, first: u32, second: u32) -> StdResult<Response> { Ok(Response::new()) }
        #[sv::msg(sudo)]
        fn abc_2(&self, _ctx: SudoCtx, first: u32, second: u32) -> StdResult<Response> { Ok(Response::new()) }
        #[sv::msg(sudo)]
        fn abcd(&self, _ctx: SudoCtx, first: u32, second: u32) -> StdResult<Response> { Ok(Response::new()) }
    }
}

pub mod ti12 {
    use super::*;
    #[interface]
    #[sv::custom(msg = sylvia::cw_std::Empty, query = sylvia::cw_std::Empty)]
    pub trait Shapes12 {
        type Error: From<StdError>;
        #[sv::msg(exec)]
        fn ab_c_(&self, ctx: ExecCtx, first: u32, second: u32) -> Result<Response, Self::Error>;
        #[sv::msg(exec)]
        fn abc_2(&self, ctx: ExecCtx, first: u32, second: u32) -> Result<Response, Self::Error>;
        #[sv::msg(exec)]
        fn abcd(&self, ctx: ExecCtx, first: u32, second: u32) -> Result<Response, Self::Error>;
        #[sv::msg(query)]
        fn a2__(&self, ctx: QueryCtx, first: u32, second: u32) -> Result<Resp, Self::Error>;
        #[sv::msg(query)]
        fn a_22_(&self, ctx: QueryCtx, first: u32, second: u32) -> Result<Resp, Self::Error>;
        #[sv::msg(query)]
        fn a_2b(&self, ctx: QueryCtx, first: u32, second: u32) -> Result<Resp, Self::Error>;
        #[sv::msg(sudo)]
        fn a__(&self, ctx: SudoCtx, first: u32, second: u32) -> Result<Response, Self::Error>;
        #[sv::msg(sudo)]
        fn a__b_(&self, ctx: SudoCtx, first: u32, second: u32) -> Result<Response, Self::Error>;
        #[sv::msg(sudo)]
        fn ab_2(&self, ctx: SudoCtx, first: u32, second: u32) -> Result<Response, Self::Error>;
    }
}

pub mod tu12 {
    use super::*;
    pub struct Contract;

    impl super::ti12::Shapes12 for Contract {
        type Error = StdError;
        fn ab_c_(&self, _ctx: ExecCtx, first: u32, second: u32) -> StdResult<Response> { Ok(Response::new()) }
        fn abc_2(&self, _ctx: ExecCtx, first: u32, second: u32) -> StdResult<Response> { Ok(Response::new()) }
        fn abcd(&self, _ctx: ExecCtx, first: u32, second: u32) -> StdResult<Response> { Ok(Response::new()) }
        fn a2__(&self, _ctx: QueryCtx, first: u32, second: u32) -> StdResult<Resp> { Ok(Resp {}) }
        fn a_22_(&self, _ctx: QueryCtx, first: u32, second: u32) -> StdResult<Resp> { Ok(Resp {}) }
        fn a_2b(&self, _ctx: QueryCtx, first: u32, second: u32) -> StdResult<Resp> { Ok(Resp {}) }
        fn a__(&self, _ctx: SudoCtx, first: u32, second: u32) -> StdResult<Response> { Ok(Response::new()) }
        fn a__b_(&self, _ctx: SudoCtx, first: u32, second: u32) -> StdResult<Response> { Ok(Response::new()) }
        fn ab_2(&self, _ctx: SudoCtx, first: u32, second: u32) -> StdResult<Response> { Ok(Response::new()) }
    }

    #[entry_points]
    #[contract]
    #[sv::messages(super::ti12 as Shapes12)]
    impl Contract {
        pub fn new() -> Self { Self }
        #[sv::msg(instantiate)]
        fn instantiate(&self, _ctx: InstantiateCtx) -> StdResult<Response> { Ok(Response::new()) }
        #[sv::msg(exec)]
        fn zz_own_exec(&self, _ctx: ExecCtx, first: u32, second: u32) -> StdResult<Response> { Ok(Response::new()) }
        #[sv::msg(query)]
        fn zz_own_query(&self, _ctx: QueryCtx, first: u32, second: u32) -> StdResult<Resp> { Ok(Resp {}) }
    }
}

pub mod tc13 {
    use super::*;
    pub struct Contract;

    #[entry_points]
    #[contract]
    impl Contract {
        pub fn new() -> Self { Self }
        #[sv::msg(instantiate)]
        fn instantiate(&self, _ctx: InstantiateCtx) -> StdResult<Response> { Ok(Response::new()) }
        #[sv::msg(exec)]
        fn a2___(&self, _ctx: ExecCtx, first: u32, second: u32) -> StdResult<Response> { Ok(Response::new()) }
        #[sv::msg(exec)]
        fn a_2_2(&self, _ctx: ExecCtx, first: u32, second: u32) -> StdResult<Response> { Ok(Response::new()) }
        #[sv::msg(query)]
        fn a_2b_(&self, _ctx: QueryCtx, first: u32, second: u32) -> StdResult<Resp> { Ok(Resp {}) }
        #[sv::msg(query)]
        fn a___(&self, _ctx: QueryCtx, first: u32, second: u32) -> StdResult<Resp> { Ok(Resp {}) }
        #[sv::msg(sudo)]
        fn a_b(&self, _ctx: SudoCtx, first: u32, second: u32) -> StdResult<Response> { Ok(Response::new()) }
        #[sv::msg(sudo)]
        fn ab_2_(&self, _ctx: SudoCtx, first: u32, second: u32) -> StdResult<Response> { Ok(Response::new()) }
        #[sv::msg(sudo)]
        fn abc(&self, _ctx: SudoCtx, first: u32, second: u32) -> StdResult<Response> { Ok(Response::new()) }
        #[sv::msg(sudo)]
        fn abcd_(&self, _ctx: SudoCtx, first: u32, second: u32) -> StdResult<Response> { Ok(Response::new()) }
    }
}

pub mod ti13 {
    use super::*;
    #[interface]
    #[sv::custom(msg = sylvia::cw_std::Empty, query = sylvia::cw_std::Empty)]
    pub trait Shapes13 {
        type Error: From<StdError>;
        #[sv::msg(exec)]
        fn a_b(&self, ctx: ExecCtx, first: u32, second: u32) -> Result<Response, Self::Error>;
        #[sv::msg(exec)]
        fn ab_2_(&self, ctx: ExecCtx, first: u32, second: u32) -> Result<Response, Self::Error>;
        #[sv::msg(exec)]
        fn abc(&self, ctx: ExecCtx, first: u32, second: u32) -> Result<Response, Self::Error>;
        #[sv::msg(exec)]
        fn abcd_(&self, ctx: ExecCtx, first: u32, second: u32) -> Result<Response, Self::Error>;
        #[sv::msg(query)]
        fn a2___(&self, ctx: QueryCtx, first: u32, second: u32) -> Result<Resp, Self::Error>;
        #[sv::msg(query)]
        fn a_2_2(&self, ctx: QueryCtx, first: u32, second: u32) -> Result<Resp, Self::Error>;
        #[sv::msg(sudo)]
        fn a_2b_(&self, ctx: SudoCtx, first: u32, second: u32) -> Result<Response, Self::Error>;
        #[sv::msg(sudo)]
        fn a___(&self, ctx: SudoCtx, first: u32, second: u32) -> Result<Response, Self::Error>;
    }
}

pub mod tu13 {
    use super::*;
    pub struct Contract;

    impl super::ti13::Shapes13 for Contract {
        type Error = StdError;
        fn a_b(&self, _ctx: ExecCtx, first: u32, second: u32) -> StdResult<Response> { Ok(Response::new()) }
        fn ab_2_(&self, _ctx: ExecCtx, first: u32, second: u32) -> StdResult<Response> { Ok(Response::new()) }
        fn abc(&self, _ctx: ExecCtx, first: u32, second: u32) -> StdResult<Response> { Ok(Response::new()) }
        fn abcd_(&self, _ctx: ExecCtx, first: u32, second: u32) -> StdResult<Response> { Ok(Response::new()) }
        fn a2___(&self, _ctx: QueryCtx, first: u32, second: u32) -> StdResult<Resp> { Ok(Resp {}) }
        fn a_2_2(&self, _ctx: QueryCtx, first: u32, second: u32) -> StdResult<Resp> { Ok(Resp {}) }
        fn a_2b_(&self, _ctx: SudoCtx, first: u32, second: u32) -> StdResult<Response> { Ok(Response::new()) }
        fn a___(&self, _ctx: SudoCtx, first: u32, second: u32) -> StdResult<Response> { Ok(Response::new()) }
    }

    #[entry_points]
    #[contract]
    #[sv::messages(super::ti13 as Shapes13)]
    impl Contract {
        pub fn new() -> Self { Self }
        #[sv::msg(instantiate)]
        fn instantiate(&self, _ctx: InstantiateCtx) -> StdResult<Response> { Ok(Response::new()) }
        #[sv::msg(exec)]
        fn zz_own_exec(&self, _ctx: ExecCtx, first: u32, second: u32) -> StdResult<Response> { Ok(Response::new()) }
        #[sv::msg(query)]
        fn zz_own_query(&self, _ctx: QueryCtx, first: u32, second: u32) -> StdResult<Resp> { Ok(Resp {}) }
    }
}

pub mod tc14 {
    use super::*;
    pub struct Contract;

    #[entry_points]
    #[contract]
    impl Contract {
        pub fn new() -> Self { Self }
        #[sv::msg(instantiate)]
        fn instantiate(&self, _ctx: InstantiateCtx) -> StdResult<Response> { Ok(Response::new()) }
        #[sv::msg(exec)]
        fn a_2(&self, _ctx: ExecCtx, first: u32, second: u32) -> StdResult<Response> { Ok(Response::new()) }
        #[sv::msg(exec)]
        fn a__22(&self, _ctx: ExecCtx, first: u32, second: u32) -> StdResult<Response> { Ok(Response::new()) }
        #[sv::msg(query)]
        fn a__2b(&self, _ctx: QueryCtx, first: u32, second: u32) -> StdResult<Resp> { Ok(Resp {}) }
        #[sv::msg(query)]
        fn a____(&self, _ctx: QueryCtx, first: u32, second: u32) -> StdResult<Resp> { Ok(Resp {}) }
        #[sv::msg(sudo)]
        fn a_b_(&self, _ctx: SudoCtx, first: u32, second: u32) -> StdResult<Response> { Ok(Response::new()) }
        #[sv::msg(sudo)]
        fn ab__2(&self, _ctx: SudoCtx, first: u32, second: u32) -> StdResult<Response> { Ok(Response::new()) }
        #[sv::msg(sudo)]
        fn abc_(&self, _ctx: SudoCtx, first: u32, second: u32) -> StdResult<Response> { Ok(Response::new()) }
    }
}

pub mod ti14 {
    use super::*;
    #[interface]
    #[sv::custom(msg = sylvia::cw_std::Empty, query = sylvia::cw_std::Empty)]
    pub trait Shapes14 {
        type Error: From<StdError>;
        #[sv::msg(exec)]
        fn a_b_(&self, ctx: ExecCtx, first: u32, second: u32) -> Result<Response, Self::Error>;
        #[sv::msg(exec)]
        fn ab__2(&self, ctx: ExecCtx, first: u32, second: u32) -> Result<Response, Self::Error>;
        #[sv::msg(exec)]
        fn abc_(&self, ctx: ExecCtx, first: u32, second: u32) -> Result<Response, Self::Error>;
        #[sv::msg(query)]
        fn a_2(&self, ctx: QueryCtx, first: u32, second: u32) -> Result<Resp, Self::Error>;
        #[sv::msg(query)]
        fn a__22(&self, ctx: QueryCtx, first: u32, second: u32) -> Result<Resp, Self::Error>;
        #[sv::msg(sudo)]
        fn a__2b(&self, ctx: SudoCtx, first: u32, second: u32) -> Result<Response, Self::Error>;
        #[sv::msg(sudo)]
        fn a____(&self, ctx: SudoCtx, first: u32, second: u32) -> Result<Response, Self::Error>;
    }
}

pub mod tu14 {
    use super::*;
    pub struct Contract;

    impl super::ti14::Shapes14 for Contract {
        type Error = StdError;
        fn a_b_(&self, _ctx: ExecCtx, first: u32, second: u32) -> StdResult<Response> { Ok(Response::new()) }
        fn ab__2(&self, _ctx: ExecCtx, first: u32, second: u32) -> StdResult<Response> { Ok(Response::new()) }
        fn abc_(&self, _ctx: ExecCtx, first: u32, second: u32) -> StdResult<Response> { Ok(Response::new()) }
        fn a_2(&self, _ctx: QueryCtx, first: u32, second: u32) -> StdResult<Resp> { Ok(Resp {}) }
        fn a__22(&self, _ctx: QueryCtx, first: u32, second: u32) -> StdResult<Resp> { Ok(Resp {}) }
        fn a__2b(&self, _ctx: SudoCtx, first: u32, second: u32) -> StdResult<Response> { Ok(Response::new()) }
        fn a____(&self, _ctx: SudoCtx, first: u32, second: u32) -> StdResult<Response> { Ok(Response::new()) }
    }

    #[entry_points]
    #[contract]
    #[sv::messages(super::ti14 as Shapes14)]
    impl Contract {
        pub fn new() -> Self { Self }
        #[sv::msg(instantiate)]
        fn instantiate(&self, _ctx: InstantiateCtx) -> StdResult<Response> { Ok(Response::new()) }
        #[sv::msg(exec)]
        fn zz_own_exec(&self, _ctx: ExecCtx, first: u32, second: u32) -> StdResult<Response> { Ok(Response::new()) }
        #[sv::msg(query)]
        fn zz_own_query(&self, _ctx: QueryCtx, first: u32, second: u32) -> StdResult<Resp> { Ok(Resp {}) }
    }
}

pub mod tc15 {
    use super::*;
    pub struct Contract;

    #[entry_points]
    #[contract]
    impl Contract {
        pub fn new() -> Self { Self }
        #[sv::msg(instantiate)]
        fn instantiate(&self, _ctx: InstantiateCtx) -> StdResult<Response> { Ok(Response::new()) }
        #[sv::msg(exec)]
        fn a_2_(&self, _ctx: ExecCtx, first: u32, second: u32) -> StdResult<Response> { Ok(Response::new()) }
        #[sv::msg(query)]
        fn a_b__(&self, _ctx: QueryCtx, first: u32, second: u32) -> StdResult<Resp> { Ok(Resp {}) }
        #[sv::msg(sudo)]
        fn abc__(&self, _ctx: SudoCtx, first: u32, second: u32) -> StdResult<Response> { Ok(Response::new()) }
    }
}

pub mod ti15 {
    use super::*;
    #[interface]
    #[sv::custom(msg = sylvia::cw_std::Empty, query = sylvia::cw_std::Empty)]
    pub trait Shapes15 {
        type Error: From<StdError>;
        #[sv::msg(exec)]
        fn abc__(&self, ctx: ExecCtx, first: u32, second: u32) -> Result<Response, Self::Error>;
        #[sv::msg(query)]
        fn a_2_(&self, ctx: QueryCtx, first: u32, second: u32) -> Result<Resp, Self::Error>;
        #[sv::msg(sudo)]
        fn a_b__(&self, ctx: SudoCtx, first: u32, second: u32) -> Result<Response, Self::Error>;
    }
}

pub mod tu15 {
    use super::*;
    pub struct Contract;

    impl super::ti15::Shapes15 for Contract {
        type Error = StdError;
        fn abc__(&self, _ctx: ExecCtx, first: u32, second: u32) -> StdResult<Response> { Ok(Response::new()) }
        fn a_2_(&self, _ctx: QueryCtx, first: u32, second: u32) -> StdResult<Resp> { Ok(Resp {}) }
        fn a_b__(&self, _ctx: SudoCtx, first: u32, second: u32) -> StdResult<Response> { Ok(Response::new()) }
    }

    #[entry_points]
    #[contract]
    #[sv::messages(super::ti15 as Shapes15)]
    impl Contract {
        pub fn new() -> Self { Self }
        #[sv::msg(instantiate)]
        fn instantiate(&self, _ctx: InstantiateCtx) -> StdResult<Response> { Ok(Response::new()) }
        #[sv::msg(exec)]
        fn zz_own_exec(&self, _ctx: ExecCtx, first: u32, second: u32) -> StdResult<Response> { Ok(Response::new()) }
        #[sv::msg(query)]
        fn zz_own_query(&self, _ctx: QueryCtx, first: u32, second: u32) -> StdResult<Resp> { Ok(Resp {}) }
    }
}

pub mod tc16 {
    use super::*;
    pub struct Contract;

    #[entry_points]
    #[contract]
    impl Contract {
        pub fn new() -> Self { Self }
        #[sv::msg(instantiate)]
        fn instantiate(&self, _ctx: InstantiateCtx) -> StdResult<Response> { Ok(Response::new()) }
        #[sv::msg(exec)]
        fn a_2__(&self, _ctx: ExecCtx, first: u32, second: u32) -> StdResult<Response> { Ok(Response::new()) }
        #[sv::msg(query)]
        fn ab(&self, _ctx: QueryCtx, first: u32, second: u32) -> StdResult<Resp> { Ok(Resp {}) }
    }
}

pub mod ti16 {
    use super::*;
    #[interface]
    #[sv::custom(msg = sylvia::cw_std::Empty, query = sylvia::cw_std::Empty)]
    pub trait Shapes16 {
        type Error: From<StdError>;
        #[sv::msg(query)]
        fn a_2__(&self, ctx: QueryCtx, first: u32, second: u32) -> Result<Resp, Self::Error>;
        #[sv::msg(sudo)]
        fn ab(&self, ctx: SudoCtx, first: u32, second: u32) -> Result<Response, Self::Error>;
    }
}

pub mod tu16 {
    use super::*;
    pub struct Contract;

    impl super::ti16::Shapes16 for Contract {
        type Error = StdError;
        fn a_2__(&self, _ctx: QueryCtx, first: u32, second: u32) -> StdResult<Resp> { Ok(Resp {}) }
        fn ab(&self, _ctx: SudoCtx, first: u32, second: u32) -> StdResult<Response> { Ok(Response::new()) }
    }

    #[entry_points]
    #[contract]
    #[sv::messages(super::ti16 as Shapes16)]
    impl Contract {
        pub fn new() -> Self { Self }
        #[sv::msg(instantiate)]
        fn instantiate(&self, _ctx: InstantiateCtx) -> StdResult<Response> { Ok(Response::new()) }
        #[sv::msg(exec)]
        fn zz_own_exec(&self, _ctx: ExecCtx, first: u32, second: u32) -> StdResult<Response> { Ok(Response::new()) }
        #[sv::msg(query)]
        fn zz_own_query(&self, _ctx: QueryCtx, first: u32, second: u32) -> StdResult<Resp> { Ok(Resp {}) }
    }
}

pub mod tc17 {
    use super::*;
    pub struct Contract;

    #[entry_points]
    #[contract]
    impl Contract {
        pub fn new() -> Self { Self }
        #[sv::msg(instantiate)]
        fn instantiate(&self, _ctx: InstantiateCtx) -> StdResult<Response> { Ok(Response::new()) }
        #[sv::msg(exec)]
        fn a__2(&self, _ctx: ExecCtx, first: u32, second: u32) -> StdResult<Response> { Ok(Response::new()) }
        #[sv::msg(query)]
        fn ab_(&self, _ctx: QueryCtx, first: u32, second: u32) -> StdResult<Resp> { Ok(Resp {}) }
    }
}

pub mod ti17 {
    use super::*;
    #[interface]
    #[sv::custom(msg = sylvia::cw_std::Empty, query = sylvia::cw_std::Empty)]
    pub trait Shapes17 {
        type Error: From<StdError>;
        #[sv::msg(query)]
        fn a__2(&self, ctx: QueryCtx, first: u32, second: u32) -> Result<Resp, Self::Error>;
        #[sv::msg(sudo)]
        fn ab_(&self, ctx: SudoCtx, first: u32, second: u32) -> Result<Response, Self::Error>;
    }
}

pub mod tu17 {
    use super::*;
    pub struct Contract;

    impl super::ti17::Shapes17 for Contract {
        type Error = StdError;
        fn a__2(&self, _ctx: QueryCtx, first: u32, second: u32) -> StdResult<Resp> { Ok(Resp {}) }
        fn ab_(&self, _ctx: SudoCtx, first: u32, second: u32) -> StdResult<Response> { Ok(Response::new()) }
    }

    #[entry_points]
    #[contract]
    #[sv::messages(super::ti17 as Shapes17)]
    impl Contract {
        pub fn new() -> Self { Self }
        #[sv::msg(instantiate)]
        fn instantiate(&self, _ctx: InstantiateCtx) -> StdResult<Response> { Ok(Response::new()) }
        #[sv::msg(exec)]
        fn zz_own_exec(&self, _ctx: ExecCtx, first: u32, second: u32) -> StdResult<Response> { Ok(Response::new()) }
        #[sv::msg(query)]
        fn zz_own_query(&self, _ctx: QueryCtx, first: u32, second: u32) -> StdResult<Resp> { Ok(Resp {}) }
    }
}

pub mod tc18 {
    use super::*;
    pub struct Contract;

    #[entry_points]
    #[contract]
    impl Contract {
        pub fn new() -> Self { Self }
        #[sv::msg(instantiate)]
        fn instantiate(&self, _ctx: InstantiateCtx) -> StdResult<Response> { Ok(Response::new()) }
        #[sv::msg(exec)]
        fn a__2_(&self, _ctx: ExecCtx, first: u32, second: u32) -> StdResult<Response> { Ok(Response::new()) }
        #[sv::msg(query)]
        fn ab__(&self, _ctx: QueryCtx, first: u32, second: u32) -> StdResult<Resp> { Ok(Resp {}) }
    }
}

pub mod ti18 {
    use super::*;
    #[interface]
    #[sv::custom(msg = sylvia::cw_std::Empty, query = sylvia::cw_std::Empty)]
    pub trait Shapes18 {
        type Error: From<StdError>;
        #[sv::msg(query)]
        fn a__2_(&self, ctx: QueryCtx, first: u32, second: u32) -> Result<Resp, Self::Error>;
        #[sv::msg(sudo)]
        fn ab__(&self, ctx: SudoCtx, first: u32, second: u32) -> Result<Response, Self::Error>;
    }
}

pub mod tu18 {
    use super::*;
    pub struct Contract;

    impl super::ti18::Shapes18 for Contract {
        type Error = StdError;
        fn a__2_(&self, _ctx: QueryCtx, first: u32, second: u32) -> StdResult<Resp> { Ok(Resp {}) }
        fn ab__(&self, _ctx: SudoCtx, first: u32, second: u32) -> StdResult<Response> { Ok(Response::new()) }
    }

    #[entry_points]
    #[contract]
    #[sv::messages(super::ti18 as Shapes18)]
    impl Contract {
        pub fn new() -> Self { Self }
        #[sv::msg(instantiate)]
        fn instantiate(&self, _ctx: InstantiateCtx) -> StdResult<Response> { Ok(Response::new()) }
        #[sv::msg(exec)]
        fn zz_own_exec(&self, _ctx: ExecCtx, first: u32, second: u32) -> StdResult<Response> { Ok(Response::new()) }
        #[sv::msg(query)]
        fn zz_own_query(&self, _ctx: QueryCtx, first: u32, second: u32) -> StdResult<Resp> { Ok(Resp {}) }
    }
}

pub mod tc19 {
    use super::*;
    pub struct Contract;

    #[entry_points]
    #[contract]
    impl Contract {
        pub fn new() -> Self { Self }
        #[sv::msg(instantiate)]
        fn instantiate(&self, _ctx: InstantiateCtx) -> StdResult<Response> { Ok(Response::new()) }
        #[sv::msg(exec)]
        fn a___2(&self, _ctx: ExecCtx, first: u32, second: u32) -> StdResult<Response> { Ok(Response::new()) }
        #[sv::msg(query)]
        fn ab___(&self, _ctx: QueryCtx, first: u32, second: u32) -> StdResult<Resp> { Ok(Resp {}) }
    }
}

pub mod ti19 {
    use super::*;
    #[interface]
    #[sv::custom(msg = sylvia::cw_std::Empty, query = sylvia::cw_std::Empty)]
    pub trait Shapes19 {
        type Error: From<StdError>;
        #[sv::msg(query)]
        fn a___2(&self, ctx: QueryCtx, first: u32, second: u32) -> Result<Resp, Self::Error>;
        #[sv::msg(sudo)]
        fn ab___(&self, ctx: SudoCtx, first: u32, second: u32) -> Result<Response, Self::Error>;
    }
}

pub mod tu19 {
    use super::*;
    pub struct Contract;

    impl super::ti19::Shapes19 for Contract {
        type Error = StdError;
        fn a___2(&self, _ctx: QueryCtx, first: u32, second: u32) -> StdResult<Resp> { Ok(Resp {}) }
        fn ab___(&self, _ctx: SudoCtx, first: u32, second: u32) -> StdResult<Response> { Ok(Response::new()) }
    }

    #[entry_points]
    #[contract]
    #[sv::messages(super::ti19 as Shapes19)]
    impl Contract {
        pub fn new() -> Self { Self }
        #[sv::msg(instantiate)]
        fn instantiate(&self, _ctx: InstantiateCtx) -> StdResult<Response> { Ok(Response::new()) }
        #[sv::msg(exec)]
        fn zz_own_exec(&self, _ctx: ExecCtx, first: u32, second: u32) -> StdResult<Response> { Ok(Response::new()) }
        #[sv::msg(query)]
        fn zz_own_query(&self, _ctx: QueryCtx, first: u32, second: u32) -> StdResult<Resp> { Ok(Resp {}) }
    }
}
